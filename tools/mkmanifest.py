#!/usr/bin/env python3
"""Generate MANIFEST.json from props.json + manifest_text.json (levels, notes) so that it is always valid."""
import json, os, subprocess
ROOT = os.path.dirname(os.path.dirname(os.path.abspath(__file__)))
props = json.load(open(os.path.join(ROOT, "props.json")))
text = json.load(open(os.path.join(ROOT, "manifest_text.json")))
allp = [json.loads(l)["id"] for l in open(os.path.join(ROOT, "properties.jsonl"))]
hooks = subprocess.run(["git", "-C", "/repo", "log", "--format=%h %s"], capture_output=True, text=True).stdout.splitlines()
hook_commits = [l.split()[0] for l in hooks if "verif hook" in l.lower() or l.split(" ", 1)[1].lower().startswith("verif")]
checks = []
for pid in allp:
    if pid not in props or pid not in text["checks"]:
        continue
    t = text["checks"][pid]
    checks.append({
        "property_id": pid,
        "quick_cmd": f"./check {pid} --tier quick",
        "thorough_cmd": f"./check {pid} --tier thorough",
        "evidence_file": f"evidence/{pid}.json",
        "replay_cmd_template": f"./check {pid} --replay {{path}}",
        "engine": "mlv",
        "level_claimed": {"category": props[pid]["level"], "text": t["level_text"], "design_ref": t.get("design_ref", f"DESIGN.md §4 {pid}")},
        "level_note": t["level_note"],
        "technique": t["technique"],
    })
na = [{"property_id": p, "reason": text["not_applicable"].get(p, "check not built yet in this session (runtime-monitoring design exists in DESIGN.md §4); not claimed until its monitor runs clean on the unchanged tree")} for p in allp if p not in [c["property_id"] for c in checks]]
m = {
    "version": 1,
    "setup_cmd": text["setup_cmd"],
    "hooks": {
        "guard": "cfg(mainline_verif)",
        "enable": "RUSTFLAGS='--cfg mainline_verif --cfg getrandom_backend=\"custom\"' (set in harness/.cargo/config.toml and by ./check); the harness depends on the crate by path = /repo",
        "baseline_off_cmd": "cd /repo && cargo nextest run --workspace --no-fail-fast --offline || (cd /repo && cargo test --workspace --lib --no-fail-fast --offline)",
        "source_commits": hook_commits,
        "add_only": True,
    },
    "engines": [{"name": "mlv", "path": "harness/", "serves_properties": [c["property_id"] for c in checks],
                 "kind_free_text": "Rust harness linking the real crate (hooks on): SimNet virtual-time network + baton scheduler driving real actor threads, raw Byzantine endpoints, API history recorder, datagram trace decoded by an independent bencode parser, reference-model oracles; python driver ./check shards it over 16 pinned processes; companions: Miri / ASan / TSan / libFuzzer scripts under tools/"}],
    "checks": checks,
    "not_applicable": na,
    "notes": text["notes"],
}
json.dump(m, open(os.path.join(ROOT, "MANIFEST.json"), "w"), indent=1)
print("checks:", [c["property_id"] for c in checks], "not_applicable:", [n["property_id"] for n in na])

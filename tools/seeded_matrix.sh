#!/bin/bash
# Run every seeded change against the quick check of its property and record the outcome in its
# meta.json ("check_result"). Each change is applied to a scratch worktree of /repo's HEAD (tools/trymutant_alt.sh:
# own target and evidence directory under $MLV_ALT_DIR, default /tmp/mlv-alt), never to /repo itself.
cd "$(dirname "$0")/.." || exit 2
only=${@:-$(ls seeded)}
for id in $only; do
  d=seeded/$id; prop=${id%%-*}
  [ -f $d/patch.diff ] || continue
  TAILN=400 tools/trymutant_alt.sh $d/patch.diff $prop > /tmp/matrix.$id.out 2>&1; rc=$?
  sigs=$(grep "signature:" /tmp/matrix.$id.out | sed 's/.*signature: //' | sort -u | head -6 | tr '\n' ';')
  python3 - "$d/meta.json" "$rc" "$sigs" "$prop" <<'PY'
import json,sys
p,rc,sigs,prop=sys.argv[1:5]
m=json.load(open(p))
m["check_result"]={"command":f"tools/trymutant_alt.sh seeded/<id>/patch.diff {prop}  (scratch worktree of /repo HEAD + the patch, ./check {prop} --tier quick against it)","exit_code":int(rc),
  "caught":int(rc)==1,"violation_signatures":[s for s in sigs.split(';') if s]}
json.dump(m,open(p,"w"),indent=1)
PY
  echo "$id rc=$rc $sigs"
done

#!/bin/bash
# Companion: ThreadSanitizer build (-Zbuild-std) of the harness.
#  free : no environment installed - real loopback sockets, real time, 8 caller threads hammer one Dht
#         (sync API) against a 6-node Testnet while an exactly-once monitor watches every call
#  sim  : one small SimNet world (node threads handed the baton through condvars)
# exit 0 clean, 1 race report / monitor violation, 2 inconclusive (build trouble, watchdog)
prop=$1; tier=$2; seed=$3; shift 3
ROOT="$(cd "$(dirname "$0")/.." && pwd)"; cd "$ROOT/harness" || exit 2
export CARGO_NET_OFFLINE=true
export RUSTFLAGS='-Zsanitizer=thread --cfg mainline_verif --cfg getrandom_backend="custom"'
cargo +nightly build --quiet --offline -Zbuild-std --target x86_64-unknown-linux-gnu --target-dir target/tsan 2> target/tsan-build.err || { tail -5 target/tsan-build.err; echo "tsan build failed"; exit 2; }
bin=target/tsan/x86_64-unknown-linux-gnu/debug/mlv
out=target/tsan-out; mkdir -p $out
export TSAN_OPTIONS=halt_on_error=1:exitcode=66
rc=0
i=0
for wl in "$@"; do
  i=$((i+1))
  case $wl in
    free) args="sanit-free"; [ "$tier" = quick ] && args="sanit-free tiny" ;;
    sim) args="sanit-sim tiny --cpu 1" ;;
    *) echo "unknown workload $wl"; exit 2 ;;
  esac
  ( timeout 2400 $bin $args --seed $seed --out $out/$prop-$i.json > $out/$prop-$i.log 2>&1; echo $? > $out/$prop-$i.rc ) &
done
wait
i=0
for wl in "$@"; do
  i=$((i+1)); r=$(cat $out/$prop-$i.rc)
  if grep -q "WARNING: ThreadSanitizer" $out/$prop-$i.log || [ "$r" = 66 ]; then
    echo "TSAN REPORT in $wl:"; grep -A25 "WARNING: ThreadSanitizer" $out/$prop-$i.log | head -60; rc=1
  elif [ "$r" != 0 ]; then
    echo "$wl: exit $r"; tail -3 $out/$prop-$i.log; [ $rc = 0 ] && rc=2
  else
    python3 - $out/$prop-$i.json $wl <<'PY'
import json,sys
r=json.load(open(sys.argv[1]))
bad=dict(r['violation_counts'])
inc=r['inconclusive']
print(f"{sys.argv[2]}: no ThreadSanitizer report, {r['evaluations']} calls/evaluations completed, monitor violations: {bad or 'none'}, inconclusive: {inc or 'no'}")
sys.exit(3 if bad else (4 if inc else 0))
PY
    e=$?; [ $e = 3 ] && rc=1; [ $e = 4 ] && [ $rc = 0 ] && rc=2
  fi
done
exit $rc

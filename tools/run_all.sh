#!/bin/bash
# usage: tools/run_all.sh <tier> [seed] [props...]  -- runs the checks one after another, prints one line each
tier=${1:-quick}; seed=${2:-1}; shift 2 2>/dev/null
props=${@:-C01 C02 C03 C04 C05 C06 C07 C08 C09 C10 C11 C12 C13 C14 C15 C16 C17 C18 C19 C20}
cd "$(dirname "$0")/.." || exit 2
for p in $props; do
  s=$(date +%s)
  VERIF_SEED=$seed ./check $p --tier $tier > /tmp/run_all.$tier.$seed.$p.out 2>&1; rc=$?
  e=$(( $(date +%s) - s ))
  echo "$p rc=$rc ${e}s $(tail -1 /tmp/run_all.$tier.$seed.$p.out | cut -c1-170)"
  grep -E "^VIOLATION|^INCONCLUSIVE|signature:" /tmp/run_all.$tier.$seed.$p.out | head -6
done

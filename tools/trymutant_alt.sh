#!/bin/bash
# Development aid: apply a patch to a scratch worktree of /repo (not to /repo itself) and run a check
# against it with a separate target and evidence directory. Usable while other checks run on /repo.
# usage: trymutant_alt.sh <patch.diff> <PROP> [tier] [seed]
set -u
here="$(cd "$(dirname "$0")" && pwd)"
patch="$1"; [ "$patch" != "-" ] && patch="$(realpath "$patch")"; prop="$2"; tier="${3:-quick}"; seed="${4:-1}"
alt="${MLV_ALT_DIR:-/tmp/mlv-alt}"
wt="$alt/repo"
mkdir -p "$alt"
if [ ! -d "$wt" ]; then git -C /repo worktree add -q --detach "$wt" HEAD || exit 2; fi
git -C "$wt" checkout -q --detach "$(git -C /repo rev-parse HEAD)" && git -C "$wt" reset -q --hard && git -C "$wt" clean -fdq -e target
if [ "$patch" != "-" ]; then
  git -C "$wt" apply "$patch" || git -C "$wt" apply --3way "$patch" || { echo "PATCH-FAILED"; git -C "$wt" reset -q --hard; exit 2; }
fi
MLV_REPO_OVERRIDE="$wt" MLV_ALT_DIR="$alt" VERIF_SEED="$seed" "$here/../check" "$prop" --tier "$tier" 2>&1 | tail -${TAILN:-8}
rc=${PIPESTATUS[0]}
git -C "$wt" reset -q --hard
echo "rc=$rc"
exit $rc

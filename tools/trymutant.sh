#!/bin/bash
# usage: tools/trymutant.sh <patch.diff> <PROP> [tier]   -- applies to /repo, runs the check, reverts
set -u
patch=$1; prop=$2; tier=${3:-quick}
cd /repo || exit 3
if ! git diff --quiet; then echo "repo dirty"; exit 3; fi
if ! git apply --3way "$patch" 2>/tmp/apply.err && ! git apply "$patch" 2>>/tmp/apply.err; then echo "APPLY-FAILED"; cat /tmp/apply.err | tail -5; git reset -q --hard HEAD; exit 4; fi
cd /verif && VERIF_EVID_SKIP=1 ./check "$prop" --tier "$tier" > /tmp/mutant.out 2>&1; rc=$?
grep -E "VIOLATION|signature:|verdict|INCONCLUSIVE|KNOWN" /tmp/mutant.out | head -12
echo "rc=$rc"
cd /repo && git reset -q --hard HEAD && git clean -fdq -e target src tests 2>/dev/null
git -C /repo status --short | head -3
exit $rc

#!/bin/bash
# Companion: AddressSanitizer + LeakSanitizer build of the harness on reduced and sliced workloads.
# usage: tools/asan.sh <PROP> <tier> <seed> <workload>...   workloads: inproc | sim | c05slice | c20slice
# exit 0 clean, 1 sanitizer report or monitor violation, 2 inconclusive
prop=$1; tier=$2; seed=$3; shift 3
ROOT="$(cd "$(dirname "$0")/.." && pwd)"; cd "$ROOT/harness" || exit 2
export CARGO_NET_OFFLINE=true
export RUSTFLAGS='-Zsanitizer=address -Cforce-frame-pointers=yes --cfg mainline_verif --cfg getrandom_backend="custom"'
cargo +nightly build --quiet --offline --target x86_64-unknown-linux-gnu --target-dir target/asan 2> target/asan-build.err || { tail -5 target/asan-build.err; echo "asan build failed"; exit 2; }
bin=target/asan/x86_64-unknown-linux-gnu/debug/mlv
out=target/asan-out; mkdir -p $out
export ASAN_OPTIONS=detect_leaks=1:halt_on_error=1:abort_on_error=0:symbolize=1
rc=0
i=0
for wl in "$@"; do
  i=$((i+1))
  case $wl in
    inproc) args="sanit-inproc" ;;
    sim) args="sanit-sim --cpu 1" ;;
    c05slice) args="c05 --tier quick --nshards 64 --shard $((seed % 64)) --cpu 2" ;;
    c20slice) args="c20 --tier quick --nshards 64 --shard $((seed % 64)) --cpu 3" ;;
    c03slice) args="c03 --tier quick --nshards 64 --shard $((seed % 64)) --cpu 4" ;;
    *) echo "unknown workload $wl"; exit 2 ;;
  esac
  ( timeout 1800 $bin $args --seed $seed --out $out/$prop-$i.json > $out/$prop-$i.log 2>&1; echo $? > $out/$prop-$i.rc ) &
done
wait
i=0
for wl in "$@"; do
  i=$((i+1)); r=$(cat $out/$prop-$i.rc)
  if grep -qE "ERROR: AddressSanitizer|ERROR: LeakSanitizer|SUMMARY: AddressSanitizer" $out/$prop-$i.log; then
    echo "ASAN REPORT in $wl:"; grep -E -A14 "ERROR: (Address|Leak)Sanitizer" $out/$prop-$i.log | head -40; rc=1
  elif [ "$r" != 0 ]; then
    echo "$wl: exit $r"; tail -3 $out/$prop-$i.log; [ $rc = 0 ] && rc=2
  else
    python3 - $out/$prop-$i.json $wl <<'PY'
import json,sys
r=json.load(open(sys.argv[1]))
bad={k:v for k,v in r['violation_counts'].items() if k!='bep-example/reencode-tid-width'}
print(f"{sys.argv[2]}: no AddressSanitizer/LeakSanitizer report, {r['evaluations']} monitored evaluations, monitor violations: {bad or 'none'}")
sys.exit(3 if bad else 0)
PY
    [ $? = 3 ] && rc=1
  fi
done
exit $rc

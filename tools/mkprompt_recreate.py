#!/usr/bin/env python3
"""Brief for re-creating seeded changes whose patch files were lost (only their one-line descriptions survive in DESIGN.md §9).
usage: mkprompt_recreate.py <PID> <id1,id2,...>   (worktree /tmp/mut/<PID>-r6, output /tmp/mut/<PID>-r6-out/<id>/)"""
import json, re, sys
props = {json.loads(l)["id"]: json.loads(l) for l in open("/verif/properties.jsonl")}
pid, ids = sys.argv[1], sys.argv[2].split(",")
desc = {}
for l in open("/verif/DESIGN.md"):
    m = re.match(r"\| (C\d\d-m\d+) \| ([^|]+) \|", l)
    if m: desc[m.group(1)] = m.group(2).strip()
p = props[pid]
wt, out = f"/tmp/mut/{pid}-r6", f"/tmp/mut/{pid}-r6-out"
items = "\n".join(f"* `{i}` — {desc[i]}" for i in ids)
print(f"""# Task: implement given property-breaking changes to the Rust crate `dht` (Nuhvi/mainline, BitTorrent Mainline DHT)

You work ONLY in the git worktree `{wt}` (a checkout of the crate; build with `cargo build --offline -j4`,
test with `cargo test --offline -j4`; there is no network). Write your deliverables to `{out}/`.
Never touch /repo or /verif. Do not read anything under /verif. The worktree contains a cfg-gated module `src/verif.rs`
and `#[cfg(mainline_verif)]` lines: leave them alone (they are compiled out).

## The property

**{p['title']}**

{p['statement']}

Scope of "always": {p['quantifier']['text']}

## The changes to implement

Each line below is the one-line description of a change that an earlier engineer made to this crate to break the property
above in a subtle way (the patches themselves were lost). Re-create each one from its description: find the code site it
must refer to, and write the change so that it looks like a plausible slip / optimisation / refactor of a maintainer,
compiles, keeps the existing test suite passing, and breaks the property only in a specific situation (particular history,
timing, boundary input...). If a description is ambiguous choose the most plausible reading.

{items}

For each change `<id>`:

1. the crate still compiles and the **existing** test suite still passes with the change (`cargo test --offline`; two tests are
   known flaky on the unmodified tree: `common::closest_nodes::tests::simulation` and
   `dht::async_dht::test::concurrent_put_mutable_different` — ignore those);
2. provide a **demonstration**: a new integration test file under `tests/` or a `#[cfg(test)]` unit test (as a *separate*
   patch) that FAILS with the change and PASSES without it. Verify both directions yourself.

Write:
* `{out}/<id>/patch.diff` — `git diff` of the library change only (must apply with `git apply` to a clean checkout of the same commit);
* `{out}/<id>/demo.diff` — the demonstration, separate from the patch;
* `{out}/<id>/meta.json` — {{"property": "{pid}", "summary": "...", "needs_to_manifest": "...", "files_touched": [...],
  "demo_cmd": "cargo test --offline ...", "demo_fails_with_patch": true, "demo_passes_without_patch": true, "existing_tests_pass_with_patch": true}}.

When done, restore the worktree to a clean state (`git checkout -- . && git clean -fdq -e target`), delete `{wt}/target`
to free disk space, and reply with a short summary of each change (what, where, what it needs to manifest).
""")

#!/bin/bash
# usage: tools/confirm_mutant.sh <agent-out-dir e.g. /tmp/mut/C10-out/m1> <seeded-id e.g. C10-m1>
# Confirms in a scratch worktree of /repo HEAD: patch applies + builds, existing lib tests pass with it,
# demo fails with the patch and passes without it. On success stores /verif/seeded/<id>/.
set -u
src=$1; id=$2
wt=/tmp/confirm/$id
export CARGO_TARGET_DIR=${CONFIRM_TARGET:-/tmp/confirm/target}
export CARGO_NET_OFFLINE=true
mkdir -p /tmp/confirm
rm -rf "$wt"; git -C /repo worktree prune; git -C /repo worktree add -q --detach "$wt" HEAD || exit 3
cd "$wt"
log=/tmp/confirm/$id.log; : > $log
res() { echo "$id: $*" | tee -a $log; }
cleanup() { cd /; git -C /repo worktree remove --force "$wt" 2>/dev/null; }
if ! git apply --3way "$src/patch.diff" >>$log 2>&1; then res "PATCH-APPLY-FAILED"; cleanup; exit 4; fi
git reset -q
git diff > /tmp/confirm/$id.patch.rebased
if ! cargo build --offline >>$log 2>&1; then res "BUILD-FAILED"; cleanup; exit 5; fi
cargo test --offline --lib -- --skip closest_nodes::tests::simulation --skip concurrent_put_mutable_different >>$log 2>&1
t1=$?
[ $t1 -eq 0 ] || { cargo test --offline --lib -- --skip closest_nodes::tests::simulation --skip concurrent_put_mutable_different >>$log 2>&1; t1=$?; }
demo_cmd=$(python3 -c "import json,sys; print(json.load(open('$src/meta.json')).get('demo_cmd',''))")
# demo application: demo.diff if present, else copy files
if [ ! -f "$src/demo.diff" ] && ls "$src"/*.rs >/dev/null 2>&1; then t=$(mktemp -d); ( cd $t && git init -q && mkdir tests && cp "$src"/*.rs tests/ && git add -A -N . && git diff > "$src/demo.diff" ); rm -rf $t; fi
if [ -f "$src/demo.diff" ]; then git add -A; git apply "$src/demo.diff" >>$log 2>&1 || git apply --3way "$src/demo.diff" >>$log 2>&1 || { res "DEMO-APPLY-FAILED"; cleanup; exit 6; }; git reset -q; fi
# strip leading 'git apply ... &&' and 'cd ... &&' parts from demo_cmd
mkdir -p tests; cmd=$(python3 -c "
import re,sys
c=sys.argv[1]
m=re.search(r'((?:RUSTFLAGS=(?:\"[^\"]*\"|\S+) +)?cargo test[^#&;|]*)', c)
print(m.group(1).strip() if m else c)" "$demo_cmd")
res "demo cmd: $cmd"
( eval "$cmd" ) >>$log 2>&1; with=$?
# now remove the patch but keep the demo
git apply -R /tmp/confirm/$id.patch.rebased >>$log 2>&1 || { res "PATCH-REVERT-FAILED"; cleanup; exit 7; }
( eval "$cmd" ) >>$log 2>&1; without=$?
res "existing_tests_with_patch_rc=$t1 demo_with_patch_rc=$with demo_without_patch_rc=$without"
if [ $t1 -eq 0 ] && [ $with -ne 0 ] && [ $without -eq 0 ]; then
  d=/verif/seeded/$id; mkdir -p $d
  cp /tmp/confirm/$id.patch.rebased $d/patch.diff
  [ -f "$src/demo.diff" ] && cp "$src/demo.diff" $d/demo.diff
  python3 - "$src/meta.json" "$d/meta.json" "$cmd" <<PY
import json,sys
m=json.load(open(sys.argv[1]))
out={"property":m.get("property"),"summary":m.get("summary"),"needs_to_manifest":m.get("needs_to_manifest"),"files_touched":m.get("files_touched"),
 "demo_cmd":sys.argv[3],"confirmed":{"where":"scratch worktree of /repo HEAD (hooks + fix commits), shared target dir","patch_applies_and_builds":True,
 "existing_lib_tests_pass_with_patch":True,"demo_fails_with_patch":True,"demo_passes_without_patch":True,
 "ran":["git apply --3way patch.diff","cargo test --offline --lib (two known-flaky tests skipped)","git apply demo.diff; "+sys.argv[3]+" (fails)","git apply -R patch.diff; "+sys.argv[3]+" (passes)"]},
 "origin":"independent sub-agent given only the property text and a scratch worktree"}
json.dump(out,open(sys.argv[2],"w"),indent=1)
PY
  res "CONFIRMED -> $d"
else
  res "NOT-CONFIRMED"
fi
cleanup

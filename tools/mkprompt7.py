#!/usr/bin/env python3
"""Wave 7+ brief: property text + the one-line mechanisms of earlier seeded changes (so that new ones differ).
usage: mkprompt7.py <PID> <n> <wave-tag>   (worktree /tmp/mut/<PID>-<tag>, output /tmp/mut/<PID>-<tag>-out)"""
import json, re, sys, subprocess
base = subprocess.run([sys.executable, "/verif/tools/mkprompt.py", sys.argv[1], sys.argv[2]], capture_output=True, text=True).stdout
pid, n, tag = sys.argv[1], sys.argv[2], sys.argv[3]
base = base.replace(f"/tmp/mut/{pid}-out", f"/tmp/mut/{pid}-{tag}-out").replace(f"/tmp/mut/{pid}`", f"/tmp/mut/{pid}-{tag}`").replace(f"/tmp/mut/{pid}/", f"/tmp/mut/{pid}-{tag}/")
used = []
for l in open("/verif/DESIGN.md"):
    m = re.match(r"\| (C\d\d)-m\d+ \| ([^|]+) \|", l)
    if m and m.group(1) == pid:
        used.append(m.group(2).strip())
extra = "\n## Mechanisms already used by earlier changes (do NOT repeat these; find different code sites / different aspects of the statement)\n\n" + "\n".join(f"* {u}" for u in used) + """

Aim at parts of the statement the list above does not touch, at less obvious code paths (both sync `Dht` and `AsyncDht`
flavours, client vs server mode, the signed-peers routing table, the lookup cache, timers, counters, boundary sizes,
wrap-around, IPv4 edge addresses, behaviour after long uptime or after a re-key), and at changes whose effect shows only
after a particular history. The worktree already contains a cfg-gated module `src/verif.rs` and `#[cfg(mainline_verif)]`
lines: leave them alone (they are compiled out). Use `CARGO_TARGET_DIR={wt}/target` (the default) and at most 4 build jobs
(`cargo build -j4`, `cargo test -j4`).
"""
print(base.replace("## What to produce", extra.replace("{wt}", f"/tmp/mut/{pid}-{tag}") + "\n## What to produce"))

#!/bin/bash
# Companion: run reduced workloads of the harness under Miri (UB / data-race interpreter).
# usage: tools/miri.sh <PROP> <tier> <seed> inproc <part>... | sim
# exit 0 clean, 1 Miri reported UB / a monitor fired, 2 inconclusive (build trouble, timeout)
prop=$1; tier=$2; seed=$3; mode=$4; shift 4
ROOT="$(cd "$(dirname "$0")/.." && pwd)"; cd "$ROOT/harness" || exit 2
export CARGO_NET_OFFLINE=true MIRIFLAGS="-Zmiri-disable-isolation"
out=$ROOT/harness/target/miri-out; mkdir -p $out
run() { # name, args...
  local name=$1; shift
  timeout 2400 cargo +nightly miri run --quiet --target-dir target/miri -- "$@" --seed "$seed" --out $out/$prop-$name.json > $out/$prop-$name.log 2>&1
  echo $? > $out/$prop-$name.rc
}
# build once (a no-op part) so that the parallel runs do not race on the build
cargo +nightly miri run --quiet --target-dir target/miri -- noop --out $out/warm.json > $out/warm.log 2>&1 || { tail -5 $out/warm.log; echo "miri build failed"; exit 2; }
names=()
if [ "$mode" = sim ]; then
  run sim sanit-sim tiny & names+=(sim)
else
  for p in "$@"; do run part$p sanit-inproc tiny part=$p & names+=(part$p); done
fi
wait
rc=0
for n in "${names[@]}"; do
  r=$(cat $out/$prop-$n.rc)
  if grep -qE "Undefined Behavior|Data race detected|error: unsupported operation|error: memory leaked" $out/$prop-$n.log; then
    echo "MIRI REPORT in $n:"; grep -E -A12 "Undefined Behavior|Data race detected|unsupported operation|memory leaked" $out/$prop-$n.log | head -30; rc=1
  elif [ "$r" != 0 ]; then
    echo "$n: exit $r"; tail -3 $out/$prop-$n.log; [ $rc = 0 ] && rc=2
  else
    python3 - $out/$prop-$n.json $n <<'PY'
import json,sys
r=json.load(open(sys.argv[1]))
bad={k:v for k,v in r['violation_counts'].items() if k!='bep-example/reencode-tid-width'}
print(f"{sys.argv[2]}: interpreted cleanly, {r['evaluations']} monitored evaluations, monitor violations: {bad or 'none'}")
sys.exit(3 if bad else 0)
PY
    [ $? = 3 ] && rc=1
  fi
done
exit $rc

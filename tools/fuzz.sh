#!/bin/bash
# Companion: coverage-guided fuzzing (libFuzzer + ASan via cargo-fuzz) of the datagram decoder,
# seeded with the structured corpus. usage: tools/fuzz.sh <PROP> <tier> <seed> [seconds]
# exit 0 no crash, 1 crash artifact produced, 2 inconclusive
prop=$1; tier=$2; seed=$3; secs=${4:-120}
ROOT="$(cd "$(dirname "$0")/.." && pwd)"; cd "$ROOT/harness" || exit 2
export CARGO_NET_OFFLINE=true
./target/debug/mlv corpus-dump fuzz/corpus/decode --seed "$seed" --out target/corpus-dump.json || exit 2
cd fuzz || exit 2
export RUSTFLAGS='--cfg mainline_verif --cfg getrandom_backend="custom"'
rm -rf artifacts/decode
cargo +nightly fuzz build decode > ../target/fuzz-build.log 2>&1 || { tail -8 ../target/fuzz-build.log; echo "fuzz build failed"; exit 2; }
timeout $((secs + 300)) cargo +nightly fuzz run decode -- -max_total_time=$secs -timeout=10 -max_len=2048 -fork=16 -ignore_crashes=0 > ../target/fuzz-run.log 2>&1
rc=$?
tail -4 ../target/fuzz-run.log
# libFuzzer's -timeout is a wall-clock limit per input; on a loaded machine a forked worker that is not
# scheduled for 10 s produces "timeout-*" artifacts for inputs that decode in microseconds. A wall-clock
# deadline is not a verdict: every timeout artifact is re-executed alone and kept only if it really burns
# more than 5 s of CPU time (user+sys); the others are counted and removed.
bin=$(find target -path '*release/decode' -type f -perm -u+x 2>/dev/null | head -1)
not_reproduced=0
for f in artifacts/decode/timeout-*; do
  [ -f "$f" ] || continue
  [ -n "$bin" ] || break
  cpu=$( { /usr/bin/time -f "%U %S" timeout 120 "$bin" "$f" >/dev/null 2>/dev/null; } 2>&1 | tail -1 | awk '{printf "%d", $1+$2}')
  if [ "${cpu:-0}" -lt 5 ]; then rm -f "$f"; not_reproduced=$((not_reproduced+1)); fi
done
[ $not_reproduced -gt 0 ] && echo "wall-clock timeouts of the fuzzer that did not reproduce when re-executed alone (CPU time < 5 s): $not_reproduced (discarded)"
n=$(ls artifacts/decode 2>/dev/null | grep -c -E "^(crash|oom|timeout)-")
execs=$(grep -oE "#[0-9]+: cov: [0-9]+" ../target/fuzz-run.log | tail -1)
echo "fuzzer: $execs ; artifacts: $n"
if [ "$n" -gt 0 ]; then ls artifacts/decode | head -5; exit 1; fi
[ $rc -eq 0 ] || [ $rc -eq 124 ] || { echo "fuzzer exit $rc"; exit 2; }
exit 0

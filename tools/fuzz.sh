#!/bin/bash
# Companion: coverage-guided fuzzing (libFuzzer + ASan via cargo-fuzz) of the datagram decoder,
# seeded with the structured corpus. usage: tools/fuzz.sh <PROP> <tier> <seed> [seconds]
# exit 0 no crash, 1 crash artifact produced, 2 inconclusive
prop=$1; tier=$2; seed=$3; secs=${4:-120}
ROOT="$(cd "$(dirname "$0")/.." && pwd)"; cd "$ROOT/harness" || exit 2
export CARGO_NET_OFFLINE=true
./target/debug/mlv corpus-dump fuzz/corpus/decode --seed "$seed" --out target/corpus-dump.json || exit 2
cd fuzz || exit 2
export RUSTFLAGS='--cfg mainline_verif --cfg getrandom_backend="custom"'
rm -rf artifacts/decode
cargo +nightly fuzz build decode > ../target/fuzz-build.log 2>&1 || { tail -8 ../target/fuzz-build.log; echo "fuzz build failed"; exit 2; }
timeout $((secs + 300)) cargo +nightly fuzz run decode -- -max_total_time=$secs -timeout=10 -max_len=2048 -fork=16 -ignore_crashes=0 > ../target/fuzz-run.log 2>&1
rc=$?
tail -4 ../target/fuzz-run.log
n=$(ls artifacts/decode 2>/dev/null | grep -c -E "^(crash|oom|timeout)-")
execs=$(grep -oE "#[0-9]+: cov: [0-9]+" ../target/fuzz-run.log | tail -1)
echo "fuzzer: $execs ; artifacts: $n"
if [ "$n" -gt 0 ]; then ls artifacts/decode | head -5; exit 1; fi
[ $rc -eq 0 ] || [ $rc -eq 124 ] || { echo "fuzzer exit $rc"; exit 2; }
exit 0

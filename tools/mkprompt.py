#!/usr/bin/env python3
"""Write the sub-agent brief for a seeded-change request (property text only; nothing else from /verif)."""
import json, sys
props = {json.loads(l)["id"]: json.loads(l) for l in open("/verif/properties.jsonl")}
T = """# Task: craft a realistic property-breaking change to the Rust crate `dht` (Nuhvi/mainline, BitTorrent Mainline DHT)

You work ONLY in the git worktree `{wt}` (a checkout of the crate; build with `cargo build --offline`,
test with `cargo test --offline`; there is no network). Write your deliverables to `{out}/`.
Never touch /repo or /verif. Do not read anything under /verif.

## The property (this is all you are given)

**{title}**

{statement}

Scope of "always": {qtext}

## What to produce

Produce **{n} independent changes** (each on its own, as `{out}/m1/`, `{out}/m2/`, …) to the library sources under `src/`
such that, for each change:

1. the crate still compiles and the **existing** test suite still passes with the change
   (`cargo test --offline` in the worktree; two tests are known flaky on the unmodified tree:
   `common::closest_nodes::tests::simulation` and `dht::async_dht::test::concurrent_put_mutable_different` — ignore those);
2. the change makes the property above FALSE in some reachable situation;
3. the change looks like a plausible slip or "optimisation"/"refactor" a maintainer could make (an off-by-one, a reordered check,
   a dropped branch, a wrong comparison, a stale cache, a lost update, a missing cleanup…), NOT an obvious sabotage;
4. it needs **something specific to manifest**: a particular interleaving or timing, a crash/fault at a particular point,
   a multi-step sequence of operations, an unusual or boundary input, or two cooperating sites that each look fine alone.
   Ordinary use (and the existing tests) must not expose it at once. Prefer different mechanisms/code sites for the different changes.
5. you provide a **demonstration**: a test (preferably a new integration test file under `tests/` or a `#[cfg(test)]` unit test
   added in a *separate* patch) or a small example program that FAILS with the change and PASSES without it.
   Verify both directions yourself.

If you notice that some aspect of the property already does not hold on the unmodified tree, do not use that aspect;
pick behaviour that currently holds and break that.

For each change write:
* `{out}/mK/patch.diff` — `git diff` of the library change only (must apply with `git apply` to a clean checkout of the same commit);
* `{out}/mK/demo.diff` (or demo files) — the demonstration, separate from the patch, plus the exact command to run it;
* `{out}/mK/meta.json` — {{"property": "{pid}", "summary": "...", "needs_to_manifest": "...", "files_touched": [...],
  "demo_cmd": "...", "demo_fails_with_patch": true, "demo_passes_without_patch": true, "existing_tests_pass_with_patch": true}}.

When done, restore the worktree to a clean state (`git checkout -- . && git clean -fdq -e target`), delete `{wt}/target`
to free disk space, and reply with a short summary of each change (what, where, what it needs to manifest).
"""
pid = sys.argv[1]; n = sys.argv[2] if len(sys.argv) > 2 else "2"
p = props[pid]
print(T.format(wt=f"/tmp/mut/{pid}", out=f"/tmp/mut/{pid}-out", title=p["title"], statement=p["statement"],
               qtext=p["quantifier"]["text"], pid=pid, n=n))

#!/bin/bash
# C05 companion: deeply nested bencode against an UNOPTIMISED build of the decoder, in a subprocess
# (a stack overflow aborts the process and cannot be caught in-process). exit 0 clean, 1 report, 2 inconclusive
ROOT="$(cd "$(dirname "$0")/.." && pwd)"; cd "$ROOT/harness" || exit 2
export CARGO_NET_OFFLINE=true
# development aid (tools/trymutant_alt.sh): build against a scratch copy of the repository
tdir="$ROOT/harness/target"; extra=()
if [ -n "${MLV_REPO_OVERRIDE:-}" ]; then tdir="${MLV_ALT_DIR:-/tmp/mlv-alt}/target"; extra=(--config "paths=[\"$MLV_REPO_OVERRIDE\"]"); export CARGO_TARGET_DIR="$tdir"; fi
cargo build --offline --quiet --profile dbg0 "${extra[@]}" 2>/tmp/c05nest.build.err || { tail -5 /tmp/c05nest.build.err; echo "build failed"; exit 2; }
out=$("$tdir/dbg0/mlv" c05nest --out "$tdir/c05nest.json" 2>&1); rc=$?
echo "$out" | tail -4
if [ $rc -ge 128 ] || echo "$out" | grep -q "overflowed its stack"; then echo "REPORT: decoder aborted on nested bencode (exit $rc)"; exit 1; fi
[ $rc -eq 0 ] || { echo "probe exit $rc"; exit 2; }
n=$(echo "$out" | grep -c survived)
echo "nested probes survived: $n"
[ "$n" -ge 40 ] || exit 2
exit 0

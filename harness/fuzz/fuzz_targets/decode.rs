#![no_main]
use libfuzzer_sys::fuzz_target;

// deterministic randomness for Id::random etc. (getrandom custom backend)
#[no_mangle]
unsafe extern "Rust" fn __getrandom_v03_custom(dest: *mut u8, len: usize) -> Result<(), getrandom::Error> {
    let buf = unsafe { std::slice::from_raw_parts_mut(dest, len) };
    for (i, b) in buf.iter_mut().enumerate() {
        *b = (i as u8).wrapping_mul(31).wrapping_add(7);
    }
    Ok(())
}

fuzz_target!(|data: &[u8]| {
    // a panic (or ASan report) is the finding; decoded messages must also survive re-encoding
    if let Ok(m) = dht::verif::WireMessage::decode(data) {
        let _ = m.encode();
    }
});

//! Independent bitwise CRC32C (Castagnoli, reflected polynomial 0x82F63B78) and the BEP42 reference.
use std::net::Ipv4Addr;

pub fn crc32c(data: &[u8]) -> u32 {
    let mut crc = !0u32;
    for b in data {
        crc ^= *b as u32;
        for _ in 0..8 {
            crc = if crc & 1 == 1 { (crc >> 1) ^ 0x82F63B78 } else { crc >> 1 };
        }
    }
    !crc
}

/// BEP42: the 21 significant bits (as the top bits of a u32 shifted right by 11) of the id prefix
/// for `ip` and the random byte `r` (only its low 3 bits matter).
pub fn bep42_prefix21(ip: Ipv4Addr, r: u8) -> u32 {
    let ip = u32::from_be_bytes(ip.octets());
    let v = (ip & 0x030f3fff) | (((r & 7) as u32) << 29);
    crc32c(&v.to_be_bytes()) >> 11
}

pub fn id_prefix21(id: &[u8; 20]) -> u32 {
    (u32::from_be_bytes([id[0], id[1], id[2], id[3]])) >> 11
}

/// RFC 1918 private, loopback, link-local (the exemptions named in the property statement).
pub fn ip_exempt(ip: Ipv4Addr) -> bool {
    let o = ip.octets();
    o[0] == 10
        || (o[0] == 172 && (16..=31).contains(&o[1]))
        || (o[0] == 192 && o[1] == 168)
        || o[0] == 127
        || (o[0] == 169 && o[1] == 254)
}

pub fn bep42_valid(id: &[u8; 20], ip: Ipv4Addr) -> bool {
    ip_exempt(ip) || id_prefix21(id) == bep42_prefix21(ip, id[19])
}

/// Mint an id that is BEP42-valid for `ip` with random byte `r` and the given filler.
pub fn bep42_mint(ip: Ipv4Addr, r: u8, filler: [u8; 20]) -> [u8; 20] {
    let p = bep42_prefix21(ip, r) << 11;
    let mut id = filler;
    let pb = p.to_be_bytes();
    id[0] = pb[0];
    id[1] = pb[1];
    id[2] = (pb[2] & 0xf8) | (id[2] & 0x07);
    id[19] = r;
    id
}

#[cfg(test)]
mod t {
    use super::*;
    #[test]
    fn vectors() {
        assert_eq!(crc32c(b"123456789"), 0xE3069283);
        // BEP42 table
        let cases: [(&str, u8, [u8; 3]); 5] = [
            ("124.31.75.21", 1, [0x5f, 0xbf, 0xbf]),
            ("21.75.31.124", 86, [0x5a, 0x3c, 0xe9]),
            ("65.23.51.170", 22, [0xa5, 0xd4, 0x32]),
            ("84.124.73.14", 65, [0x1b, 0x03, 0x21]),
            ("43.213.53.83", 90, [0xe5, 0x6f, 0x6c]),
        ];
        for (ip, r, pre) in cases {
            let ip: Ipv4Addr = ip.parse().unwrap();
            let p = bep42_prefix21(ip, r);
            let want = u32::from_be_bytes([pre[0], pre[1], pre[2], 0]) >> 11;
            assert_eq!(p, want, "{ip} {r}");
        }
    }
}

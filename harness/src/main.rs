mod bencode;
mod corpus;
mod crc32c;
mod krpc;
mod props;
mod report;
mod rng;
mod sha1;
mod simnet;

use std::sync::Mutex;

pub struct Args {
    pub prop: String,
    pub tier: String,
    pub seed: u64,
    pub shard: u64,
    pub nshards: u64,
    pub out: String,
    pub replay: Option<String>,
    pub threads: usize,
    pub extra: Vec<String>,
}

impl Args {
    pub fn quick(&self) -> bool {
        self.tier != "thorough"
    }
}

/// (thread name, location, message) of every panic in this process, newest last.
pub static PANICS: Mutex<Vec<(String, String, String)>> = Mutex::new(Vec::new());

pub fn take_panics() -> Vec<(String, String, String)> {
    std::mem::take(&mut *PANICS.lock().unwrap_or_else(|e| e.into_inner()))
}

fn main() {
    let argv: Vec<String> = std::env::args().collect();
    if argv.len() < 2 {
        eprintln!("usage: mlv <prop> [--tier quick|thorough] [--seed N] [--shard i --nshards n] [--out file] [--replay file]");
        std::process::exit(2);
    }
    let mut a = Args { prop: argv[1].clone(), tier: "quick".into(), seed: 1, shard: 0, nshards: 1, out: String::new(), replay: None, threads: 1, extra: vec![] };
    let mut i = 2;
    let mut cpu: Option<usize> = None;
    while i < argv.len() {
        let v = argv.get(i + 1).cloned().unwrap_or_default();
        match argv[i].as_str() {
            "--tier" => a.tier = v,
            "--seed" => a.seed = v.parse().unwrap_or(1),
            "--shard" => a.shard = v.parse().unwrap_or(0),
            "--nshards" => a.nshards = v.parse().unwrap_or(1),
            "--out" => a.out = v,
            "--replay" => a.replay = Some(v),
            "--threads" => a.threads = v.parse().unwrap_or(1),
            "--cpu" => cpu = v.parse().ok(),
            other => {
                a.extra.push(other.to_string());
                i += 1;
                continue;
            }
        }
        i += 2;
    }
    if let Some(c) = cpu {
        simnet::pin_to_cpu(c);
    }
    std::panic::set_hook(Box::new(|info| {
        let name = std::thread::current().name().unwrap_or("?").to_string();
        let loc = info.location().map(|l| format!("{}:{}", l.file(), l.line())).unwrap_or_default();
        let msg = if let Some(s) = info.payload().downcast_ref::<&str>() {
            s.to_string()
        } else if let Some(s) = info.payload().downcast_ref::<String>() {
            s.clone()
        } else {
            "<non-string panic>".to_string()
        };
        if std::env::var("MLV_SHOW_PANICS").is_ok() {
            eprintln!("[panic] thread={name} at {loc}: {msg}");
        }
        PANICS.lock().unwrap_or_else(|e| e.into_inner()).push((name, loc, msg));
    }));
    let report = props::run(&a);
    if a.out.is_empty() {
        println!("{}", serde_json::to_string_pretty(&report.to_json()).expect("json"));
    } else {
        report.write(&a.out);
    }
}

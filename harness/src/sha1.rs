//! Independent SHA-1 (FIPS 180-4), used only by the oracles.
pub fn sha1(data: &[u8]) -> [u8; 20] {
    let mut h: [u32; 5] = [0x67452301, 0xEFCDAB89, 0x98BADCFE, 0x10325476, 0xC3D2E1F0];
    let ml = (data.len() as u64) * 8;
    let mut msg = data.to_vec();
    msg.push(0x80);
    while msg.len() % 64 != 56 {
        msg.push(0);
    }
    msg.extend_from_slice(&ml.to_be_bytes());
    for block in msg.chunks(64) {
        let mut w = [0u32; 80];
        for i in 0..16 {
            w[i] = u32::from_be_bytes([block[4 * i], block[4 * i + 1], block[4 * i + 2], block[4 * i + 3]]);
        }
        for i in 16..80 {
            w[i] = (w[i - 3] ^ w[i - 8] ^ w[i - 14] ^ w[i - 16]).rotate_left(1);
        }
        let (mut a, mut b, mut c, mut d, mut e) = (h[0], h[1], h[2], h[3], h[4]);
        for (i, wi) in w.iter().enumerate() {
            let (f, k) = match i {
                0..=19 => ((b & c) | (!b & d), 0x5A827999u32),
                20..=39 => (b ^ c ^ d, 0x6ED9EBA1),
                40..=59 => ((b & c) | (b & d) | (c & d), 0x8F1BBCDC),
                _ => (b ^ c ^ d, 0xCA62C1D6),
            };
            let t = a.rotate_left(5).wrapping_add(f).wrapping_add(e).wrapping_add(k).wrapping_add(*wi);
            e = d;
            d = c;
            c = b.rotate_left(30);
            b = a;
            a = t;
        }
        h[0] = h[0].wrapping_add(a);
        h[1] = h[1].wrapping_add(b);
        h[2] = h[2].wrapping_add(c);
        h[3] = h[3].wrapping_add(d);
        h[4] = h[4].wrapping_add(e);
    }
    let mut out = [0u8; 20];
    for i in 0..5 {
        out[4 * i..4 * i + 4].copy_from_slice(&h[i].to_be_bytes());
    }
    out
}

/// BEP44 immutable target: SHA-1 of the bencoded byte string.
pub fn immutable_target(v: &[u8]) -> [u8; 20] {
    let mut enc = format!("{}:", v.len()).into_bytes();
    enc.extend_from_slice(v);
    sha1(&enc)
}

/// BEP44 mutable target: SHA-1(k || salt).
pub fn mutable_target(k: &[u8; 32], salt: Option<&[u8]>) -> [u8; 20] {
    let mut enc = k.to_vec();
    if let Some(s) = salt {
        enc.extend_from_slice(s);
    }
    sha1(&enc)
}

/// BEP44 signable buffer.
pub fn mutable_signable(seq: i64, v: &[u8], salt: Option<&[u8]>) -> Vec<u8> {
    let mut out = Vec::new();
    if let Some(s) = salt {
        if !s.is_empty() {
            out.extend_from_slice(format!("4:salt{}:", s.len()).as_bytes());
            out.extend_from_slice(s);
        }
    }
    out.extend_from_slice(format!("3:seqi{}e1:v{}:", seq, v.len()).as_bytes());
    out.extend_from_slice(v);
    out
}

#[cfg(test)]
mod t {
    use super::*;
    #[test]
    fn vectors() {
        let hex = |b: [u8; 20]| b.iter().map(|x| format!("{x:02x}")).collect::<String>();
        assert_eq!(hex(sha1(b"")), "da39a3ee5e6b4b0d3255bfef95601890afd80709");
        assert_eq!(hex(sha1(b"abc")), "a9993e364706816aba3e25717850c26c9cd0d89d");
        assert_eq!(
            hex(sha1(b"abcdbcdecdefdefgefghfghighijhijkijkljklmklmnlmnomnopnopq")),
            "84983e441c3bd26ebaae4aa1f95129e5e54670f1"
        );
    }
}

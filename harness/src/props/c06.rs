//! C06 — every API call terminates with exactly one outcome, under enumerated fault schedules.
use super::net::*;
use crate::bencode::B;
use crate::krpc::Krpc;
use crate::report::Report;
use crate::rng::{mix, Rng};
use crate::sha1::{immutable_target, mutable_target};
use crate::simnet::*;
use crate::Args;
use dht::verif::{put_raw, AnnouncePeerRequestArguments, AnnounceSignedPeerRequestArguments, PutImmutableRequestArguments, PutMutableRequestArguments, PutRequestSpecific};
use dht::{Id, MutableItem, SigningKey};
use futures_lite::StreamExt;
use serde_json::{json, Value};
use std::cell::RefCell;
use std::collections::{HashMap, HashSet};
use std::net::{Ipv4Addr, SocketAddrV4};
use std::rc::Rc;

#[derive(Clone, Copy, Debug, PartialEq, Eq, Hash)]
pub enum Call {
    FindNode,
    GetClosest,
    GetImmutable,
    GetMutable,
    GetPeers,
    GetSignedPeers,
    PutImmutable,
    PutMutable,
    AnnouncePeer,
    AnnounceSigned,
    Bootstrapped,
    /// the same key at seq 6 with cas = 5 (overrides an in-flight PutMutable of seq 5)
    PutMutableCas,
}
pub const CALLS: [Call; 12] = [Call::PutMutableCas, Call::FindNode, Call::GetClosest, Call::GetImmutable, Call::GetMutable, Call::GetPeers, Call::GetSignedPeers, Call::PutImmutable, Call::PutMutable, Call::AnnouncePeer, Call::AnnounceSigned, Call::Bootstrapped];

#[derive(Clone, Copy, Debug, PartialEq, Eq)]
pub enum Fault {
    None,
    Drop(usize),
    Dup(usize),
    Delay(usize),
    /// replace the n-th datagram (if it is a response) by an error with this code
    Error(usize, i32),
    StripToken(usize),
    /// rewrite the `nodes` of the n-th datagram (if it is a response carrying one): 0 a contact with port 0
    /// closest to everything is appended, 1 the requester's own address under a made-up id, 2 0.0.0.0:6881,
    /// 3 twenty contacts at unreachable addresses, 4 the list cut to a length that is no multiple of 26
    HostileNodes(usize, u8),
    /// crash the peer that sends / receives the n-th datagram, at that moment
    CrashPeer(usize),
    DropTwo(usize, usize),
    /// every reply to a store request of X is held back 450 ms / dropped (long store phase)
    HoldStoreAcks,
    DropStoreAcks,
}

#[derive(Clone, Debug)]
pub struct Script {
    pub seed: u64,
    pub servers: usize,
    pub x_server: bool,
    pub calls: Vec<(Call, bool /*target B instead of A*/, u64 /*placement: 0,1,2 = delay class; 3 = after first done; 4 = after first done + 6 min*/)>,
}

fn script_json(s: &Script, f: &Fault) -> Value {
    json!({"class":"script","seed":s.seed.to_string(),"servers":s.servers,"x_server":s.x_server,"calls": s.calls.iter().map(|c| json!([format!("{:?}", c.0), c.1, c.2])).collect::<Vec<_>>(), "fault": format!("{f:?}")})
}

struct Outcome {
    /// datagrams involving X, in order: (from, to, y, q)
    messages: usize,
    violations: Vec<(String, String, Value)>,
    overlapped: bool,
    fault_hit: bool,
}

struct CallState {
    task: Task<String>,
    put_rx: Option<flume::Receiver<Result<Id, dht::errors::PutError>>>,
    deliveries: Rc<RefCell<u32>>,
}

fn start_call(w: &World, x: &Node, call: Call, alt: bool, keys: &Keys) -> CallState {
    let a = x.adht.clone();
    let now = w.now();
    let t = if alt { keys.target_b } else { keys.target_a };
    let deliveries = Rc::new(RefCell::new(0u32));
    let d2 = deliveries.clone();
    let mut put_rx = None;
    let put = |req: PutRequestSpecific, put_rx: &mut Option<flume::Receiver<Result<Id, dht::errors::PutError>>>| -> Task<String> {
        let rx = put_raw(&x.dht, req, None);
        *put_rx = Some(rx.clone());
        Task::new(now, async move {
            let res = rx.recv_async().await;
            *d2.borrow_mut() += 1;
            format!("{res:?}")
        })
    };
    let task = match call {
        Call::FindNode => Task::new(now, async move { format!("{} nodes", a.find_node(t).await.len()) }),
        Call::GetClosest => Task::new(now, async move { format!("{} nodes", a.get_closest_nodes(t).await.len()) }),
        Call::GetImmutable => Task::new(now, async move { format!("{:?}", a.get_immutable(t).await.map(|v| v.len())) }),
        Call::GetMutable => {
            let (k, s) = (keys.pk, keys.salt(alt));
            Task::new(now, async move { format!("{} items", a.get_mutable(&k, s.as_deref(), None).count().await) })
        }
        Call::GetPeers => Task::new(now, async move { format!("{} lists", a.get_peers(t).count().await) }),
        Call::GetSignedPeers => Task::new(now, async move { format!("{} lists", a.get_signed_peers(t).await.count().await) }),
        Call::Bootstrapped => Task::new(now, async move { format!("{}", a.bootstrapped().await) }),
        Call::PutImmutable => {
            let v = if alt { keys.value_b.clone() } else { keys.value_a.clone() };
            put(PutRequestSpecific::PutImmutable(PutImmutableRequestArguments { target: Id::from(immutable_target(&v)), v: v.into_boxed_slice() }), &mut put_rx)
        }
        Call::PutMutable => {
            let item = MutableItem::new(&keys.signer, b"value", 5, keys.salt(alt).as_deref());
            put(PutRequestSpecific::PutMutable(PutMutableRequestArguments::from(item, None)), &mut put_rx)
        }
        Call::PutMutableCas => {
            let item = MutableItem::new(&keys.signer, b"value-2", 6, keys.salt(alt).as_deref());
            put(PutRequestSpecific::PutMutable(PutMutableRequestArguments::from(item, Some(5))), &mut put_rx)
        }
        Call::AnnouncePeer => put(PutRequestSpecific::AnnouncePeer(AnnouncePeerRequestArguments { info_hash: t, port: 5000, implied_port: None }), &mut put_rx),
        Call::AnnounceSigned => {
            let ts = w.unix_micros();
            let sg = super::srv::sign_announce(&keys.signer, t.as_bytes(), ts);
            put(PutRequestSpecific::AnnounceSignedPeer(AnnounceSignedPeerRequestArguments { info_hash: t, t: ts, k: sg.k, sig: sg.sig }), &mut put_rx)
        }
    };
    CallState { task, put_rx, deliveries }
}

pub struct Keys {
    signer: SigningKey,
    pk: [u8; 32],
    value_a: Vec<u8>,
    value_b: Vec<u8>,
    target_a: Id,
    target_b: Id,
}
impl Keys {
    fn salt(&self, alt: bool) -> Option<Vec<u8>> {
        if alt { Some(b"other".to_vec()) } else { None }
    }
}

fn keys_for(script: &Script) -> Keys {
    let mut rng = Rng::new(script.seed ^ 0x5eed);
    let signer = SigningKey::from_bytes(&rng.array::<32>());
    let pk = signer.verifying_key().to_bytes();
    let (value_a, value_b) = (rng.blob(5, 20), rng.blob(5, 20));
    // a common target for "equal target" scripts: the mutable target if a mutable call takes part,
    // else the immutable target of value A
    let has_mut = script.calls.iter().any(|c| matches!(c.0, Call::GetMutable | Call::PutMutable | Call::PutMutableCas));
    let target_a = if has_mut { Id::from(mutable_target(&pk, None)) } else { Id::from(immutable_target(&value_a)) };
    let target_b = if has_mut { Id::from(mutable_target(&pk, Some(b"other"))) } else { Id::from(immutable_target(&value_b)) };
    Keys { signer, pk, value_a, value_b, target_a, target_b }
}

fn run_script(script: &Script, fault: Fault) -> Outcome {
    let mut rng = Rng::new(script.seed);
    let w = World::with_cfg(script.seed, NetCfg { lat_min: 5 * MS, lat_max: 120 * MS, random_ties: false }, TraceLevel::Off);
    let net = build_net(&w, script.servers, 0, IpPlan::Public, false, &mut rng);
    let xspec = if script.x_server { NodeSpec::server(Ipv4Addr::new(80, 0, 0, 1), &[net.boot]) } else { NodeSpec::client(Ipv4Addr::new(80, 0, 0, 1), &[net.boot]) };
    let x = w.spawn(xspec).expect("x");
    w.block_on(x.adht.bootstrapped(), 60 * SEC);
    w.run_for(2 * SEC);
    let xaddr = x.addr;
    // fault hook: counts datagrams that involve X
    let counter = Rc::new(RefCell::new((0usize, false, None::<SocketAddrV4>)));
    let contacted: Rc<RefCell<HashSet<SocketAddrV4>>> = Rc::new(RefCell::new(HashSet::new()));
    {
        let counter: SharedHook = std::sync::Arc::new(std::sync::Mutex::new(HookState::default()));
        let c2 = counter.clone();
        w.set_fault(Some(Box::new(move |info: &SendInfo| {
            if info.from != xaddr && info.to != xaddr {
                return None;
            }
            let mut c = c2.lock().unwrap_or_else(|e| e.into_inner());
            let n = c.n;
            c.n += 1;
            if info.from == xaddr {
                c.contacted.insert(info.to);
                if let Some(k) = Krpc::parse(info.bytes) {
                    if matches!(k.q.as_deref(), Some("put") | Some("announce_peer") | Some("announce_signed_peer")) {
                        c.store_tids.insert(k.t.clone());
                        if c.first_store_at.is_none() {
                            c.first_store_at = Some(info.now);
                        }
                    }
                }
            }
            let peer = if info.from == xaddr { info.to } else { info.from };
            let hit = |c: &mut HookState| c.hit = true;
            if matches!(fault, Fault::HoldStoreAcks | Fault::DropStoreAcks) && info.to == xaddr {
                if let Some(k) = Krpc::parse(info.bytes) {
                    if k.y != b'q' && c.store_tids.contains(&k.t) {
                        hit(&mut c);
                        return if fault == Fault::DropStoreAcks { Some(vec![]) } else { Some(vec![(info.bytes.to_vec(), info.latency + 450 * MS)]) };
                    }
                }
            }
            match fault {
                Fault::Drop(k) if k == n => {
                    hit(&mut c);
                    Some(vec![])
                }
                Fault::DropTwo(k1, k2) if k1 == n || k2 == n => {
                    hit(&mut c);
                    Some(vec![])
                }
                Fault::Dup(k) if k == n => {
                    hit(&mut c);
                    Some(vec![(info.bytes.to_vec(), info.latency), (info.bytes.to_vec(), info.latency + 37 * MS)])
                }
                Fault::Delay(k) if k == n => {
                    hit(&mut c);
                    Some(vec![(info.bytes.to_vec(), info.latency + 2500 * MS)])
                }
                Fault::Error(k, code) if k == n => {
                    let q = Krpc::parse(info.bytes)?;
                    if q.y != b'r' {
                        return None;
                    }
                    hit(&mut c);
                    Some(vec![(crate::krpc::error(&q.t, code as i128, "injected").encode(), info.latency)])
                }
                Fault::StripToken(k) if k == n => {
                    let q = Krpc::parse(info.bytes)?;
                    if q.y != b'r' {
                        return None;
                    }
                    let mut whole = q.whole.clone();
                    let mut r = whole.remove("r")?;
                    r.remove("token")?;
                    whole.set("r", r);
                    hit(&mut c);
                    Some(vec![(whole.encode(), info.latency)])
                }
                Fault::HostileNodes(k, variant) if k == n => {
                    let q = Krpc::parse(info.bytes)?;
                    if q.y != b'r' {
                        return None;
                    }
                    let mut whole = q.whole.clone();
                    let mut r = whole.remove("r")?;
                    let mut nodes = r.get("nodes")?.as_bytes()?.to_vec();
                    let seedb = (n as u8).wrapping_mul(37);
                    let mut contact = |id_fill: u8, ip: [u8; 4], port: u16| {
                        let mut v = vec![id_fill; 20];
                        v[19] = seedb;
                        v.extend_from_slice(&ip);
                        v.extend_from_slice(&port.to_be_bytes());
                        v
                    };
                    match variant {
                        0 => nodes.extend(contact(seedb, [61, 2, 3, 4], 0)),
                        1 => {
                            let me = info.to;
                            nodes.extend(contact(seedb ^ 0x55, me.ip().octets(), me.port()))
                        }
                        2 => nodes.extend(contact(seedb, [0, 0, 0, 0], 6881)),
                        3 => {
                            nodes.clear();
                            for i in 0..20u8 {
                                nodes.extend(contact(seedb.wrapping_add(i), [203, 0, 113, 1 + i], 6881));
                            }
                        }
                        _ => {
                            let keep = nodes.len().saturating_sub(7);
                            nodes.truncate(keep);
                        }
                    }
                    r.set("nodes", B::Bytes(nodes));
                    whole.set("r", r);
                    hit(&mut c);
                    Some(vec![(whole.encode(), info.latency)])
                }
                Fault::CrashPeer(k) if k == n => {
                    hit(&mut c);
                    c.crash = Some(peer);
                    Some(vec![])
                }
                _ => None,
            }
        })));
        // share through the Rc for reading at the end
        let c3 = counter.clone();
        *counter_reader().borrow_mut() = Some(c3);
    }
    let keys = keys_for(script);
    let mut calls: Vec<Option<CallState>> = (0..script.calls.len()).map(|_| None).collect();
    let mut started = 0usize;
    let t_start = w.now();
    let mut violations = vec![];
    let mut overlapped = false;
    let bound_total = 600 * SEC;
    let mut crashed: HashSet<SocketAddrV4> = HashSet::new();
    let mut nodes: Vec<Option<Node>> = net.nodes.into_iter().map(Some).collect();
    let mut first_store_at_prev: Option<u64> = None;
    let mut storm = false;
    loop {
        let now = w.now();
        // start calls whose placement is due
        while started < script.calls.len() {
            let (call, alt, place) = script.calls[started];
            let first_done = calls[0].as_ref().map(|c| c.task.finished).unwrap_or(None);
            let due = match place {
                0 => Some(t_start),
                1 => Some(t_start + 130 * MS),
                2 => Some(t_start + 520 * MS),
                3 => first_done.map(|t| t + 10 * MS),
                5 => first_store_at_prev.map(|t| t + 25 * MS),
                6 => calls[started - 1].as_ref().and_then(|c| c.task.finished).map(|t| t + 10 * MS),
                7 => calls[started - 1].as_ref().map(|c| c.task.started + 15 * MS),
                _ => first_done.map(|t| t + 6 * MIN),
            };
            if started == 0 || due.map(|d| now >= d).unwrap_or(false) {
                if started > 0 && calls[..started].iter().any(|c| c.as_ref().map(|c| !c.task.done()).unwrap_or(false)) {
                    overlapped = true;
                }
                calls[started] = Some(start_call(&w, &x, call, alt, &keys));
                started += 1;
            } else {
                break;
            }
        }
        // crash requested by the fault hook
        let to_crash = counter_reader().borrow().as_ref().and_then(|c| c.lock().unwrap_or_else(|e| e.into_inner()).crash.take());
        let first_store_at = counter_reader().borrow().as_ref().and_then(|c| c.lock().unwrap_or_else(|e| e.into_inner()).first_store_at);
        if let Some(addr) = to_crash {
            if addr != xaddr && !crashed.contains(&addr) {
                if let Some(slot) = nodes.iter_mut().find(|n| n.as_ref().map(|n| n.addr == addr).unwrap_or(false)) {
                    if let Some(n) = slot.take() {
                        w.crash(n);
                        crashed.insert(addr);
                    }
                }
            }
        }
        first_store_at_prev = first_store_at;
        let mut all = started == script.calls.len();
        for c in calls.iter_mut().flatten() {
            if !c.task.poll(now) {
                all = false;
            }
        }
        if all {
            break;
        }
        if now - t_start > bound_total {
            break;
        }
        // a request storm: tens of thousands of datagrams in a network of a handful of nodes. No scenario of the
        // unchanged code comes near a thousand; waiting out the virtual bound would take hours of real time.
        let n_so_far = counter_reader().borrow().as_ref().map(|c| c.lock().unwrap_or_else(|e| e.into_inner()).n).unwrap_or(0);
        if n_so_far > 30_000 {
            storm = true;
            break;
        }
        // next due start time limits the step
        let limit = if started < script.calls.len() {
            let (_, _, place) = script.calls[started];
            match place {
                0 => now,
                1 => t_start + 130 * MS,
                2 => t_start + 520 * MS,
                3 => calls[0].as_ref().and_then(|c| c.task.finished).map(|t| t + 10 * MS).unwrap_or(u64::MAX),
                5 => first_store_at.map(|t| t + 25 * MS).unwrap_or(now + 10 * MS),
                6 => calls[started - 1].as_ref().and_then(|c| c.task.finished).map(|t| t + 10 * MS).unwrap_or(u64::MAX),
                7 => calls[started - 1].as_ref().map(|c| c.task.started + 15 * MS).unwrap_or(u64::MAX),
                _ => calls[0].as_ref().and_then(|c| c.task.finished).map(|t| t + 6 * MIN).unwrap_or(u64::MAX),
            }
        } else {
            u64::MAX
        };
        match w.step_until(limit.max(now)) {
            Step::Stuck => break,
            _ => {}
        }
    }
    if storm {
        let open: Vec<String> = calls.iter().enumerate().filter(|(_, c)| c.as_ref().map(|c| !c.task.done()).unwrap_or(false)).map(|(i, _)| format!("{:?}", script.calls[i].0)).collect();
        violations.push((format!("hang/{}/request-storm", open.first().cloned().unwrap_or_else(|| "none".into())), "the node had sent or received more than 30,000 datagrams for these calls in a network of a handful of nodes and a call still had not returned: the time a call takes is not bounded by the number of nodes contacted".into(), json!({"calls_still_open": open, "virtual_seconds": (w.now() - t_start) / SEC})));
    }
    // quiescence: two more seconds, then look at the put receivers
    if !storm {
        w.run_for(3 * SEC);
    }
    let (msgs, fault_hit, contacted_n) = {
        let rc = counter_reader();
        let g = rc.borrow();
        let c = g.as_ref().expect("counter").lock().unwrap_or_else(|e| e.into_inner());
        (c.n, c.hit, c.contacted.len() as u64)
    };
    let _ = (counter, contacted);
    let bound = 60 * SEC + 2 * SEC * contacted_n;
    for (i, c) in calls.iter().enumerate() {
        let (call, _, place) = script.calls[i];
        match c {
            None => {
                // never started because the first call never finished: already reported below
            }
            Some(c) => {
                match c.task.finished {
                    None => violations.push((format!("hang/{call:?}/with-{:?}", script.calls[if i == 0 { script.calls.len() - 1 } else { 0 }].0), format!("{call:?} did not complete within {} virtual seconds", (w.now() - c.task.started) / SEC), json!({"call_index": i, "placement": place, "waited_s": (w.now() - c.task.started) / SEC}))),
                    Some(t) if t - c.task.started > bound => violations.push((format!("slow/{call:?}"), format!("{call:?} took {} s, bound {} s", (t - c.task.started) / SEC, bound / SEC), json!({"call_index": i}))),
                    _ => {}
                }
                if let Some(rx) = &c.put_rx {
                    // the task consumed at most one message; anything further is a double delivery
                    if c.task.done() {
                        match rx.try_recv() {
                            Ok(extra) => violations.push((format!("double-result/{call:?}"), "a second result was delivered for one put".into(), json!({"extra": format!("{extra:?}")}))),
                            Err(flume::TryRecvError::Empty) if !rx.is_disconnected() && *c.deliveries.borrow() == 1 => {
                                // the sender may legitimately still be held only if another result could come: it must not
                                violations.push((format!("sender-kept/{call:?}"), "after delivering the result the actor still holds the put's sender".into(), json!({})));
                            }
                            _ => {}
                        }
                    }
                }
            }
        }
    }
    for (thread, loc, msg) in crate::take_panics() {
        violations.push((format!("panic/{loc}"), format!("thread {thread} panicked: {msg}"), json!({})));
    }
    drop(calls);
    drop(x);
    drop(nodes);
    w.shutdown();
    *counter_reader().borrow_mut() = None;
    let _ = crate::take_panics();
    Outcome { messages: msgs, violations, overlapped, fault_hit }
}

#[derive(Default)]
struct HookState {
    n: usize,
    hit: bool,
    crash: Option<SocketAddrV4>,
    contacted: HashSet<SocketAddrV4>,
    first_store_at: Option<u64>,
    store_tids: HashSet<Vec<u8>>,
}
type SharedHook = std::sync::Arc<std::sync::Mutex<HookState>>;
thread_local! {
    static COUNTER: Rc<RefCell<Option<SharedHook>>> = Rc::new(RefCell::new(None));
}
fn counter_reader() -> Rc<RefCell<Option<SharedHook>>> {
    COUNTER.with(|c| c.clone())
}

fn run_script_guarded(r: &mut Report, script: &Script, fault: Fault) -> Option<Outcome> {
    let mut out = None;
    super::guarded(r, script_json(script, &fault), |_| out = Some(run_script(script, fault)));
    out
}

fn judge(r: &mut Report, script: &Script, fault: Fault, o: &Outcome) {
    r.eval();
    for (sig, what, detail) in &o.violations {
        r.violation(sig, what, script_json(script, &fault), detail.clone());
    }
    if o.fault_hit || o.overlapped {
        r.nontrivial(mix(script.seed, crate::rng::fnv(format!("{:?}{:?}", script.calls, fault).as_bytes())));
    }
    if o.fault_hit {
        r.count("schedules_with_fault_hit");
    }
    if o.overlapped {
        r.count("schedules_with_overlapping_calls");
    }
    r.count("schedules");
    r.add("datagrams_involving_x", o.messages as u64);
}

fn gen_script(rng: &mut Rng) -> Script {
    let n_calls = *rng.pick(&[1usize, 2, 2, 2, 3]);
    let mut calls = vec![];
    for i in 0..n_calls {
        let call = *rng.pick(&CALLS);
        let alt = i > 0 && rng.chance(1, 3);
        let place = if i == 0 { 0 } else { rng.below(5) };
        calls.push((call, alt, place));
    }
    Script { seed: rng.u64(), servers: 3 + rng.usize(6), x_server: rng.bool(), calls }
}

pub fn run(a: &Args) -> Report {
    let mut r = Report::new("C06");
    if let Some(path) = &a.replay {
        let v: Value = serde_json::from_str(&std::fs::read_to_string(path).unwrap_or_default()).unwrap_or_default();
        let c = &v["case"];
        if c["class"] == "idle-then-call" {
            let seed = c["seed"].as_str().and_then(|s| s.parse().ok()).unwrap_or(1);
            super::guarded(&mut r, c.clone(), |r| idle_then_call(r, seed));
            return r;
        }
        if c["class"] == "unread-stream" {
            let seed = c["seed"].as_str().and_then(|s| s.parse().ok()).unwrap_or(1);
            super::guarded(&mut r, c.clone(), |r| unread_stream(r, seed));
            return r;
        }
        if c["class"] == "rekey-window" {
            let seed = c["seed"].as_str().and_then(|s| s.parse().ok()).unwrap_or(1);
            super::guarded(&mut r, c.clone(), |r| rekey_window(r, seed));
            return r;
        }
        let calls: Vec<(Call, bool, u64)> = c["calls"]
            .as_array()
            .map(|l| l.iter().filter_map(|e| { let name = e[0].as_str()?; Some((*CALLS.iter().find(|k| format!("{k:?}") == name)?, e[1].as_bool()?, e[2].as_u64()?)) }).collect())
            .unwrap_or_default();
        let script = Script { seed: c["seed"].as_str().and_then(|s| s.parse().ok()).unwrap_or(1), servers: c["servers"].as_u64().unwrap_or(4) as usize, x_server: c["x_server"].as_bool().unwrap_or(false), calls };
        let fault = parse_fault(c["fault"].as_str().unwrap_or("None"));
        let o = run_script(&script, fault);
        judge(&mut r, &script, fault, &o);
        return r;
    }
    let mut rng = Rng::new(mix(a.seed, 0xc06 + a.shard));
    // directed scripts: every pair of calls on the equal target, second call right after the first
    // (cache warm) and during it; sharded
    let mut directed: Vec<Script> = vec![];
    for c1 in CALLS {
        for c2 in CALLS {
            for place in [1u64, 3] {
                directed.push(Script { seed: mix(a.seed, directed.len() as u64), servers: 4, x_server: false, calls: vec![(c1, false, 0), (c2, false, place)] });
            }
        }
    }
    // store-phase pairs: second call issued 25 ms after the first store request left, while every
    // store acknowledgement is held back 450 ms or dropped
    let mut store_phase: Vec<(Script, Fault)> = vec![];
    for c1 in [Call::PutImmutable, Call::PutMutable, Call::AnnouncePeer, Call::AnnounceSigned] {
        for c2 in CALLS {
            for f in [Fault::HoldStoreAcks, Fault::DropStoreAcks] {
                store_phase.push((Script { seed: mix(a.seed, 0x5707e + store_phase.len() as u64), servers: 4, x_server: false, calls: vec![(c1, false, 0), (c2, false, 5)] }, f));
            }
        }
    }
    // store-phase triples: a third call (a mutable put overriding the first by cas, or any put) issued
    // right after the second call completed, while the first put's store phase is still held open
    for c1 in [Call::PutMutable, Call::PutImmutable, Call::AnnounceSigned] {
        for c2 in [Call::FindNode, Call::GetClosest, Call::GetMutable, Call::GetImmutable] {
            for c3 in [Call::PutMutableCas, Call::PutMutable, Call::PutImmutable] {
                for f in [Fault::HoldStoreAcks, Fault::DropStoreAcks] {
                    store_phase.push((Script { seed: mix(a.seed, 0x7219e + store_phase.len() as u64), servers: 4, x_server: false, calls: vec![(c1, false, 0), (c2, false, 5), (c3, false, 6)] }, f));
                }
            }
        }
    }
    // cold-cache triples: a put stores the datum, six minutes later (its lookup cache has expired) a lookup of
    // the same target starts and 15 ms after it the same put again, which joins that lookup; callers such as
    // get_immutable drop their receiver after the first value while the lookup is still running
    for (c1, gets) in [
        (Call::PutImmutable, [Call::GetImmutable, Call::GetClosest, Call::FindNode]),
        (Call::PutMutable, [Call::GetMutable, Call::GetClosest, Call::FindNode]),
        (Call::AnnouncePeer, [Call::GetPeers, Call::GetClosest, Call::FindNode]),
        (Call::AnnounceSigned, [Call::GetSignedPeers, Call::GetClosest, Call::FindNode]),
    ] {
        for c2 in gets {
            for servers in [3usize, 6] {
                store_phase.push((Script { seed: mix(a.seed, 0xc01d + store_phase.len() as u64), servers, x_server: false, calls: vec![(c1, false, 0), (c2, false, 4), (c1, false, 7)] }, Fault::None));
            }
        }
    }
    // two calls on DIFFERENT targets started in the same tick while a peer the node knows has just crashed:
    // both lookups' requests to it leave in the same tick and expire in the same tick, so both lookups
    // finish in one and the same tick (several queries done at once, with or without a put waiting)
    for c1 in CALLS {
        for c2 in CALLS {
            for k in if a.quick() { vec![0usize] } else { vec![0usize, 1, 2] } {
                store_phase.push((Script { seed: mix(a.seed, 0x5a3e71c + store_phase.len() as u64), servers: 3 + (store_phase.len() % 4), x_server: false, calls: vec![(c1, false, 0), (c2, true, 0)] }, Fault::CrashPeer(k)));
            }
        }
    }
    for (i, (s, f)) in store_phase.iter().enumerate() {
        if i as u64 % a.nshards.max(1) != a.shard {
            continue;
        }
        if let Some(o) = run_script_guarded(&mut r, s, *f) {
            judge(&mut r, s, *f, &o);
        }
        r.count("store_phase_pairs");
    }
    for (i, s) in directed.iter().enumerate() {
        if i as u64 % a.nshards.max(1) != a.shard {
            continue;
        }
        if let Some(o) = run_script_guarded(&mut r, s, Fault::None) {
            judge(&mut r, s, Fault::None, &o);
        }
        r.count("directed_pairs");
    }
    for _ in 0..(if a.quick() { 320 } else { 6400 }) / a.nshards.max(1) {
        let seed = rng.u64();
        super::guarded(&mut r, json!({"class":"rekey-window","seed":seed.to_string()}), |r| rekey_window(r, seed));
        r.count("rekey_window_worlds");
    }
    for _ in 0..(if a.quick() { 160 } else { 3200 }) / a.nshards.max(1) {
        let seed = rng.u64();
        // each stalled world costs ~10 s of real time: once the stall has been witnessed, the remaining worlds add nothing
        if r.seen_sigs.get("blocked/node-thread-stalled-on-unread-stream").copied().unwrap_or(0) >= 2 {
            break;
        }
        super::guarded(&mut r, json!({"class":"unread-stream","seed":seed.to_string()}), |r| unread_stream(r, seed));
    }
    for _ in 0..(if a.quick() { 320 } else { 6400 }) / a.nshards.max(1) {
        let seed = rng.u64();
        super::guarded(&mut r, json!({"class":"idle-then-call","seed":seed.to_string()}), |r| idle_then_call(r, seed));
    }
    // fault enumeration over random scripts
    let scripts = (if a.quick() { 32 } else { 480 }) / a.nshards.max(1);
    for _ in 0..scripts.max(1) {
        let script = gen_script(&mut rng);
        let Some(base) = run_script_guarded(&mut r, &script, Fault::None) else { continue };
        judge(&mut r, &script, Fault::None, &base);
        r.count("scripts");
        let m = base.messages.min(400);
        // every single drop / duplicate / delay; errors, stripped tokens and crashes on a stride
        for k in 0..m {
            for f in [Fault::Drop(k), Fault::Dup(k), Fault::Delay(k)] {
                if let Some(o) = run_script_guarded(&mut r, &script, f) {
                    judge(&mut r, &script, f, &o);
                }
            }
            if k % 3 == 0 {
                for f in [Fault::Error(k, *rng.pick(&[203, 205, 301, 302, 201])), Fault::StripToken(k), Fault::CrashPeer(k), Fault::HostileNodes(k, ((k / 3) % 5) as u8)] {
                    if let Some(o) = run_script_guarded(&mut r, &script, f) {
                        judge(&mut r, &script, f, &o);
                    }
                }
            }
        }
        // pairs of drops: all pairs around the tail (put phase), random pairs elsewhere
        let pairs = if a.quick() { 30 } else { 300 };
        for _ in 0..pairs {
            let (k1, k2) = (rng.usize(m.max(1)), m.saturating_sub(1 + rng.usize(m.min(12).max(1))));
            let f = Fault::DropTwo(k1, k2);
            if let Some(o) = run_script_guarded(&mut r, &script, f) {
                judge(&mut r, &script, f, &o);
            }
        }
    }
    r
}

/// A lookup of the node's own id in flight while the node takes a new id: an adaptive node on a public,
/// reachable address learns that address from its first lookup, pings itself, and re-keys (BEP42) when the
/// ping comes back - a few tens of milliseconds after the first lookup ended. A `find_node(own id)` or
/// `bootstrapped()` started right then (one peer has just crashed, so the lookup lasts at least a request
/// timeout) is still running around the OLD id when the re-key happens. It must return all the same.
pub fn rekey_window(r: &mut Report, seed: u64) {
    r.eval();
    let mut rng = Rng::new(seed);
    let w = World::with_cfg(seed, NetCfg { lat_min: 5 * MS, lat_max: 120 * MS, random_ties: true }, TraceLevel::Off);
    let servers = 3 + rng.usize(5);
    let mut net = build_net(&w, servers, 0, IpPlan::PublicSecure, false, &mut rng);
    let which = rng.usize(3);
    let call_name = ["find_node(own id)", "bootstrapped()", "both"][which];
    let case = json!({"class":"rekey-window","seed":seed.to_string(),"servers":servers,"call":call_name});
    let x = match w.spawn(NodeSpec::client(Ipv4Addr::new(80, 0, 0, 1), &[net.boot])) {
        Ok(x) => x,
        Err(_) => return,
    };
    let id0 = match w.block_on(x.adht.info(), 5 * SEC) {
        Some(i) => *i.id(),
        None => return,
    };
    w.block_on(x.adht.bootstrapped(), 60 * SEC);
    // one server (not the bootstrap node) crashes now: the next lookup waits for it
    let vi = 1 + rng.usize(servers - 1);
    let nd = net.nodes.remove(vi);
    let sck = nd.sock;
    w.crash_sock(sck);
    drop(nd);
    w.reap(sck);
    let a = x.adht.clone();
    let now = w.now();
    let mut tasks: Vec<(&str, Task<()>)> = vec![];
    if which != 1 {
        let a1 = a.clone();
        tasks.push(("find_node", Task::new(now, async move { drop(a1.find_node(id0).await) })));
    }
    if which != 0 {
        let a2 = a.clone();
        tasks.push(("bootstrapped", Task::new(now, async move { drop(a2.bootstrapped().await) })));
    }
    let end = now + 60 * SEC;
    loop {
        let t = w.now();
        let mut all = true;
        for (_, tk) in tasks.iter_mut() {
            if !tk.poll(t) {
                all = false;
            }
        }
        if all || t >= end {
            break;
        }
        if !matches!(w.step_until(end), Step::Node(_) | Step::Raw(_)) {
            w.run_to(end);
        }
    }
    let id1 = w.block_on(x.adht.info(), 5 * SEC).map(|i| *i.id());
    let rekeyed = id1.map(|i| i != id0).unwrap_or(false);
    let took: Vec<u64> = tasks.iter().map(|(_, t)| t.finished.unwrap_or(end).saturating_sub(now) / MS).collect();
    if rekeyed {
        r.count("rekey_window/node_took_a_new_id_around_the_call");
        r.nontrivial(mix(seed, w.order_hash()));
    }
    for (name, tk) in &tasks {
        if tk.done() {
            r.count(&format!("rekey_window/{name}/returned"));
        } else {
            r.violation(&format!("hang/{name}/own-id-lookup-during-rekey"), "a lookup of the node's own id that was in flight when the node took a new (BEP42) id did not return within 60 s", case.clone(), json!({"rekeyed": rekeyed, "took_ms": took}));
        }
    }
    if w.stuck() {
        r.inconclusive("scheduler watchdog fired");
    }
    drop(x);
    drop(net);
    w.shutdown();
    for (thread, loc, msg) in crate::take_panics() {
        r.violation(&format!("panic/{loc}"), &format!("thread {thread} panicked: {msg}"), case.clone(), json!({}));
    }
}

/// A caller that does not read: a get_peers / get_mutable stream is opened and left unpolled while 25..45
/// responders each deliver a value for it; meanwhile another call (find_node of another target) runs on the
/// same node, and afterwards the stream is read. The other call must return (an unread stream is no reason
/// for any other call to hang), and the stream must then yield every response and end.
/// If the node's thread stops returning to its socket read for seconds of real time, the scheduler reads
/// one item from the stream; the thread resuming right then, repeatedly, shows that it was blocked handing
/// responses to the caller that is not reading.
pub fn unread_stream(r: &mut Report, seed: u64) {
    use crate::krpc::{addr_bytes, nodes_bytes, response, VERSION_RS6};
    use futures_lite::StreamExt;
    use std::pin::Pin;
    r.eval();
    let mut rng = Rng::new(seed);
    let w = World::with_cfg(seed, NetCfg { lat_min: MS, lat_max: 40 * MS, random_ties: true }, TraceLevel::Off);
    let n = 25 + rng.usize(21);
    let mutable = rng.bool();
    let case = json!({"class":"unread-stream","seed":seed.to_string(),"responders":n,"stream": if mutable { "get_mutable" } else { "get_peers" }});
    let ends: Vec<([u8; 20], SocketAddrV4)> = (0..n).map(|i| (rng.array(), SocketAddrV4::new(Ipv4Addr::new(54, 0, (i / 200) as u8, 1 + (i % 200) as u8), 6881))).collect();
    let socks: Vec<SockId> = ends.iter().map(|e| w.raw(e.1)).collect();
    let signer = dht::SigningKey::from_bytes(&rng.array::<32>());
    let item = dht::MutableItem::new(&signer, b"value", 3, None);
    let key = *item.key();
    let target: [u8; 20] = if mutable { crate::sha1::mutable_target(&key, None) } else { rng.array() };
    let answered: Rc<RefCell<HashSet<usize>>> = Rc::new(RefCell::new(HashSet::new()));
    {
        let (ends2, socks2, item2, answered2) = (ends.clone(), socks.clone(), item.clone(), answered.clone());
        w.set_responder(Some(Box::new(move |w, sock, d| {
            let Some(i) = socks2.iter().position(|s| *s == sock) else { return false };
            let Some(q) = Krpc::parse(&d.bytes) else { return true };
            if q.y != b'q' {
                return true;
            }
            if q.target() == Some(target) && (q.is_query("get_peers") || q.is_query("get")) {
                answered2.borrow_mut().insert(i);
            }
            // referrals: everybody, in slices of 20 around the responder
            let list: Vec<([u8; 20], SocketAddrV4)> = (0..20).map(|k| ends2[(i + 1 + k) % ends2.len()]).collect();
            let mut rd = vec![("id", B::bytes(&ends2[i].0)), ("nodes", B::Bytes(nodes_bytes(&list)))];
            if q.target() == Some(target) && (q.is_query("get_peers") || q.is_query("get")) {
                rd.push(("token", B::bytes(b"tokn")));
                if q.is_query("get_peers") {
                    rd.push(("values", B::List(vec![B::Bytes(addr_bytes(&SocketAddrV4::new(Ipv4Addr::new(77, 0, 0, 1 + i as u8), 7000)))])));
                } else {
                    rd.push(("v", B::bytes(item2.value())));
                    rd.push(("k", B::bytes(item2.key())));
                    rd.push(("sig", B::bytes(item2.signature())));
                    rd.push(("seq", B::Int(item2.seq() as i128)));
                }
            }
            let bytes = response(&q.t, B::dict(rd), Some(&d.from), Some(&VERSION_RS6)).encode();
            w.raw_send(sock, &bytes, d.from);
            true
        })));
    }
    let boots: Vec<SocketAddrV4> = ends.iter().take(3).map(|e| e.1).collect();
    let x = match w.spawn(NodeSpec::client(Ipv4Addr::new(54, 9, 9, 9), &boots)) {
        Ok(x) => x,
        Err(_) => return,
    };
    w.block_on(x.adht.bootstrapped(), 60 * SEC);
    let a = x.adht.clone();
    // the stream: created (so the request reaches the actor) but not polled
    type Items = Pin<Box<dyn futures_lite::Stream<Item = usize>>>;
    let stream: Rc<RefCell<Items>> = Rc::new(RefCell::new(if mutable {
        Box::pin(a.get_mutable(&key, None, None).map(|_| 1usize)) as Items
    } else {
        Box::pin(a.get_peers(Id::from(target)).map(|v| v.len())) as Items
    }));
    let drained_while_blocked = Rc::new(RefCell::new((0u32, 0usize)));
    {
        let (st, dr) = (stream.clone(), drained_while_blocked.clone());
        w.set_blocked_hook(Some(Box::new(move |_waited| {
            if let Ok(mut s) = st.try_borrow_mut() {
                let mut d = dr.borrow_mut();
                d.0 += 1;
                // the first two times read a single item (the thread must resume, and stall again on the next
                // response); from the third time on read whatever is there
                let take = if d.0 <= 2 { 1 } else { 64 };
                for _ in 0..take {
                    match crate::simnet::poll_once(std::pin::pin!(s.next())) {
                        std::task::Poll::Ready(Some(k)) => d.1 += k.max(1),
                        _ => break,
                    }
                }
            }
        })));
    }
    // the other call on the same node
    let other: [u8; 20] = rng.array();
    let a2 = x.adht.clone();
    let now = w.now();
    let mut t_other: Task<usize> = Task::new(now, async move { a2.find_node(Id::from(other)).await.len() });
    let end = now + 90 * SEC;
    while !t_other.poll(w.now()) && w.now() < end {
        if !matches!(w.step_until(end), Step::Node(_) | Step::Raw(_)) {
            w.run_to(end);
        }
    }
    // let the lookup behind the stream finish, still unread
    w.run_for(5 * SEC);
    w.set_blocked_hook(None);
    let (stalls, drained) = *drained_while_blocked.borrow();
    // now read the stream to its end
    let mut got = drained;
    let mut ended = false;
    let end2 = w.now() + 60 * SEC;
    loop {
        let polled = { let mut sb = stream.borrow_mut(); crate::simnet::poll_once(std::pin::pin!(sb.next())) };
        match polled {
            std::task::Poll::Ready(Some(k)) => got += k.max(1),
            std::task::Poll::Ready(None) => {
                ended = true;
                break;
            }
            std::task::Poll::Pending => {
                if w.now() >= end2 || !matches!(w.step_until(end2), Step::Node(_) | Step::Raw(_)) {
                    break;
                }
            }
        }
    }
    r.count("unread_stream_worlds");
    r.add("unread_stream/items_read_afterwards", got as u64);
    if got > 20 {
        r.count("unread_stream/worlds_with_more_than_20_unread_items");
        r.nontrivial(mix(seed, w.order_hash()));
    }
    let detail = json!({"stalls_resolved_by_reading": stalls, "items": got, "stream_ended": ended, "other_call_returned": t_other.done()});
    if stalls >= 3 {
        r.violation("blocked/node-thread-stalled-on-unread-stream", "the node's thread stopped for seconds (real time) at a time and resumed each time the harness read one item from a stream its owner was not polling: responses are handed to callers with a blocking send", case.clone(), detail.clone());
    }
    if !t_other.done() {
        r.violation("hang/FindNode/with-unread-stream", "find_node did not return while another caller's stream on the same node was left unread", case.clone(), detail.clone());
    }
    if !ended {
        r.violation("hang/stream-did-not-end/after-being-left-unread", "a get stream that was left unread during its lookup did not end when read afterwards", case.clone(), detail.clone());
    } else if got < answered.borrow().len() {
        r.violation("lost/stream-items/after-being-left-unread", "a get stream that was left unread during its lookup yielded fewer items than responders answered its lookup with a value", case.clone(), json!({"responders_that_answered": answered.borrow().len(), "detail": detail}));
    }
    if w.stuck() && stalls < 3 {
        r.inconclusive("scheduler watchdog fired");
    }
    drop(stream);
    drop(x);
    w.shutdown();
    for (thread, loc, msg) in crate::take_panics() {
        r.violation(&format!("panic/{loc}"), &format!("thread {thread} panicked: {msg}"), case.clone(), json!({}));
    }
}

/// Calls after a quiet period: a client-mode node in a small responsive network (every round trip below
/// 250 ms, nobody crashes, nothing is lost) is left alone for up to 4 min 50 s (no API call, no maintenance
/// traffic yet), then one call is made. "Within a bounded time determined by the request timeout and the number
/// of nodes contacted": here at most 3 s + 1 s per address the node sent to during the call.
pub fn idle_then_call(r: &mut Report, seed: u64) {
    use futures_lite::StreamExt;
    r.eval();
    let mut rng = Rng::new(seed);
    let w = World::with_cfg(seed, NetCfg { lat_min: 5 * MS, lat_max: 120 * MS, random_ties: true }, TraceLevel::Off);
    let servers = 3 + rng.usize(6);
    let net = build_net(&w, servers, 0, IpPlan::Private, false, &mut rng);
    let x_server = rng.chance(1, 3);
    let x = match w.spawn(if x_server { NodeSpec::server(Ipv4Addr::new(10, 80, 0, 1), &[net.boot]) } else { NodeSpec::client(Ipv4Addr::new(10, 80, 0, 1), &[net.boot]) }) {
        Ok(x) => x,
        Err(_) => return,
    };
    w.block_on(x.adht.bootstrapped(), 60 * SEC);
    // settle, then the quiet period (it ends before the first 5-minute maintenance round of the node)
    w.run_for(3 * SEC);
    let idle = *rng.pick(&[20 * SEC, 60 * SEC, 2 * MIN, 4 * MIN, 4 * MIN + 40 * SEC]);
    w.run_for(idle);
    let which = rng.usize(6);
    let names = ["find_node", "get_immutable", "put_immutable", "bootstrapped", "get_peers", "announce_peer"];
    let case = json!({"class":"idle-then-call","seed":seed.to_string(),"servers":servers,"origin_is_server":x_server,"idle_s":idle / SEC,"call":names[which]});
    let xaddr = x.addr;
    let contacted: std::sync::Arc<std::sync::Mutex<HashSet<SocketAddrV4>>> = Default::default();
    let c2 = contacted.clone();
    w.set_fault(Some(Box::new(move |info: &SendInfo| {
        if info.from == xaddr {
            c2.lock().unwrap_or_else(|e| e.into_inner()).insert(info.to);
        }
        None
    })));
    let a = x.adht.clone();
    let t = Id::from(rng.array::<20>());
    let v = rng.blob(3, 30);
    let t_call = w.now();
    let done: Option<()> = match which {
        0 => w.block_on(async move { drop(a.find_node(t).await) }, 120 * SEC),
        1 => w.block_on(async move { drop(a.get_immutable(t).await) }, 120 * SEC),
        2 => w.block_on(async move { drop(a.put_immutable(&v).await) }, 120 * SEC),
        3 => w.block_on(async move { drop(a.bootstrapped().await) }, 120 * SEC),
        4 => w.block_on(async move { drop(a.get_peers(t).count().await) }, 120 * SEC),
        _ => w.block_on(async move { drop(a.announce_peer(t, Some(4000)).await) }, 120 * SEC),
    };
    let took = w.now() - t_call;
    w.set_fault(None);
    let n_contacted = contacted.lock().unwrap_or_else(|e| e.into_inner()).len() as u64;
    let bound = 3 * SEC + n_contacted * SEC;
    r.count("idle_then_call_worlds");
    r.nontrivial(mix(seed, w.order_hash()));
    if done.is_none() {
        r.violation(&format!("hang/{}/after-idle-period", names[which]), "a call made after a quiet period did not complete within 120 virtual seconds", case.clone(), json!({"contacted": n_contacted}));
    } else if took > bound {
        r.violation(&format!("slow/{}/after-idle-period", names[which]), "in a responsive, loss-free network a call made after a quiet period took longer than 3 s + 1 s per address contacted", case.clone(), json!({"took_ms": took / MS, "bound_ms": bound / MS, "contacted": n_contacted}));
    }
    if w.stuck() {
        r.inconclusive("scheduler watchdog fired");
    }
    drop(x);
    drop(net);
    w.shutdown();
    for (thread, loc, msg) in crate::take_panics() {
        r.violation(&format!("panic/{loc}"), &format!("thread {thread} panicked: {msg}"), case.clone(), json!({}));
    }
}

fn parse_fault(s: &str) -> Fault {
    let nums: Vec<i64> = s.split(|c: char| !c.is_ascii_digit() && c != '-').filter_map(|x| x.parse().ok()).collect();
    let n = |i: usize| nums.get(i).copied().unwrap_or(0) as usize;
    if s.starts_with("Drop(") {
        Fault::Drop(n(0))
    } else if s.starts_with("Dup(") {
        Fault::Dup(n(0))
    } else if s.starts_with("Delay(") {
        Fault::Delay(n(0))
    } else if s.starts_with("Error(") {
        Fault::Error(n(0), nums.get(1).copied().unwrap_or(203) as i32)
    } else if s.starts_with("StripToken(") {
        Fault::StripToken(n(0))
    } else if s.starts_with("HostileNodes(") {
        Fault::HostileNodes(n(0), n(1) as u8)
    } else if s.starts_with("CrashPeer(") {
        Fault::CrashPeer(n(0))
    } else if s.starts_with("DropTwo(") {
        Fault::DropTwo(n(0), n(1))
    } else if s.starts_with("HoldStoreAcks") {
        Fault::HoldStoreAcks
    } else if s.starts_with("DropStoreAcks") {
        Fault::DropStoreAcks
    } else {
        Fault::None
    }
}

#[allow(dead_code)]
fn unused(_: B, _: HashMap<u8, u8>) {}

//! C03 — a storing node accepts only authorised, valid writes.
//! One real server (optionally with a request filter) under hostile raw clients; a reference model
//! classifies every write as must-accept / must-reject(codes) / no-reply, and a probe phase compares
//! what the server serves afterwards with the model's store.
use super::srv::*;
use crate::krpc::*;
use crate::report::Report;
use crate::rng::{fnv, mix, Rng};
use crate::sha1::{immutable_target, mutable_target};
use crate::Args;
use dht::{RequestFilter, RequestSpecific, ServerSettings};
use ed25519_dalek::SigningKey;
use serde_json::{json, Value};
use std::collections::{BTreeMap, HashMap};
use std::net::{Ipv4Addr, SocketAddrV4};

const A: usize = 0; // ip1:7001
const A2: usize = 1; // ip1:7002 (same IP, other port)
const B: usize = 2; // ip2
const D: usize = 3; // puts vetoed by the filter
const E: usize = 4; // everything vetoed by the filter
const P: usize = 5; // probe
const IPS: [[u8; 4]; 6] = [[88, 1, 1, 1], [88, 1, 1, 1], [88, 1, 1, 2], [77, 3, 3, 3], [66, 4, 4, 4], [55, 5, 5, 5]];

#[derive(Debug, Clone)]
struct Veto;
impl RequestFilter for Veto {
    fn allow_request(&self, request: &RequestSpecific, from: SocketAddrV4) -> bool {
        let ip = from.ip().octets();
        if ip == IPS[E] {
            return false;
        }
        if ip == IPS[D] {
            return !matches!(request.request_type, dht::verif::RequestTypeSpecific::Put(_));
        }
        true
    }
}

#[derive(Clone, Copy, Debug, PartialEq, Eq, Hash)]
enum Tok {
    Own,
    /// token issued to client A (used by A2 = same IP, or by B/D = other IP)
    OfA,
    /// token issued to B (other IP), presented by the sender
    OfB,
    OtherServer,
    Empty,
    Random,
    BitFlip,
    Truncated,
    Extended,
    /// computed by the sender from the public token construction with a degenerate secret (never issued by anybody)
    Guessed(u8),
}

#[derive(Clone, Copy, Debug, PartialEq, Eq, Hash)]
enum Act {
    ReadPeers,
    ReadGetImm,
    ReadGetMut,
    ReadSigned,
    PutImm { size: u16, bad_hash: bool },
    /// bad_sig: 0 = valid, 1 = one signature bit flipped, 2 = the signature of the valid item (same k, seq, salt) replayed over another value
    PutMut { seq: i64, vlen: u16, saltlen: u8, bad_sig: u8, bad_target: bool },
    Announce { port: u16, implied: Option<i8> },
    Signed { dt_us: i64, bad_sig: bool },
    /// let virtual time pass (only in the "aged" histories)
    Wait { secs: u32 },
}

#[derive(Clone, Copy, Debug, PartialEq, Eq, Hash)]
struct Sym {
    who: usize,
    act: Act,
    tok: Tok,
}

fn alphabet() -> Vec<Sym> {
    use Act::*;
    let s = |who, act, tok| Sym { who, act, tok };
    let imm = PutImm { size: 12, bad_hash: false };
    let mutv = PutMut { seq: 1, vlen: 9, saltlen: 4, bad_sig: 0, bad_target: false };
    let pm = |seq: i64, vlen: u16, saltlen: u8, bad_sig: u8, bad_target: bool| PutMut { seq, vlen, saltlen, bad_sig, bad_target };
    let ann = Announce { port: 4242, implied: None };
    let sgn = Signed { dt_us: 0, bad_sig: false };
    let mut v = vec![
        s(A, imm, Tok::Own),
        s(A, imm, Tok::OfB),
        s(A, imm, Tok::Empty),
        s(A, imm, Tok::Random),
        s(A, imm, Tok::BitFlip),
        s(A2, imm, Tok::OfA),
        s(B, imm, Tok::OfA),
        s(A, PutImm { size: 1000, bad_hash: false }, Tok::Own),
        s(A, PutImm { size: 1001, bad_hash: false }, Tok::Own),
        s(A, PutImm { size: 12, bad_hash: true }, Tok::Own),
        s(A, mutv, Tok::Own),
        s(A, pm(2, 9, 4, 0, false), Tok::Own),
        s(A, pm(1, 9, 4, 1, false), Tok::Own),
        s(A, pm(1, 9, 4, 2, false), Tok::Own),
        s(B, pm(1, 9, 4, 2, false), Tok::Own),
        s(A, pm(1, 9, 4, 0, true), Tok::Own),
        s(A, pm(2, 9, 5, 0, true), Tok::Own),
        // a salt key that is present but empty: BEP44 treats it as no salt (nothing about it is signed)
        s(A, pm(1, 9, 0, 0, false), Tok::Own),
        s(A, pm(1, 1000, 4, 0, false), Tok::Own),
        s(A, pm(1, 1001, 4, 0, false), Tok::Own),
        s(A, pm(1, 9, 64, 0, false), Tok::Own),
        s(A, pm(1, 9, 65, 0, false), Tok::Own),
        s(A, mutv, Tok::OtherServer),
        s(A, mutv, Tok::Truncated),
        s(A, mutv, Tok::Extended),
        s(A, ann, Tok::Own),
        s(A, Announce { port: 0, implied: Some(1) }, Tok::Own),
        s(A, Announce { port: 5151, implied: Some(0) }, Tok::Own),
        s(B, ann, Tok::OfA),
        s(B, Announce { port: 6001, implied: None }, Tok::Own),
        s(A, ann, Tok::Empty),
        s(A, sgn, Tok::Own),
        s(A, Signed { dt_us: 0, bad_sig: true }, Tok::Own),
        s(A, sgn, Tok::Random),
        s(A, imm, Tok::Guessed(0)),
        s(B, mutv, Tok::Guessed(1)),
        s(A, ann, Tok::Guessed(2)),
        s(A2, sgn, Tok::Guessed(0)),
        s(D, imm, Tok::Own),
        s(E, imm, Tok::Random),
        s(E, ReadPeers, Tok::Own),
        s(A, ReadPeers, Tok::Own),
        s(A, ReadGetImm, Tok::Own),
        s(A, ReadGetMut, Tok::Own),
        s(A, ReadSigned, Tok::Own),
    ];
    for dt in [-50_000_000i64, -45_000_001, -45_000_000, -44_000_000, -5_000_000, 1, 5_000_000, 10_000_000, 44_000_000, 45_000_000, 45_000_001, 50_000_000] {
        v.push(s(A, Signed { dt_us: dt, bad_sig: false }, Tok::Own));
    }
    v
}

/// Waiting times used by the token-age histories (seconds).
const WAITS: [u32; 11] = [1, 30, 59, 61, 120, 240, 299, 301, 360, 601, 1500];

fn timed_alphabet() -> Vec<Sym> {
    let mut v = alphabet();
    for secs in WAITS {
        v.push(Sym { who: P, act: Act::Wait { secs }, tok: Tok::Empty });
    }
    v
}

fn sym_json(s: &Sym) -> Value {
    let names = ["A", "A2(same ip)", "B(other ip)", "D(put-filtered)", "E(filtered)", "P"];
    json!({"who": names[s.who], "act": format!("{:?}", s.act), "token": format!("{:?}", s.tok)})
}

#[derive(Default)]
struct Store {
    imm: HashMap<[u8; 20], Vec<u8>>,
    mutable: HashMap<[u8; 20], (Vec<u8>, i64, Vec<u8>, Vec<u8>)>, // v, seq, k, sig
    peers: HashMap<[u8; 20], BTreeMap<[u8; 20], SocketAddrV4>>,
    signed: HashMap<[u8; 20], BTreeMap<Vec<u8>, (u64, Vec<u8>)>>,
}

struct Env {
    fx: Fixture,
    cl: Vec<Client>,
    tok_other_server: Vec<u8>,
    store: Store,
    _s2: dht::Dht,
    filtered: bool,
    counts: BTreeMap<&'static str, u64>,
    /// virtual send times of the requests the server handled (not vetoed by the filter)
    arrivals: Vec<u64>,
}

fn new_env(seed: u64, filtered: bool) -> Env {
    new_env_rk(seed, filtered, false)
}

/// `rekeying`: the server has one scripted peer and can be made to take a new id (Fixture::trigger_rekey)
fn new_env_rk(seed: u64, filtered: bool, rekeying: bool) -> Env {
    let settings = if filtered { Some(ServerSettings { filter: Box::new(Veto), ..Default::default() }) } else { None };
    let fx = if rekeying { Fixture::new_rekeying(seed, settings) } else { Fixture::new(seed, settings) };
    let s2 = fx.second_server(Ipv4Addr::new(45, 12, 0, 2));
    let s2addr = s2.addr;
    let mut cl: Vec<Client> = (0..6).map(|i| fx.client(SocketAddrV4::new(Ipv4Addr::from(IPS[i]), 7001 + i as u16), [0xc0 + i as u8; 20])).collect();
    for c in cl.iter_mut().take(4) {
        let id = c.id;
        fx.rpc(c, |t| q_get_peers(t, &id, &[0x11; 20], false));
    }
    let ida = cl[A].id;
    let mut tmp = fx.client(SocketAddrV4::new(Ipv4Addr::from(IPS[A]), 7099), ida);
    let tok_other_server = match fx.rpc_to(&mut tmp, s2addr, |t| q_get_peers(t, &ida, &[0x11; 20], false)) {
        Reply::Resp(k) => k.res_bytes("token").map(|t| t.to_vec()).unwrap_or_default(),
        _ => vec![],
    };
    Env { fx, cl, tok_other_server, store: Store::default(), _s2: s2.dht.clone(), filtered, counts: BTreeMap::new(), arrivals: vec![] }
}

/// per-history payload context (fresh targets each history)
struct H {
    n: u64,
    signer: SigningKey,
    ih: [u8; 20],
    imm_target_seen: Vec<[u8; 20]>,
    mut_target_seen: Vec<[u8; 20]>,
}

fn token_bytes(env: &Env, who: usize, tok: Tok, rng: &mut Rng) -> Vec<u8> {
    let own = |i: usize| env.cl[i].token.clone().map(|t| t.0).unwrap_or_default();
    match tok {
        Tok::Own => own(who),
        Tok::OfA => own(A),
        Tok::OfB => own(B),
        Tok::OtherServer => env.tok_other_server.clone(),
        Tok::Empty => vec![],
        Tok::Random => loop {
            let t = rng.bytes(4);
            if t != own(who) {
                break t;
            }
        },
        Tok::BitFlip => {
            let mut t = own(who);
            if !t.is_empty() {
                let i = rng.usize(t.len() * 8);
                t[i / 8] ^= 1 << (i % 8);
            }
            t
        }
        Tok::Truncated => {
            let mut t = own(who);
            t.pop();
            t
        }
        Tok::Extended => {
            let mut t = own(who);
            t.push(0);
            t
        }
        Tok::Guessed(k) => {
            let t = guessed_token(env.cl[who].addr, k);
            if t == own(who) {
                vec![t[0] ^ 1, t[1], t[2], t[3]]
            } else {
                t
            }
        }
    }
}

#[derive(Clone, Copy, Debug, PartialEq, Eq)]
enum Tv {
    Must,
    /// issued to this IP more than one interval ago but not provably two rotations ago: may or may not be honoured
    Either,
    Stale,
    No,
}

/// "A token this node recently issued to the sender's IP", read as C15 states it and as the code documents
/// it: clients use a token for up to one rotation interval (5 min, `Node::valid_token`), so a token
/// younger than that must be honoured; secrets rotate lazily on the next request after an interval has
/// passed, so a token stops being honoured after two rotations, i.e. once it is older than two intervals
/// plus twice the longest gap between requests the node handled meanwhile. One second of slack on both.
fn token_valid(who: usize, tok: Tok, env: &Env) -> Tv {
    let src = match tok {
        Tok::Own => who,
        Tok::OfA if IPS[who] == IPS[A] => A,
        Tok::OfB if IPS[who] == IPS[B] => B,
        _ => return Tv::No,
    };
    let Some((_, issued)) = env.cl[src].token else { return Tv::No };
    let now = env.fx.w.now();
    let age = now.saturating_sub(issued);
    let interval = 300 * crate::simnet::SEC;
    let mut last = issued;
    let mut gap = 0;
    for &t in env.arrivals.iter().filter(|&&t| t > issued).chain(std::iter::once(&now)) {
        gap = gap.max(t.saturating_sub(last));
        last = t;
    }
    if age + crate::simnet::SEC < interval {
        Tv::Must
    } else if age > 2 * interval + 2 * gap + crate::simnet::SEC {
        Tv::Stale
    } else {
        Tv::Either
    }
}

fn exec(env: &mut Env, h: &mut H, s: &Sym, rng: &mut Rng) -> Option<(String, String, Value)> {
    let filtered_out = env.filtered && (s.who == E || (s.who == D && !matches!(s.act, Act::ReadPeers | Act::ReadGetImm | Act::ReadGetMut | Act::ReadSigned)));
    let token = token_bytes(env, s.who, s.tok, rng);
    let tv = token_valid(s.who, s.tok, env);
    if !filtered_out && !matches!(s.act, Act::Wait { .. }) {
        env.arrivals.push(env.fx.w.now());
        if env.arrivals.len() > 4096 {
            env.arrivals.drain(..2048);
        }
    }
    let id = env.cl[s.who].id;
    let from = env.cl[s.who].addr;
    let any = vec![203, 205, 206, 207];
    // build request, the payload faults (allowed error codes) and the effect on the model if accepted
    let mut faults: Vec<i128> = vec![];
    let effect: Option<Box<dyn FnOnce(&mut Store)>>;
    let reply;
    match s.act {
        Act::Wait { secs } => {
            env.fx.w.run_until(secs as u64 * crate::simnet::SEC, |_| false);
            *env.counts.entry("virtual_seconds_waited").or_default() += secs as u64;
            return None;
        }
        Act::ReadPeers | Act::ReadSigned => {
            let signed = s.act == Act::ReadSigned;
            let ih = h.ih;
            reply = env.fx.rpc(&mut env.cl[s.who], |t| q_get_peers(t, &id, &ih, signed));
            return judge_read(env, &reply, filtered_out, s);
        }
        Act::ReadGetImm | Act::ReadGetMut => {
            let target = if s.act == Act::ReadGetImm { h.imm_target_seen.last().copied().unwrap_or([9; 20]) } else { h.mut_target_seen.last().copied().unwrap_or([8; 20]) };
            reply = env.fx.rpc(&mut env.cl[s.who], |t| q_get(t, &id, &target, None));
            return judge_read(env, &reply, filtered_out, s);
        }
        Act::PutImm { size, bad_hash } => {
            let mut v = format!("imm-{}-{}-", h.n, size).into_bytes();
            v.resize(size as usize, b'x');
            let mut target = immutable_target(&v);
            if bad_hash {
                target[7] ^= 0x10;
            }
            if size > 1000 {
                faults.push(205);
            }
            if bad_hash {
                faults.extend(&any);
            }
            h.imm_target_seen.push(target);
            let vv = v.clone();
            effect = Some(Box::new(move |st: &mut Store| {
                st.imm.insert(target, vv);
            }));
            reply = env.fx.rpc(&mut env.cl[s.who], |t| q_put_immutable(t, &id, &token, &target, &v));
        }
        Act::PutMut { seq, vlen, saltlen, bad_sig, bad_target } => {
            let mut v = format!("mut-{}-{}", h.n, seq).into_bytes();
            v.resize(vlen as usize, b'y');
            let mut salt = format!("s{}", h.n).into_bytes();
            salt.resize(saltlen as usize, b'z');
            let sg = sign_mutable(&h.signer, seq, &v, Some(&salt));
            let mut sig = sg.sig;
            if bad_sig == 1 {
                sig[10] ^= 1;
                faults.push(206);
            } else if bad_sig == 2 {
                // same (k, seq, sig) as the valid item, but another value of the same length
                let last = v.len() - 1;
                v[last] ^= 0x21;
                faults.push(206);
            }
            let mut target = mutable_target(&sg.k, Some(&salt));
            if bad_target && saltlen == 5 {
                // signed over this 5-byte salt, but sent to the target of the same key's 4-byte-salt item
                // (which an earlier write of this history may have stored there)
                let mut salt4 = format!("s{}", h.n).into_bytes();
                salt4.resize(4, b'z');
                target = mutable_target(&sg.k, Some(&salt4));
                faults.extend(&any);
            } else if bad_target {
                target[3] ^= 0x80;
                faults.extend(&any);
            }
            if vlen > 1000 {
                faults.push(205);
            }
            if saltlen > 64 {
                faults.push(207);
            }
            // interplay with C04 rules on the same target (seq 1 after seq 2): lower seq => 302
            if let Some((_, sseq, _, _)) = env.store.mutable.get(&target) {
                if seq < *sseq {
                    faults.push(302);
                }
            }
            h.mut_target_seen.push(target);
            let (vv, k, sg2) = (v.clone(), sg.k.to_vec(), sig.to_vec());
            effect = Some(Box::new(move |st: &mut Store| {
                st.mutable.insert(target, (vv, seq, k, sg2));
            }));
            reply = env.fx.rpc(&mut env.cl[s.who], |t| q_put_mutable(t, &id, &token, &target, &v, &sg.k, &sig, seq, Some(&salt), None));
        }
        Act::Announce { port, implied } => {
            let ih = h.ih;
            let recorded = if implied.map(|i| i != 0).unwrap_or(false) { from } else { SocketAddrV4::new(*from.ip(), port) };
            effect = Some(Box::new(move |st: &mut Store| {
                st.peers.entry(ih).or_default().insert(id, recorded);
            }));
            reply = env.fx.rpc(&mut env.cl[s.who], |t| q_announce_peer(t, &id, &ih, port, implied.map(|i| i as i128), &token));
        }
        Act::Signed { dt_us, bad_sig } => {
            let ih = h.ih;
            // the server reads its clock when the datagram arrives: exactly 1 ms after sending
            let ts = (env.fx.w.unix_micros() as i64 + 1000 + dt_us) as u64;
            let sg = sign_announce(&h.signer, &ih, ts);
            let mut sig = sg.sig;
            if bad_sig {
                sig[33] ^= 4;
                faults.extend(&any);
            }
            if dt_us.abs() > 45_000_000 {
                faults.extend(&any);
            }
            let (k, sg2) = (sg.k.to_vec(), sig.to_vec());
            effect = Some(Box::new(move |st: &mut Store| {
                st.signed.entry(ih).or_default().insert(k, (ts, sg2));
            }));
            reply = env.fx.rpc(&mut env.cl[s.who], |t| q_announce_signed_peer(t, &id, &ih, &sg.k, &sig, ts, &token));
        }
    }
    let kind = match s.act {
        Act::PutImm { .. } => "put_immutable",
        Act::PutMut { .. } => "put_mutable",
        Act::Announce { .. } => "announce_peer",
        Act::Signed { .. } => "announce_signed_peer",
        _ => "read",
    };
    if !filtered_out {
        *env.counts.entry(match tv {
            Tv::Must => "writes_with_fresh_token",
            Tv::Either => "writes_with_token_between_bounds",
            Tv::Stale => "writes_with_token_older_than_two_rotations",
            Tv::No => "writes_with_foreign_or_forged_token",
        }).or_default() += 1;
        if tv == Tv::Either && faults.is_empty() {
            *env.counts.entry(if reply.is_ack() { "token_between_bounds_accepted" } else { "token_between_bounds_refused" }).or_default() += 1;
        }
    }
    if filtered_out {
        if !matches!(reply, Reply::None) {
            return Some((format!("filter/replied/{kind}"), "a request vetoed by the request filter was answered".into(), json!({"reply": reply.short()})));
        }
        return None;
    }
    let mut allowed = faults.clone();
    if tv != Tv::Must {
        allowed.push(203);
    }
    let must_reject = !faults.is_empty() || matches!(tv, Tv::No | Tv::Stale);
    let must_accept = faults.is_empty() && tv == Tv::Must;
    match &reply {
        Reply::None => Some((format!("write/no-reply/{kind}"), "an unfiltered write got no reply".into(), json!({}))),
        Reply::Resp(_) => {
            if must_reject {
                let why = match tv {
                    Tv::No => format!("token-{:?}", s.tok),
                    Tv::Stale => "token-older-than-two-rotations".to_string(),
                    _ => payload_fault_name(&s.act),
                };
                return Some((format!("write/accepted-must-reject/{kind}/{why}"), format!("write acknowledged although it must be rejected ({why})"), json!({"allowed_codes": allowed})));
            }
            if let Some(e) = effect {
                e(&mut env.store);
            }
            None
        }
        Reply::Err(code, msg) => {
            if must_accept {
                return Some((format!("write/rejected-must-accept/{kind}/e{code}"), format!("a valid, authorised write was rejected with {code} ({msg})"), json!({"token": format!("{:?}", s.tok)})));
            }
            if !allowed.contains(code) {
                return Some((format!("write/wrong-error-code/{kind}/e{code}"), format!("rejected with {code}, expected one of {allowed:?}"), json!({})));
            }
            None
        }
    }
}

fn payload_fault_name(a: &Act) -> String {
    match a {
        Act::PutImm { size, bad_hash } => if *bad_hash { "hash-mismatch".into() } else { format!("v{size}") },
        Act::PutMut { vlen, saltlen, bad_sig, bad_target, .. } => {
            if *bad_sig == 1 { "bad-signature".into() } else if *bad_sig == 2 { "replayed-signature-other-value".into() } else if *bad_target { "target-not-sha1-of-key-salt".into() } else if *vlen > 1000 { format!("v{vlen}") } else if *saltlen > 64 { format!("salt{saltlen}") } else { "lower-seq".into() }
        }
        Act::Signed { dt_us, bad_sig } => if *bad_sig { "bad-signature".into() } else { format!("timestamp{:+}us", dt_us) },
        _ => "?".into(),
    }
}

fn judge_read(env: &Env, reply: &Reply, filtered_out: bool, _s: &Sym) -> Option<(String, String, Value)> {
    let _ = env;
    if filtered_out {
        if !matches!(reply, Reply::None) {
            return Some(("filter/replied/read".into(), "a request vetoed by the request filter was answered".into(), json!({"reply": reply.short()})));
        }
        return None;
    }
    match reply {
        Reply::Resp(k) if k.res_bytes("token").is_some() => None,
        other => Some(("read/no-token-response".into(), format!("lookup answered with {}", other.short()), json!({}))),
    }
}

/// Fresh endpoint reads every touched target and compares with the model's store.
fn probe(env: &mut Env, h: &H) -> Option<(String, String, Value)> {
    let id = env.cl[P].id;
    env.arrivals.push(env.fx.w.now());
    let mut imm_targets = h.imm_target_seen.clone();
    imm_targets.dedup();
    for t in imm_targets {
        let reply = env.fx.rpc(&mut env.cl[P], |tid| q_get(tid, &id, &t, None));
        let got = match &reply {
            Reply::Resp(k) => k.res_bytes("v").map(|v| v.to_vec()),
            _ => return Some(("probe/no-response".into(), "probe get was not answered".into(), json!({}))),
        };
        let want = env.store.imm.get(&t).cloned();
        if got != want {
            let kind = if want.is_none() { "never-validly-written" } else { "lost-or-altered" };
            return Some((format!("probe/immutable/{kind}"), "server serves an immutable value that differs from what was validly written".into(), json!({"target": crate::bencode::hex(&t), "served_len": got.map(|g| g.len()), "model_len": want.map(|g| g.len())})));
        }
    }
    let mut mut_targets = h.mut_target_seen.clone();
    mut_targets.dedup();
    for t in mut_targets {
        let reply = env.fx.rpc(&mut env.cl[P], |tid| q_get(tid, &id, &t, None));
        let got = match &reply {
            Reply::Resp(k) => k.res_bytes("v").map(|v| (v.to_vec(), k.res("seq").and_then(|s| s.as_int()).unwrap_or(-1) as i64, k.res_bytes("k").unwrap_or(&[]).to_vec(), k.res_bytes("sig").unwrap_or(&[]).to_vec())),
            _ => return Some(("probe/no-response".into(), "probe get was not answered".into(), json!({}))),
        };
        let want = env.store.mutable.get(&t).cloned();
        if got != want {
            let kind = if want.is_none() { "never-validly-written" } else { "lost-or-altered" };
            return Some((format!("probe/mutable/{kind}"), "server serves a mutable item that differs from what was validly written".into(), json!({"target": crate::bencode::hex(&t), "served_seq": got.map(|g| g.1), "model_seq": want.map(|g| g.1)})));
        }
        // whatever is served must itself be authentic (signature + target)
        if let Some((v, seq, k, sig)) = &env.store.mutable.get(&t).cloned() {
            let _ = (v, seq, k, sig);
        }
    }
    // peers
    let ih = h.ih;
    let reply = env.fx.rpc(&mut env.cl[P], |tid| q_get_peers(tid, &id, &ih, false));
    if let Reply::Resp(k) = &reply {
        let mut got: Vec<SocketAddrV4> = k.res("values").and_then(|v| v.as_list()).map(|l| l.iter().filter_map(|b| b.as_bytes()).filter(|b| b.len() == 6).map(parse_addr).collect()).unwrap_or_default();
        let mut want: Vec<SocketAddrV4> = env.store.peers.get(&ih).map(|m| m.values().copied().collect()).unwrap_or_default();
        got.sort();
        want.sort();
        if got != want {
            let kind = if got.iter().any(|g| !want.contains(g)) { "unexpected-peer" } else { "missing-peer" };
            return Some((format!("probe/peers/{kind}"), "peers served differ from the senders' own IP with the announced/implied port of the accepted announces".into(), json!({"served": got.iter().map(|a| a.to_string()).collect::<Vec<_>>(), "model": want.iter().map(|a| a.to_string()).collect::<Vec<_>>() })));
        }
    } else {
        return Some(("probe/no-response".into(), "probe get_peers was not answered".into(), json!({})));
    }
    let reply = env.fx.rpc(&mut env.cl[P], |tid| q_get_peers(tid, &id, &ih, true));
    if let Reply::Resp(k) = &reply {
        let mut got: Vec<(Vec<u8>, u64, Vec<u8>)> = k
            .res("peers")
            .and_then(|v| v.as_list())
            .map(|l| l.iter().filter_map(|b| b.as_bytes()).filter(|b| b.len() == 104).map(|b| (b[..32].to_vec(), u64::from_be_bytes(b[32..40].try_into().expect("8")), b[40..].to_vec())).collect())
            .unwrap_or_default();
        let mut want: Vec<(Vec<u8>, u64, Vec<u8>)> = env.store.signed.get(&ih).map(|m| m.iter().map(|(k, (t, s))| (k.clone(), *t, s.clone())).collect()).unwrap_or_default();
        got.sort();
        want.sort();
        if got != want {
            let kind = if got.iter().any(|g| !want.contains(g)) { "unexpected-announcement" } else { "missing-announcement" };
            return Some((format!("probe/signed-peers/{kind}"), "signed announcements served differ from the validly written ones".into(), json!({"served": got.len(), "model": want.len()})));
        }
    } else {
        return Some(("probe/no-response".into(), "probe get_signed_peers was not answered".into(), json!({})));
    }
    None
}

fn run_history(r: &mut Report, env: &mut Env, hist: &[Sym], class: &str, n: u64, rng: &mut Rng) {
    r.eval();
    let mut h = H { n, signer: SigningKey::from_bytes(&rng.array::<32>()), ih: rng.array(), imm_target_seen: vec![], mut_target_seen: vec![] };
    let before = (env.store.imm.len(), env.store.mutable.len());
    let mut bad = None;
    let mut accepted = 0;
    let mut rejected = 0;
    for (i, s) in hist.iter().enumerate() {
        let st_before = (env.store.imm.len(), env.store.mutable.len(), env.store.peers.get(&h.ih).map(|m| m.len()).unwrap_or(0), env.store.signed.get(&h.ih).map(|m| m.len()).unwrap_or(0));
        if let Some(v) = exec(env, &mut h, s, rng) {
            bad = Some((i, v));
            break;
        }
        let st_after = (env.store.imm.len(), env.store.mutable.len(), env.store.peers.get(&h.ih).map(|m| m.len()).unwrap_or(0), env.store.signed.get(&h.ih).map(|m| m.len()).unwrap_or(0));
        let is_write = !matches!(s.act, Act::ReadPeers | Act::ReadGetImm | Act::ReadGetMut | Act::ReadSigned | Act::Wait { .. });
        if is_write {
            if st_after != st_before { accepted += 1 } else { rejected += 1 }
        }
    }
    let filtered = env.filtered;
    let case = |upto: usize| json!({"class": class, "filtered_server": filtered, "history": hist[..upto].iter().map(sym_json).collect::<Vec<_>>(), "n": n});
    if let Some((i, (sig, what, detail))) = bad {
        r.violation(&sig, &what, case(i + 1), detail);
    } else if let Some((sig, what, detail)) = probe(env, &h) {
        r.violation(&sig, &what, case(hist.len()), detail);
    }
    let _ = before;
    for (k, v) in std::mem::take(&mut env.counts) {
        r.add(k, v);
    }
    r.add("requests", hist.len() as u64 + 4);
    if accepted > 0 {
        r.count("histories_with_accepted_write");
    }
    if rejected > 0 {
        r.count("histories_with_rejected_write");
    }
    if accepted > 0 && rejected > 0 {
        r.nontrivial(hist.iter().fold(mix(0xc03, env.filtered as u64), |a, s| mix(a, fnv(format!("{s:?}").as_bytes()))));
    }
    if r.want_sample() && accepted > 0 && rejected > 0 && hist.len() >= 3 {
        r.sample(json!({"class": class, "history": hist.iter().map(sym_json).collect::<Vec<_>>(), "accepted_writes": accepted, "rejected_writes": rejected}));
    }
}

pub fn run(a: &Args) -> Report {
    let mut r = Report::new("C03");
    let mut rng = Rng::new(mix(a.seed, 0xc03 + a.shard));
    let alpha = alphabet();
    if let Some(path) = &a.replay {
        return replay(path, a);
    }
    let depth = if a.quick() { 2 } else { 3 };
    let n = alpha.len() as u64;
    let total = n.pow(depth);
    r.notes.insert("alphabet".into(), json!(n));
    r.notes.insert("exhaustive_space".into(), json!(format!("{n}^{depth} = {total} histories (each followed by the probe phase)")));
    let mut env_slot: Option<Env> = None;
    let mut used = 0u64;
    let mut code = a.shard;
    while code < total {
        if used % 256 == 0 {
            if let Some(old) = env_slot.take() {
                report_panics(&mut r, old.fx.finish());
            }
            env_slot = Some(new_env(mix(a.seed, used + 7), true));
        }
        let env = env_slot.as_mut().expect("env");
        let mut c = code;
        let mut hist = vec![];
        for _ in 0..depth {
            hist.push(alpha[(c % n) as usize]);
            c /= n;
        }
        run_history(&mut r, env, &hist, "exhaustive", code, &mut rng);
        used += 1;
        code += a.nshards.max(1);
    }
    r.add("exhaustive_histories", used);
    if let Some(old) = env_slot.take() {
        report_panics(&mut r, old.fx.finish());
    }
    // random longer histories, alternating filtered / unfiltered servers
    let n_random = (if a.quick() { 6_400 } else { 24_000 }) / a.nshards.max(1);
    let mut env = new_env(mix(a.seed, 0x77), false);
    // every other server of this part can be made to re-key; it is, after a random number of histories
    let mut rekey_after: Option<u64> = None;
    for i in 0..n_random {
        if i % 64 == 63 {
            report_panics(&mut r, env.fx.finish());
            let rekeying = (i / 64) % 2 == 0;
            env = new_env_rk(mix(a.seed, 0x77 + i), i % 128 == 127 || (i / 64) % 4 == 0, rekeying);
            rekey_after = if rekeying { Some(i + 1 + rng.below(30)) } else { None };
        }
        if rekey_after == Some(i) {
            // the node takes a new id in the middle of its life: stored data, tokens in the clients' hands
            // and the configured request filter must be what they were
            if env.fx.trigger_rekey() {
                r.count("servers_rekeyed_between_histories");
            } else {
                r.count("rekey_trigger_without_id_change");
            }
            rekey_after = None;
        }
        let len = 8 + rng.usize(23);
        let hist: Vec<Sym> = (0..len).map(|_| *rng.pick(&alpha)).collect();
        run_history(&mut r, &mut env, &hist, "random", mix(a.shard, i) | 1 << 40, &mut rng);
        r.count("random_histories");
    }
    report_panics(&mut r, env.fx.finish());
    aged(&mut r, a, &mut rng);
    for _ in 0..(if a.quick() { 960 } else { 19_200 }) / a.nshards.max(1) {
        let seed = rng.u64();
        super::guarded(&mut r, json!({"class":"refused-at-capacity","seed":seed.to_string()}), |r| refused_at_capacity(r, seed));
    }
    r
}

/// Refused writes leave no trace, even in a full store. A server whose four stores hold as much as their
/// (small) limits allow - every entry validly written and read back first - receives a series of writes that
/// must all be refused, each wrong in one way, aimed at targets the node does not hold yet as well as at the
/// ones it holds. Afterwards the store sizes (snapshot hook) are what they were and every entry is still
/// served, byte for byte: a refusal that made room for what it refused would have evicted one of them.
pub fn refused_at_capacity(r: &mut Report, seed: u64) {
    r.eval();
    let mut rng = Rng::new(seed);
    let caps = (1 + rng.usize(3), 1 + rng.usize(3), 1 + rng.usize(3));
    let settings = ServerSettings { max_info_hashes: caps.0, max_immutable_values: caps.1, max_mutable_values: caps.2, ..Default::default() };
    let fx = Fixture::new(seed, Some(settings));
    let mut case = json!({"class":"refused-at-capacity","seed":seed.to_string(),"max_info_hashes":caps.0,"max_immutable_values":caps.1,"max_mutable_values":caps.2});
    let mut a = fx.client(SocketAddrV4::new(Ipv4Addr::new(88, 7, 1, 1), 7001), [0xa1; 20]);
    let mut p = fx.client(SocketAddrV4::new(Ipv4Addr::new(88, 7, 1, 2), 7002), [0xa2; 20]);
    let (ida, idp) = (a.id, p.id);
    let fresh_token = |fx: &Fixture, c: &mut Client| -> Vec<u8> {
        let id = c.id;
        fx.rpc(c, |t| q_get_peers(t, &id, &[0x11; 20], false));
        c.token.clone().map(|t| t.0).unwrap_or_default()
    };
    // --- fill ---
    let signer = SigningKey::from_bytes(&rng.array::<32>());
    let ihs: Vec<[u8; 20]> = (0..caps.0).map(|_| rng.array()).collect();
    let mut signed: Vec<(u64, Vec<u8>)> = vec![];
    let tok = fresh_token(&fx, &mut a);
    let mut fill_ok = !tok.is_empty();
    for ih in &ihs {
        fill_ok &= fx.rpc(&mut a, |t| q_announce_peer(t, &ida, ih, 4242, None, &tok)).is_ack();
        let ts = fx.w.unix_micros() + 1000;
        let sg = sign_announce(&signer, ih, ts);
        fill_ok &= fx.rpc(&mut a, |t| q_announce_signed_peer(t, &ida, ih, &sg.k, &sg.sig, ts, &tok)).is_ack();
        signed.push((ts, sg.sig.to_vec()));
    }
    let imms: Vec<Vec<u8>> = (0..caps.1).map(|i| format!("held-immutable-{i}-{}", rng.u64()).into_bytes()).collect();
    for v in &imms {
        let t = immutable_target(v);
        fill_ok &= fx.rpc(&mut a, |tid| q_put_immutable(tid, &ida, &tok, &t, v)).is_ack();
    }
    let muts: Vec<(Vec<u8>, Vec<u8>)> = (0..caps.2).map(|i| (format!("held-mutable-{i}").into_bytes(), format!("salt{i}").into_bytes())).collect();
    for (v, salt) in &muts {
        let sg = sign_mutable(&signer, 5, v, Some(salt));
        let t = mutable_target(&sg.k, Some(salt));
        fill_ok &= fx.rpc(&mut a, |tid| q_put_mutable(tid, &ida, &tok, &t, v, &sg.k, &sg.sig, 5, Some(salt), None)).is_ack();
    }
    let key = signer.verifying_key().to_bytes();
    // what the node serves for everything that was written: (store, entry, served correctly)
    let read_all = |fx: &Fixture, p: &mut Client| -> Vec<(&'static str, usize, bool)> {
        let mut out = vec![];
        for (i, ih) in ihs.iter().enumerate() {
            let rp = fx.rpc(p, |t| q_get_peers(t, &idp, ih, false));
            let ok = match &rp {
                Reply::Resp(k) => k.res("values").and_then(|v| v.as_list()).map(|l| l.iter().filter_map(|b| b.as_bytes()).any(|b| b.len() == 6 && parse_addr(b) == SocketAddrV4::new(Ipv4Addr::new(88, 7, 1, 1), 4242))).unwrap_or(false),
                _ => false,
            };
            out.push(("peers", i, ok));
            let rp = fx.rpc(p, |t| q_get_peers(t, &idp, ih, true));
            let ok = match &rp {
                Reply::Resp(k) => k.res("peers").and_then(|v| v.as_list()).map(|l| l.iter().filter_map(|b| b.as_bytes()).any(|b| b.len() == 104 && b[..32] == key && b[32..40] == signed[i].0.to_be_bytes() && b[40..] == signed[i].1[..])).unwrap_or(false),
                _ => false,
            };
            out.push(("signed-peers", i, ok));
        }
        for (i, v) in imms.iter().enumerate() {
            let t = immutable_target(v);
            let rp = fx.rpc(p, |tid| q_get(tid, &idp, &t, None));
            out.push(("immutable", i, matches!(&rp, Reply::Resp(k) if k.res_bytes("v") == Some(&v[..]))));
        }
        for (i, (v, salt)) in muts.iter().enumerate() {
            let t = mutable_target(&key, Some(salt));
            let rp = fx.rpc(p, |tid| q_get(tid, &idp, &t, None));
            out.push(("mutable", i, matches!(&rp, Reply::Resp(k) if k.res_bytes("v") == Some(&v[..]) && k.res("seq").and_then(|s| s.as_int()) == Some(5))));
        }
        out
    };
    let before = read_all(&fx, &mut p);
    let sizes = |fx: &Fixture| fx.server.as_ref().and_then(|s| super::net::snapshot(&fx.w, s)).map(|s| format!("{:?}", s.stores));
    let sizes_before = sizes(&fx);
    r.count("refused_at_capacity_worlds");
    if !fill_ok || before.iter().any(|b| !b.2) || sizes_before.is_none() {
        r.count("refused_at_capacity/fill-incomplete");
        report_panics(r, fx.finish());
        return;
    }
    // --- writes that must be refused ---
    let n = 1 + rng.usize(8);
    let mut sent: Vec<String> = vec![];
    let mut accepted: Option<String> = None;
    for j in 0..n {
        let tok = fresh_token(&fx, &mut a);
        let new_ih: [u8; 20] = rng.array();
        let held_ih = ihs[rng.usize(ihs.len())];
        let kind = rng.usize(14);
        let ts = fx.w.unix_micros() + 1000;
        let other = SigningKey::from_bytes(&rng.array::<32>());
        let (name, reply): (&str, Reply) = match kind {
            0 => ("announce_peer/random-token/new-info-hash", fx.rpc(&mut a, |t| q_announce_peer(t, &ida, &new_ih, 999, None, &[1, 2, 3, 4]))),
            1 => {
                let mut sg = sign_announce(&other, &new_ih, ts);
                sg.sig[20] ^= 2;
                ("announce_signed_peer/bad-signature/new-info-hash", fx.rpc(&mut a, |t| q_announce_signed_peer(t, &ida, &new_ih, &sg.k, &sg.sig, ts, &tok)))
            }
            2 => {
                let old = ts - 50_000_000;
                let sg = sign_announce(&other, &new_ih, old);
                ("announce_signed_peer/stale-timestamp/new-info-hash", fx.rpc(&mut a, |t| q_announce_signed_peer(t, &ida, &new_ih, &sg.k, &sg.sig, old, &tok)))
            }
            3 => {
                let sg = sign_announce(&other, &new_ih, ts);
                ("announce_signed_peer/random-token/new-info-hash", fx.rpc(&mut a, |t| q_announce_signed_peer(t, &ida, &new_ih, &sg.k, &sg.sig, ts, &[9, 9, 9, 9])))
            }
            4 => {
                let mut sg = sign_announce(&other, &held_ih, ts);
                sg.sig[3] ^= 0x40;
                ("announce_signed_peer/bad-signature/held-info-hash", fx.rpc(&mut a, |t| q_announce_signed_peer(t, &ida, &held_ih, &sg.k, &sg.sig, ts, &tok)))
            }
            5 => {
                let v = format!("refused-{j}").into_bytes();
                let mut t = immutable_target(&v);
                t[3] ^= 1;
                ("put_immutable/hash-mismatch/new-target", fx.rpc(&mut a, |tid| q_put_immutable(tid, &ida, &tok, &t, &v)))
            }
            6 => {
                // another value sent to a target the node holds
                let t = immutable_target(&imms[rng.usize(imms.len())]);
                let v = format!("not-what-hashes-there-{j}").into_bytes();
                ("put_immutable/hash-mismatch/held-target", fx.rpc(&mut a, |tid| q_put_immutable(tid, &ida, &tok, &t, &v)))
            }
            7 => {
                let v = vec![b'o'; 1001 + rng.usize(200)];
                let t = immutable_target(&v);
                ("put_immutable/oversize/new-target", fx.rpc(&mut a, |tid| q_put_immutable(tid, &ida, &tok, &t, &v)))
            }
            8 => {
                let v = format!("refused-{j}").into_bytes();
                let t = immutable_target(&v);
                ("put_immutable/random-token/new-target", fx.rpc(&mut a, |tid| q_put_immutable(tid, &ida, &[7, 7, 7, 7], &t, &v)))
            }
            9 => {
                let mut sg = sign_mutable(&other, 1, b"refused", Some(b"s"));
                sg.sig[0] ^= 1;
                let t = mutable_target(&sg.k, Some(b"s"));
                ("put_mutable/bad-signature/new-target", fx.rpc(&mut a, |tid| q_put_mutable(tid, &ida, &tok, &t, b"refused", &sg.k, &sg.sig, 1, Some(b"s"), None)))
            }
            10 => {
                // the held key and salt, a higher seq, a signature that does not verify
                let (_, salt) = &muts[rng.usize(muts.len())];
                let mut sg = sign_mutable(&signer, 6, b"newer but forged", Some(salt));
                sg.sig[63] ^= 0x80;
                let t = mutable_target(&sg.k, Some(salt));
                ("put_mutable/bad-signature/held-target", fx.rpc(&mut a, |tid| q_put_mutable(tid, &ida, &tok, &t, b"newer but forged", &sg.k, &sg.sig, 6, Some(salt), None)))
            }
            11 => {
                let salt = vec![b'z'; 65];
                let sg = sign_mutable(&other, 1, b"refused", Some(&salt));
                let t = mutable_target(&sg.k, Some(&salt));
                ("put_mutable/salt-too-long/new-target", fx.rpc(&mut a, |tid| q_put_mutable(tid, &ida, &tok, &t, b"refused", &sg.k, &sg.sig, 1, Some(&salt), None)))
            }
            12 => {
                // a valid item of another key sent to a target the node holds
                let (_, salt) = &muts[rng.usize(muts.len())];
                let sg = sign_mutable(&other, 9, b"foreign", Some(salt));
                let t = mutable_target(&key, Some(salt));
                ("put_mutable/foreign-key/held-target", fx.rpc(&mut a, |tid| q_put_mutable(tid, &ida, &tok, &t, b"foreign", &sg.k, &sg.sig, 9, Some(salt), None)))
            }
            _ => {
                // the held item's own key and salt, a lower seq
                let (_, salt) = &muts[rng.usize(muts.len())];
                let sg = sign_mutable(&signer, 4, b"older", Some(salt));
                let t = mutable_target(&sg.k, Some(salt));
                ("put_mutable/lower-seq/held-target", fx.rpc(&mut a, |tid| q_put_mutable(tid, &ida, &tok, &t, b"older", &sg.k, &sg.sig, 4, Some(salt), None)))
            }
        };
        sent.push(name.to_string());
        r.count(&format!("refused_at_capacity/sent/{}", name.split('/').next().unwrap_or("")));
        if reply.is_ack() && accepted.is_none() {
            accepted = Some(name.to_string());
        }
    }
    case["refused_writes"] = json!(sent);
    let sizes_after = sizes(&fx);
    let after = read_all(&fx, &mut p);
    r.add("refused_at_capacity/refused_writes_sent", n as u64);
    r.add("refused_at_capacity/entries_read_back", after.len() as u64);
    r.nontrivial(mix(seed, fnv(sent.join(",").as_bytes())));
    if let Some(name) = accepted {
        r.violation(&format!("refused-at-capacity/acknowledged/{name}"), "a write that must be refused was acknowledged", case.clone(), json!({}));
    } else if let Some((store, i, _)) = after.iter().find(|x| !x.2) {
        r.violation(&format!("refused-at-capacity/entry-lost-or-altered/{store}"), "after a series of refused writes a validly written entry of a full store is no longer served as written (nothing was accepted in between)", case.clone(), json!({"entry": i, "store_sizes_before": sizes_before, "store_sizes_after": sizes_after}));
    } else if sizes_after != sizes_before {
        r.violation("refused-at-capacity/store-sizes-changed", "refused writes changed the sizes of the node's stores", case.clone(), json!({"before": sizes_before, "after": sizes_after}));
    }
    report_panics(r, fx.finish());
}

/// Token-age histories: a client obtains a token, virtual time passes under one of several traffic
/// patterns (nothing at all, lookups only, writes only, a mix), then the client writes with the old token;
/// afterwards it fetches a new token and writes again. Every write is judged by the age of the token it carries.
fn aged(r: &mut Report, a: &Args, rng: &mut Rng) {
    use Act::*;
    let s = |who, act, tok| Sym { who, act, tok };
    let wait = |secs: u32| s(P, Wait { secs }, Tok::Empty);
    let imm = PutImm { size: 12, bad_hash: false };
    let writes = [
        imm,
        PutMut { seq: 1, vlen: 9, saltlen: 4, bad_sig: 0, bad_target: false },
        Announce { port: 4242, implied: None },
        Signed { dt_us: 0, bad_sig: false },
    ];
    // (piece, count): the old token reaches piece * count seconds, with traffic after every piece
    let ages: [(u32, u32); 14] = [(1, 1), (240, 1), (299, 1), (61, 5), (120, 4), (601, 1), (120, 8), (240, 5), (61, 13), (299, 5), (30, 25), (59, 13), (360, 4), (1500, 2)];
    let n_hist = (if a.quick() { 384 } else { 1920 }) / a.nshards.max(1);
    let mut env = new_env(mix(a.seed, 0xa6ed + a.shard), false);
    for i in 0..n_hist {
        if i % 16 == 15 {
            report_panics(r, env.fx.finish());
            env = new_env(mix(a.seed, 0xa6ed + i * 131 + a.shard), false);
        }
        let (piece, count) = ages[((i + a.shard) % ages.len() as u64) as usize];
        let pattern = ((i + a.shard) / ages.len() as u64 + rng.below(4)) % 4;
        let mut hist = vec![s(A, ReadPeers, Tok::Own), s(B, ReadGetImm, Tok::Own)];
        for _ in 0..count {
            hist.push(wait(piece));
            match pattern {
                0 => {}
                1 => hist.push(s(B, if rng.below(2) == 0 { ReadPeers } else { ReadGetMut }, Tok::Own)),
                2 => hist.push(s(B, *rng.pick(&writes), match rng.below(5) { 0 | 1 => Tok::Own, 2 | 3 => Tok::Random, _ => Tok::Guessed(rng.below(6) as u8) })),
                _ => {
                    let alpha = alphabet();
                    for _ in 0..1 + rng.usize(3) {
                        let x = *rng.pick(&alpha);
                        // keep A's old token: A (and A2, same IP) must not look anything up meanwhile
                        if !(matches!(x.act, ReadPeers | ReadGetImm | ReadGetMut | ReadSigned) && (x.who == A || x.who == A2)) {
                            hist.push(x);
                        }
                    }
                }
            }
        }
        hist.push(s(if rng.below(4) == 0 { A2 } else { A }, *rng.pick(&writes), if rng.below(4) == 0 { Tok::OfA } else { Tok::Own }));
        // A2 has its own (equally old or older) token only if it is A's: use OfA for A2
        if let Some(last) = hist.last_mut() {
            if last.who == A2 {
                last.tok = Tok::OfA;
            }
        }
        hist.push(s(A, ReadSigned, Tok::Own));
        hist.push(s(A, *rng.pick(&writes), Tok::Own));
        run_history(r, &mut env, &hist, "aged", mix(a.shard, i) | 1 << 41, rng);
        r.count("aged_histories");
        r.count(["aged_pattern_idle", "aged_pattern_lookups_only", "aged_pattern_writes_only", "aged_pattern_mixed"][pattern as usize]);
    }
    report_panics(r, env.fx.finish());
}

fn report_panics(r: &mut Report, panics: Vec<(String, String, String)>) {
    for (thread, loc, msg) in panics {
        r.violation(&format!("server-panic/{loc}"), &format!("server thread panicked: {msg}"), json!({"thread": thread}), json!({}));
    }
}

fn replay(path: &str, a: &Args) -> Report {
    let mut r = Report::new("C03");
    let v: Value = serde_json::from_str(&std::fs::read_to_string(path).unwrap_or_default()).unwrap_or_default();
    if v["case"]["class"] == "refused-at-capacity" {
        let seed = v["case"]["seed"].as_str().and_then(|s| s.parse().ok()).unwrap_or(1);
        super::guarded(&mut r, v["case"].clone(), |r| refused_at_capacity(r, seed));
        return r;
    }
    let alpha = timed_alphabet();
    let hist: Vec<Sym> = v["case"]["history"]
        .as_array()
        .map(|h| h.iter().filter_map(|e| alpha.iter().find(|s| sym_json(s) == *e).copied()).collect())
        .unwrap_or_default();
    let mut rng = Rng::new(a.seed);
    let mut env = new_env(a.seed, v["case"]["filtered_server"].as_bool().unwrap_or(true));
    run_history(&mut r, &mut env, &hist, "replay", v["case"]["n"].as_u64().unwrap_or(0), &mut rng);
    report_panics(&mut r, env.fx.finish());
    r
}

//! C12 — routing-table structural and Sybil-limit invariants under add / remove / re-key with
//! a virtual clock (nodes aged across the 15-minute staleness boundary).
use crate::crc32c::{bep42_mint, bep42_valid, id_prefix21};
use crate::report::Report;
use crate::rng::{mix, Rng};
use crate::simnet::{MIN, SEC};
use crate::Args;
use dht::verif::{reset_id, set_env, table_snapshot, Env};
use dht::{Id, Node, RoutingTable};
use serde_json::{json, Value};
use std::collections::{HashMap, HashSet};
use std::net::{Ipv4Addr, SocketAddrV4};
use std::sync::atomic::{AtomicU64, Ordering};
use std::sync::Arc;
use std::time::Duration;

pub struct Clock(pub AtomicU64);
impl Env for Clock {
    fn now(&self) -> Duration {
        Duration::from_nanos(self.0.load(Ordering::SeqCst))
    }
    fn unix_micros(&self) -> u64 {
        1_790_000_000_000_000 + self.0.load(Ordering::SeqCst) / 1000
    }
}

type Entry = ([u8; 20], SocketAddrV4);

fn distance(a: &[u8; 20], b: &[u8; 20]) -> u8 {
    for i in 0..160 {
        if (a[i / 8] ^ b[i / 8]) >> (7 - i % 8) & 1 == 1 {
            return (160 - i) as u8;
        }
    }
    0
}

/// id at exactly `d` from `base` (d in 1..=160), random below the differing bit
fn id_at(base: &[u8; 20], d: u8, rng: &mut Rng) -> [u8; 20] {
    let mut id = *base;
    let bit = 160 - d as usize;
    let r: [u8; 20] = rng.array();
    for i in bit..160 {
        let m = 1u8 << (7 - i % 8);
        if i == bit {
            id[i / 8] ^= m;
        } else {
            id[i / 8] = (id[i / 8] & !m) | (r[i / 8] & m);
        }
    }
    id
}

#[derive(Clone, Debug)]
pub enum Op {
    /// add node created `created_ago` ns before the add
    Add { id: [u8; 20], addr: SocketAddrV4, created_ago: u64 },
    Remove { id: [u8; 20] },
    Rekey { id: [u8; 20] },
    Advance { ns: u64 },
}

fn op_json(op: &Op) -> Value {
    match op {
        Op::Add { id, addr, created_ago } => json!({"op":"add","id":crate::bencode::hex(id),"addr":addr.to_string(),"created_ago_ns":created_ago,"secure":bep42_valid(id, *addr.ip())}),
        Op::Remove { id } => json!({"op":"remove","id":crate::bencode::hex(id)}),
        Op::Rekey { id } => json!({"op":"reset_id","id":crate::bencode::hex(id)}),
        Op::Advance { ns } => json!({"op":"advance","ns":ns}),
    }
}

fn pub_ip(rng: &mut Rng) -> Ipv4Addr {
    loop {
        let ip = Ipv4Addr::from(rng.u32());
        let o = ip.octets();
        if o[0] == 0 || o[0] >= 224 || crate::crc32c::ip_exempt(ip) {
            continue;
        }
        return ip;
    }
}

struct Gen {
    table_id: [u8; 20],
    hot: Vec<u8>,
    ips: Vec<Ipv4Addr>,
    known: Vec<Entry>,
    profile: usize,
}

impl Gen {
    fn next(&mut self, rng: &mut Rng) -> Op {
        let roll = rng.usize(100);
        let (p_adv, p_rm, p_rekey) = match self.profile {
            0 => (6, 4, 1),
            1 => (15, 2, 0),
            2 => (4, 10, 4),
            _ => (8, 5, 2),
        };
        if roll < p_adv {
            let ns = *rng.pick(&[0u64, SEC, 14 * MIN + 59 * SEC, 15 * MIN - 1, 15 * MIN, 15 * MIN + 1, 15 * MIN + SEC, 5 * MIN, 60 * MIN, 7 * MIN + 30 * SEC]);
            return Op::Advance { ns };
        }
        if roll < p_adv + p_rm && !self.known.is_empty() {
            let id = if rng.chance(4, 5) { rng.pick(&self.known).0 } else { rng.array() };
            return Op::Remove { id };
        }
        if roll < p_adv + p_rm + p_rekey {
            let id = match rng.usize(5) {
                0 if !self.known.is_empty() => rng.pick(&self.known).0, // distance 0 to an existing member
                1 => bep42_mint(pub_ip(rng), rng.u32() as u8, rng.array()),
                2 => self.table_id,
                3 => {
                    let d = *rng.pick(&self.hot);
                    id_at(&self.table_id, d, rng)
                }
                _ => rng.array(),
            };
            self.table_id = id;
            return Op::Rekey { id };
        }
        // add
        let ip = match rng.usize(6) {
            0 => Ipv4Addr::new(10, 0, rng.usize(2) as u8, rng.usize(4) as u8),
            1 | 2 => *rng.pick(&self.ips),
            _ => {
                let ip = pub_ip(rng);
                if self.ips.len() < 12 {
                    self.ips.push(ip);
                }
                ip
            }
        };
        let port = 1000 + rng.usize(5) as u16;
        let mut id = match rng.usize(10) {
            0 => self.table_id, // self
            1 | 2 if !self.known.is_empty() => rng.pick(&self.known).0, // repeated id (changed port / IP / security)
            3 => rng.array(),
            _ => {
                let d = *rng.pick(&self.hot);
                id_at(&self.table_id, d, rng)
            }
        };
        if rng.chance(1, 3) && id != self.table_id {
            // secure for this ip (keeps the low bits, so hot distances mostly survive only by luck)
            id = bep42_mint(ip, rng.u32() as u8, id);
        } else if rng.chance(1, 6) && !self.known.is_empty() {
            // same 21-bit prefix as a known node, on its IP
            let k = *rng.pick(&self.known);
            let mut j: [u8; 20] = rng.array();
            j[0] = k.0[0];
            j[1] = k.0[1];
            j[2] = (k.0[2] & 0xf8) | (j[2] & 7);
            j[19] = k.0[19];
            let e = (j, SocketAddrV4::new(*k.1.ip(), port));
            self.known.push(e);
            return Op::Add { id: j, addr: e.1, created_ago: 0 };
        }
        let created_ago = if rng.chance(1, 8) { *rng.pick(&[SEC, 10 * MIN, 15 * MIN, 15 * MIN + 1, 20 * MIN]) } else { 0 };
        let e = (id, SocketAddrV4::new(ip, port));
        if self.known.len() < 400 {
            self.known.push(e);
        }
        Op::Add { id, addr: e.1, created_ago }
    }
}

struct View {
    id: [u8; 20],
    /// (id, addr, age ns) in iteration order
    nodes: Vec<([u8; 20], SocketAddrV4, u64)>,
    buckets: Vec<(u8, Vec<[u8; 20]>)>,
}

fn view(t: &RoutingTable) -> View {
    let s = table_snapshot(t);
    View {
        id: *s.id.as_bytes(),
        nodes: s.nodes.iter().map(|(id, a, age)| (*id.as_bytes(), *a, age.as_nanos() as u64)).collect(),
        buckets: s.buckets.iter().map(|(d, ids)| (*d, ids.iter().map(|i| *i.as_bytes()).collect())).collect(),
    }
}

fn structural(r: &mut Report, t: &RoutingTable, v: &View, case: &dyn Fn() -> Value) -> bool {
    let mut ok = true;
    let mut fail = |r: &mut Report, sig: &str, what: &str, detail: Value| {
        r.violation(sig, what, case(), detail);
        ok = false;
    };
    let ids: HashSet<[u8; 20]> = v.nodes.iter().map(|n| n.0).collect();
    if ids.contains(&v.id) {
        fail(r, "invariant/contains-own-id", "table contains its own id", json!({}));
    }
    if ids.len() != v.nodes.len() {
        fail(r, "invariant/duplicate-id", "two entries with one id", json!({}));
    }
    for (d, b) in &v.buckets {
        if b.len() > 20 {
            fail(r, "invariant/bucket-over-20", "a bucket holds more than 20 entries", json!({"bucket": d, "len": b.len()}));
        }
        for id in b {
            if distance(&v.id, id) != *d {
                fail(r, "invariant/wrong-bucket", "entry is not in the bucket of its distance to the table id", json!({"bucket": d, "distance": distance(&v.id, id), "id": crate::bencode::hex(id)}));
            }
        }
    }
    let in_buckets: usize = v.buckets.iter().map(|b| b.1.len()).sum();
    if in_buckets != v.nodes.len() {
        fail(r, "invariant/iteration-vs-buckets", "nodes() does not visit every bucket entry exactly once", json!({"iter": v.nodes.len(), "buckets": in_buckets}));
    }
    if t.size() != v.nodes.len() || t.is_empty() != (v.nodes.is_empty()) || t.to_owned_nodes().len() != v.nodes.len() {
        fail(r, "invariant/size-iteration-is_empty", "size(), nodes() and is_empty() disagree", json!({"size": t.size(), "iter": v.nodes.len(), "is_empty": t.is_empty()}));
    }
    // to_bootstrap = addresses of non-stale entries
    let mut want: Vec<String> = v.nodes.iter().filter(|n| n.2 <= 15 * MIN).map(|n| n.1.to_string()).collect();
    let mut got = t.to_bootstrap();
    want.sort();
    got.sort();
    if want != got {
        fail(r, "invariant/to_bootstrap", "to_bootstrap() is not the addresses of the entries heard from within 15 minutes", json!({"got": got.len(), "want": want.len()}));
    }
    // per IP: at most one insecure entry; no two secure entries with the same 21-bit prefix
    let mut per_ip: HashMap<Ipv4Addr, Vec<&([u8; 20], SocketAddrV4, u64)>> = HashMap::new();
    for n in &v.nodes {
        per_ip.entry(*n.1.ip()).or_default().push(n);
    }
    for (ip, ns) in per_ip {
        let insecure = ns.iter().filter(|n| !bep42_valid(&n.0, ip)).count();
        if insecure > 1 {
            fail(r, "sybil/two-insecure-per-ip", "more than one non-BEP42-secure entry for one IP", json!({"ip": ip.to_string(), "count": insecure}));
        }
        let mut pre = HashSet::new();
        for n in ns.iter().filter(|n| bep42_valid(&n.0, ip)) {
            if !pre.insert(id_prefix21(&n.0)) {
                fail(r, "sybil/secure-same-prefix-per-ip", "two secure entries on one IP share their 21-bit prefix", json!({"ip": ip.to_string()}));
            }
        }
    }
    ok
}

/// A directed history for the replacement rule: one bucket is filled to 20 entries a second apart, some of its
/// members (not the newest) are heard from again - which moves them to the back of the least-recently-seen
/// order -, more than 15 minutes pass, some members are refreshed once more, and new ids arrive for that
/// bucket one after the other. Each arrival may only replace the entry that was heard from longest ago.
pub fn refresh_order_sequence(r: &mut Report, clock: &Clock, rng: &mut Rng, case_id: u64) {
    let table_id: [u8; 20] = rng.array();
    let bucket_byte = rng.usize(3); // the bucket at distance 160, 159 or 158 .. (first differing bit within the first byte)
    let in_bucket = |rng: &mut Rng| -> [u8; 20] {
        let mut id: [u8; 20] = rng.array();
        // same prefix as the table id up to bit `bucket_byte`, that bit flipped
        let mask: u8 = 0x80 >> bucket_byte;
        let keep: u8 = !(0xffu8 >> bucket_byte);
        id[0] = (table_id[0] & keep) | ((table_id[0] ^ mask) & mask) | (id[0] & (mask - 1));
        id
    };
    let mut ops = vec![Op::Rekey { id: table_id }];
    let mut members: Vec<Entry> = vec![];
    for _ in 0..20 {
        let e = (in_bucket(rng), SocketAddrV4::new(pub_ip(rng), 6881));
        members.push(e);
        ops.push(Op::Add { id: e.0, addr: e.1, created_ago: 0 });
        ops.push(Op::Advance { ns: 1_000_000_000 });
    }
    for round in 0..2 {
        let k = 1 + rng.usize(8);
        for _ in 0..k {
            let e = members[rng.usize(members.len() - 1)];
            ops.push(Op::Add { id: e.0, addr: e.1, created_ago: 0 });
            ops.push(Op::Advance { ns: 1_000_000_000 + rng.below(5_000_000_000) });
        }
        if round == 0 {
            ops.push(Op::Advance { ns: (15 * 60 + 1 + rng.below(300)) * 1_000_000_000 });
        }
    }
    for _ in 0..1 + rng.usize(6) {
        ops.push(Op::Add { id: in_bucket(rng), addr: SocketAddrV4::new(pub_ip(rng), 6881), created_ago: 0 });
        ops.push(Op::Advance { ns: 1_000_000_000 });
    }
    r.count("refresh_order_sequences");
    run_sequence(r, clock, rng, 0, case_id, Some(ops));
}

pub fn run_sequence(r: &mut Report, clock: &Clock, rng: &mut Rng, len: usize, case_id: u64, replay_ops: Option<Vec<Op>>) {
    let table_id: [u8; 20] = if rng.chance(1, 4) { bep42_mint(pub_ip(rng), 3, rng.array()) } else { rng.array() };
    let mut hot: Vec<u8> = vec![160, 159, 158];
    for _ in 0..rng.usize(4) {
        hot.push(150 + rng.usize(11) as u8);
    }
    let mut g = Gen { table_id, hot, ips: vec![pub_ip(rng), pub_ip(rng)], known: vec![], profile: rng.usize(4) };
    let mut table = RoutingTable::new(Id::from(table_id));
    let mut ops: Vec<Op> = Vec::new();
    let mut ordered_history = true; // bucket order == last-seen order (no re-key, nodes created at add time)
    let (mut full_hits, mut ip_rejects, mut stale_repl) = (0u64, 0u64, 0u64);
    let n = replay_ops.as_ref().map(|o| o.len()).unwrap_or(len);
    for step in 0..n {
        let op = match &replay_ops {
            Some(o) => o[step].clone(),
            None => g.next(rng),
        };
        ops.push(op.clone());
        let before = view(&table);
        r.eval();
        let case = || json!({"class":"sequence","case":case_id,"table_id":crate::bencode::hex(&table_id),"ops": ops.iter().map(op_json).collect::<Vec<_>>() });
        match &op {
            Op::Advance { ns } => {
                clock.0.fetch_add(*ns, Ordering::SeqCst);
            }
            Op::Remove { id } => {
                table.remove(&Id::from(*id));
                let after = view(&table);
                let b: Vec<_> = before.nodes.iter().filter(|x| x.0 != *id).map(|x| (x.0, x.1)).collect();
                let a: Vec<_> = after.nodes.iter().map(|x| (x.0, x.1)).collect();
                if a != b {
                    r.violation("remove/not-exactly-that-id", "remove(id) did not remove exactly the entry with that id", case(), json!({}));
                    return;
                }
            }
            Op::Rekey { id } => {
                reset_id(&mut table, Id::from(*id));
                if !before.nodes.is_empty() {
                    ordered_history = false;
                }
                let after = view(&table);
                if after.id != *id {
                    r.violation("rekey/id-not-set", "reset_id did not change the table id", case(), json!({}));
                    return;
                }
                // re-keying may drop entries (own id, full buckets) but must not invent or duplicate any
                let b: HashSet<Entry> = before.nodes.iter().map(|x| (x.0, x.1)).collect();
                if after.nodes.iter().any(|x| !b.contains(&(x.0, x.1))) {
                    r.violation("rekey/invented-entry", "reset_id produced an entry that was not in the table", case(), json!({}));
                    return;
                }
                r.count("rekeys");
            }
            Op::Add { id, addr, created_ago } => {
                let now = clock.0.load(Ordering::SeqCst);
                // create the node in the past if asked: rewind, create, restore
                clock.0.store(now - (*created_ago).min(now), Ordering::SeqCst);
                let node = Node::new(Id::from(*id), *addr);
                clock.0.store(now, Ordering::SeqCst);
                if *created_ago > 0 {
                    ordered_history = false;
                }
                let ok = table.add(node);
                let after = view(&table);
                let b: Vec<Entry> = before.nodes.iter().map(|x| (x.0, x.1)).collect();
                let a: Vec<Entry> = after.nodes.iter().map(|x| (x.0, x.1)).collect();
                if ok {
                    if !a.contains(&(*id, *addr)) {
                        r.violation("add/true-but-absent", "add() returned true but the node is not in the table", case(), json!({}));
                        return;
                    }
                    // entries that disappeared, other than a previous entry with the same id
                    let gone: Vec<&([u8; 20], SocketAddrV4, u64)> = before.nodes.iter().filter(|x| x.0 != *id && !a.contains(&(x.0, x.1))).collect();
                    if gone.len() > 1 {
                        r.violation("add/evicted-more-than-one", "one add() removed more than one other entry", case(), json!({"gone": gone.len()}));
                        return;
                    }
                    if let Some(g0) = gone.first() {
                        let d = distance(&before.id, id);
                        let bucket = before.buckets.iter().find(|b| b.0 == d);
                        let bl = bucket.map(|b| b.1.len()).unwrap_or(0);
                        if distance(&before.id, &g0.0) != d || bl < 20 {
                            r.violation("add/evicted-from-non-full-bucket", "add() evicted an entry although the target bucket was not full (or from another bucket)", case(), json!({"bucket_len": bl}));
                            return;
                        }
                        if g0.2 <= 15 * MIN {
                            r.violation("add/evicted-fresh-node", "add() evicted an entry heard from within the last 15 minutes", case(), json!({"age_ns": g0.2, "evicted": crate::bencode::hex(&g0.0)}));
                            return;
                        }
                        if ordered_history {
                            let oldest = before.nodes.iter().filter(|x| distance(&before.id, &x.0) == d).map(|x| x.2).max().unwrap_or(0);
                            if g0.2 < oldest {
                                r.violation("add/evicted-not-least-recently-seen", "add() evicted an entry that is not the least recently seen of its bucket", case(), json!({"age_ns": g0.2, "oldest_ns": oldest}));
                                return;
                            }
                        }
                        stale_repl += 1;
                    }
                } else {
                    if a != b {
                        r.violation("add/false-but-changed", "add() returned false but the table changed", case(), json!({}));
                        return;
                    }
                    let d = distance(&before.id, id);
                    if before.buckets.iter().any(|b| b.0 == d && b.1.len() >= 20) {
                        full_hits += 1;
                    } else if before.nodes.iter().any(|x| x.1.ip() == addr.ip()) {
                        ip_rejects += 1;
                    }
                }
            }
        }
        let v = view(&table);
        if !structural(r, &table, &v, &case) {
            return;
        }
    }
    r.add("full_bucket_rejections", full_hits);
    r.add("ip_rule_rejections", ip_rejects);
    r.add("stale_replacements", stale_repl);
    r.add("ops", n as u64);
    if full_hits > 0 || ip_rejects > 0 || stale_repl > 0 {
        r.nontrivial(mix(case_id, n as u64));
    }
    if r.want_sample() && stale_repl > 0 {
        r.sample(json!({"ops_total": ops.len(), "full_bucket_rejections": full_hits, "ip_rule_rejections": ip_rejects, "stale_replacements": stale_repl, "first_ops": ops.iter().take(6).map(op_json).collect::<Vec<_>>() }));
    }
}

fn parse_ops(v: &Value) -> Vec<Op> {
    let unhex20 = |s: &str| -> [u8; 20] { crate::bencode::unhex(s).try_into().unwrap_or([0; 20]) };
    v.as_array()
        .map(|a| {
            a.iter()
                .filter_map(|o| match o["op"].as_str()? {
                    "add" => Some(Op::Add { id: unhex20(o["id"].as_str()?), addr: o["addr"].as_str()?.parse().ok()?, created_ago: o["created_ago_ns"].as_u64()? }),
                    "remove" => Some(Op::Remove { id: unhex20(o["id"].as_str()?) }),
                    "reset_id" => Some(Op::Rekey { id: unhex20(o["id"].as_str()?) }),
                    "advance" => Some(Op::Advance { ns: o["ns"].as_u64()? }),
                    _ => None,
                })
                .collect()
        })
        .unwrap_or_default()
}

pub fn run(a: &Args) -> Report {
    let mut r = Report::new("C12");
    let clock = Arc::new(Clock(AtomicU64::new(100_000 * SEC)));
    set_env(Some(clock.clone()));
    if let Some(path) = &a.replay {
        let v: Value = serde_json::from_str(&std::fs::read_to_string(path).unwrap_or_default()).unwrap_or_default();
        let ops = parse_ops(&v["case"]["ops"]);
        let mut rng = Rng::new(1);
        // the table id is restored by a leading re-key
        let mut all = vec![Op::Rekey { id: crate::bencode::unhex(v["case"]["table_id"].as_str().unwrap_or("")).try_into().unwrap_or([0; 20]) }];
        all.extend(ops);
        run_sequence(&mut r, &clock, &mut rng, 0, 0, Some(all));
        set_env(None);
        return r;
    }
    let seqs: u64 = if a.quick() { 8_000 } else { 200_000 };
    let per = seqs / a.nshards.max(1);
    let mut rng = Rng::new(mix(a.seed, 0xc12 + a.shard));
    for c in 0..per {
        let len = *rng.pick(&[30usize, 80, 200, 600, 1500]);
        let len = if a.quick() { len.min(600) } else { len };
        run_sequence(&mut r, &clock, &mut rng, len, mix(a.seed, a.shard << 32 | c), None);
        if c % 4 == 0 {
            refresh_order_sequence(&mut r, &clock, &mut rng, mix(a.seed, a.shard << 32 | c | 1 << 60));
        }
    }
    set_env(None);
    r
}

//! C17 — local write-conflict detection for concurrent mutable puts; 301/302 majority rule.
use super::net::*;
use crate::bencode::B;
use crate::krpc::*;
use crate::report::Report;
use crate::rng::{mix, Rng};
use crate::sha1::mutable_target;
use crate::simnet::*;
use crate::Args;
use dht::errors::{ConcurrencyError, PutError, PutMutableError};
use dht::verif::{put_raw, PutMutableRequestArguments, PutRequestSpecific};
use dht::{Id, MutableItem, SigningKey};
use futures_lite::StreamExt;
use serde_json::{json, Value};
use std::collections::{HashMap, HashSet};
use std::net::{Ipv4Addr, SocketAddrV4};
use std::sync::{Arc, Mutex};

#[derive(Clone, Copy, Debug, PartialEq, Eq)]
pub enum Phase {
    SameTick,
    DuringLookup,
    DuringStore,
    AfterWarm,
    AfterCold,
    /// as DuringStore, but the first caller has given up waiting (its future is dropped) - the write itself is
    /// still in flight on the node
    DuringStoreAbandoned,
}
pub const PHASES: [Phase; 6] = [Phase::SameTick, Phase::DuringLookup, Phase::DuringStore, Phase::AfterWarm, Phase::AfterCold, Phase::DuringStoreAbandoned];

#[derive(Clone, Copy, Debug, PartialEq, Eq)]
pub struct Rel {
    pub same_item: bool,
    /// -1 lower, 0 equal, 1 higher
    pub seq: i8,
    /// 0 none, 1 = first's seq, 2 other
    pub cas: u8,
    /// 0 same key+salt, 1 same key other salt, 2 other key; 3 and 4: the same key without a salt, spelt
    /// differently by the two calls (3: first `None`, second `Some(b"")`; 4: the other way round) - BEP44
    /// makes an empty salt and no salt the same item, so these are the same target
    pub target: u8,
    /// the first call carries a cas of its own (nothing is stored yet, so the storing nodes accept it)
    pub first_cas: bool,
}

#[derive(Clone, Debug)]
pub struct Case {
    pub seed: u64,
    pub servers: usize,
    pub phase: Phase,
    pub rel: Rel,
}
fn case_json(c: &Case) -> Value {
    json!({"class":"overlap","seed":c.seed.to_string(),"servers":c.servers,"phase":format!("{:?}",c.phase),"rel":{"same_item":c.rel.same_item,"seq":c.rel.seq,"cas":c.rel.cas,"target":c.rel.target,"first_cas":c.rel.first_cas}})
}

fn short(r: &Option<Result<Id, PutMutableError>>) -> String {
    match r {
        None => "did-not-complete".into(),
        Some(Ok(_)) => "Ok".into(),
        Some(Err(PutMutableError::Concurrency(ConcurrencyError::ConflictRisk))) => "ConflictRisk".into(),
        Some(Err(PutMutableError::Concurrency(ConcurrencyError::NotMostRecent))) => "NotMostRecent".into(),
        Some(Err(PutMutableError::Concurrency(ConcurrencyError::CasFailed))) => "CasFailed".into(),
        Some(Err(PutMutableError::Query(q))) => format!("Query({q:?})"),
    }
}

pub fn overlap_scenario(r: &mut Report, c: &Case) {
    r.eval();
    let mut rng = Rng::new(c.seed);
    let w = World::with_cfg(c.seed, NetCfg { lat_min: 20 * MS, lat_max: 60 * MS, random_ties: false }, TraceLevel::Off);
    let net = build_net(&w, c.servers, 0, IpPlan::PublicSecure, false, &mut rng);
    let x = w.spawn(NodeSpec::client(Ipv4Addr::new(35, 5, 5, 5), &[net.boot])).expect("x");
    w.block_on(x.adht.bootstrapped(), 60 * SEC);
    w.run_for(2 * SEC);
    let xaddr = x.addr;
    let case = case_json(c);
    let signer = SigningKey::from_bytes(&rng.array::<32>());
    let other_signer = SigningKey::from_bytes(&rng.array::<32>());
    let salt: Option<&[u8]> = match c.rel.target {
        3 => None,
        4 => Some(b""),
        _ => Some(b"salt-one"),
    };
    let same_target = matches!(c.rel.target, 0 | 3 | 4);
    let s1: i64 = 10;
    let i1 = MutableItem::new(&signer, b"first value", s1, salt);
    let s2 = s1 + c.rel.seq as i64;
    let i2 = if c.rel.same_item && c.rel.target == 0 {
        i1.clone()
    } else {
        let (sg, sl): (&SigningKey, Option<&[u8]>) = match c.rel.target {
            0 => (&signer, salt),
            1 => (&signer, Some(b"salt-two")),
            3 => (&signer, Some(b"")),
            4 => (&signer, None),
            _ => (&other_signer, salt),
        };
        MutableItem::new(sg, b"second value", s2, sl)
    };
    let cas = match c.rel.cas {
        0 => None,
        1 => Some(s1),
        _ => Some(s1 + 5),
    };
    // store phase control: replies to X's store requests are held back 300 ms
    let put_tids: Arc<Mutex<(HashSet<Vec<u8>>, bool)>> = Arc::new(Mutex::new((HashSet::new(), false)));
    let pt2 = put_tids.clone();
    w.set_fault(Some(Box::new(move |info: &SendInfo| {
        let k = Krpc::parse(info.bytes)?;
        let mut g = pt2.lock().unwrap_or_else(|e| e.into_inner());
        if info.from == xaddr && k.is_query("put") {
            g.0.insert(k.t.clone());
            g.1 = true;
            None
        } else if info.to == xaddr && k.y != b'q' && g.0.contains(&k.t) {
            Some(vec![(info.bytes.to_vec(), info.latency + 300 * MS)])
        } else {
            None
        }
    })));
    let a1 = x.adht.clone();
    let item1 = i1.clone();
    let cas1 = if c.rel.first_cas { Some(s1 - 3) } else { None };
    let mut t1: Task<Result<Id, PutMutableError>> = Task::new(w.now(), async move { a1.put_mutable(item1, cas1).await });
    let t_first = w.now();
    // place the second call
    let bound = 120 * SEC;
    let end = w.now() + bound;
    match c.phase {
        Phase::SameTick => {}
        Phase::DuringLookup => {
            w.run_for(30 * MS);
        }
        Phase::DuringStore | Phase::DuringStoreAbandoned => {
            while !put_tids.lock().unwrap_or_else(|e| e.into_inner()).1 && w.now() < end {
                w.step_until(end);
                t1.poll(w.now());
            }
            w.run_for(5 * MS);
        }
        Phase::AfterWarm | Phase::AfterCold => {
            while !t1.poll(w.now()) && w.now() < end {
                w.step_until(end);
            }
            w.run_for(if c.phase == Phase::AfterWarm { 200 * MS } else { 6 * MIN });
        }
    }
    t1.poll(w.now());
    // is the first put still in flight on X? (ground truth from the snapshot hook)
    let target1 = Id::from(mutable_target(i1.key(), i1.salt()));
    let in_flight = if matches!(c.phase, Phase::SameTick) {
        true // the first call's message is queued ahead of the second one, both handled in order
    } else {
        snapshot(&w, &x).map(|s| s.put_queries.contains(&target1)).unwrap_or(false)
    };
    t1.poll(w.now());
    let first_done_before = t1.done();
    let abandoned = c.phase == Phase::DuringStoreAbandoned && !first_done_before;
    if abandoned {
        // the caller walks away: the future (and with it the receiving end of the result channel) is dropped
        t1 = Task::new(w.now(), async { Ok(Id::from([0u8; 20])) });
        r.count("first_caller_gave_up_during_the_store_phase");
    }
    let a2 = x.adht.clone();
    let item2 = i2.clone();
    let mut t2: Task<Result<Id, PutMutableError>> = Task::new(w.now(), async move { a2.put_mutable(item2, cas).await });
    let end = w.now() + bound;
    while (!t1.poll(w.now()) || !t2.poll(w.now())) && w.now() < end {
        if !matches!(w.step_until(end), Step::Node(_) | Step::Raw(_)) {
            break;
        }
    }
    w.set_fault(None);
    w.run_for(3 * SEC);
    let (r1, r2) = (t1.result.take(), t2.result.take());
    let (s_r1, s_r2) = (short(&r1), short(&r2));
    let detail = json!({"first": s_r1, "second": s_r2, "first_in_flight_at_second_call": in_flight, "first_done_before_second": first_done_before, "t_first_ms": (w.now() - t_first) / MS});
    let fail = |r: &mut Report, sig: &str, what: &str| r.violation(&format!("{sig}/{:?}", c.phase), what, case.clone(), detail.clone());
    if r1.is_none() || r2.is_none() {
        fail(r, "overlap/did-not-complete", "a put_mutable call did not complete");
    } else if !same_target {
        // controls: other salt / other key never interfere
        if s_r1 != "Ok" || s_r2 != "Ok" {
            fail(r, "control/interference", "puts for another salt or key affected each other");
        }
        r.count("controls");
    } else if in_flight && !first_done_before && c.rel.same_item && c.rel.cas == 2 && matches!(c.phase, Phase::DuringStore | Phase::DuringStoreAbandoned) {
        // identical item, but with a cas that matches nothing, after the first call's requests went out: the storing
        // nodes hold the item by now and answer 301 to the repeated write - their verdict, not a local rule
        r.count("identical_item_with_foreign_cas_during_store_phase_not_judged");
    } else if in_flight && !first_done_before {
        let want2 = if c.rel.same_item {
            "Ok"
        } else if c.rel.seq < 0 {
            "NotMostRecent"
        } else if c.rel.cas == 0 {
            "ConflictRisk"
        } else if c.rel.cas == 1 {
            "Ok"
        } else {
            "CasFailed"
        };
        if s_r2 != want2 {
            let rule = if c.rel.same_item { "identical-item" } else if c.rel.seq < 0 { "lower-seq" } else if c.rel.cas == 0 { "different-item-no-cas" } else if c.rel.cas == 1 { "cas-matches-in-flight-seq" } else { "cas-mismatch" };
            fail(r, &format!("in-flight-rule/{rule}/got-{s_r2}"), &format!("second put_mutable while the first is in flight: expected {want2}, got {s_r2}"));
        }
        if s_r1 != "Ok" && !abandoned {
            fail(r, &format!("in-flight-rule/first-call/got-{s_r1}"), "the first put_mutable did not succeed");
        }
        // superseding write with a higher seq: the servers end with the second item
        if c.rel.cas == 1 && c.rel.seq > 0 && s_r2 == "Ok" {
            let reader = &net.nodes[rng.usize(net.nodes.len())];
            let a = reader.adht.clone();
            let (k, sl) = (*i2.key(), i2.salt().map(|s| s.to_vec()));
            let items = w.block_on(async move { a.get_mutable(&k, sl.as_deref(), None).collect::<Vec<_>>().await }, 60 * SEC).unwrap_or_default();
            if !items.is_empty() && items.iter().any(|i| i.seq() != i2.seq()) {
                fail(r, "in-flight-rule/supersede/old-item-survives", "after a superseding put (cas = in-flight seq, higher seq) a server still serves the superseded item");
            }
        }
        r.count("second_call_while_first_in_flight");
        r.nontrivial(mix(c.seed, crate::rng::fnv(format!("{:?}{:?}", c.phase, c.rel).as_bytes())));
    } else {
        // the first put completed: the storing nodes decide
        let want2 = if c.rel.same_item {
            "Ok"
        } else if c.rel.cas == 2 {
            "CasFailed"
        } else if c.rel.seq < 0 {
            "NotMostRecent"
        } else {
            "Ok"
        };
        if s_r1 != "Ok" {
            fail(r, &format!("after-completion/first-call/got-{s_r1}"), "the first put_mutable did not succeed");
        } else if c.rel.same_item && c.rel.cas == 2 && (s_r2 == "Ok" || s_r2 == "CasFailed") {
            // the stored item again, with a cas that differs from the stored seq: both BEP44 rules apply, either verdict is allowed
            r.count("same_item_with_foreign_cas_after_completion_either_way");
        } else if s_r2 != want2 {
            fail(r, &format!("after-completion/expected-{want2}/got-{s_r2}"), &format!("second put_mutable after the first completed: the storing nodes' verdict should surface as {want2}, got {s_r2}"));
        }
        r.count("second_call_after_completion");
        if c.rel.cas == 2 || c.rel.seq < 0 {
            r.nontrivial(mix(c.seed, crate::rng::fnv(format!("{:?}{:?}", c.phase, c.rel).as_bytes())));
        }
    }
    if r.want_sample() && in_flight {
        r.sample(json!({"case": case, "detail": detail}));
    }
    drop(x);
    drop(net);
    for (thread, loc, msg) in crate::take_panics() {
        r.violation(&format!("panic/{loc}"), &format!("thread {thread} panicked: {msg}"), case.clone(), json!({}));
    }
}

/// Majority rule with scripted storing nodes: n <= 5, every split of 301 / 302 / ack.
/// kind: 0 put_mutable (with cas), 1 put_immutable, 2 announce_peer, 3 announce_signed_peer, 4 put_mutable without cas,
/// 5 put_mutable with cas where the second half of the contacted nodes are EXTRA storing nodes (handed to the put
/// by the caller with tokens of an earlier lookup; the put's own lookup does not find them)
pub fn majority_scenario(r: &mut Report, seed: u64, fates: &[u8], kind: u8) {
    r.eval();
    let mut rng = Rng::new(seed);
    let w = World::with_cfg(seed, NetCfg { lat_min: MS, lat_max: 30 * MS, random_ties: true }, TraceLevel::Off);
    let n = fates.len();
    let case = json!({"class":"majority","seed":seed.to_string(),"fates":fates,"kind":kind});
    // kind 6: a mutable put with cas whose storing nodes share IP addresses (several nodes of one host, on
    // different ports: every node has a vote of its own)
    let hosts = if kind == 6 { 1 + rng.usize(2) } else { n.max(1) };
    let ends: Vec<([u8; 20], SocketAddrV4)> = (0..n).map(|i| (rng.array(), if kind == 6 { SocketAddrV4::new(Ipv4Addr::new(10, 7, 1, 1 + (i % hosts) as u8), 6881 + (i / hosts) as u16) } else { SocketAddrV4::new(Ipv4Addr::new(10, 7, 0, 1 + i as u8), 6881) })).collect();
    let socks: Vec<SockId> = ends.iter().map(|e| w.raw(e.1)).collect();
    let index: HashMap<SockId, usize> = socks.iter().enumerate().map(|(i, s)| (*s, i)).collect();
    let (ends2, fates2) = (ends.clone(), fates.to_vec());
    let asked_to_store = std::rc::Rc::new(std::cell::RefCell::new(HashSet::<usize>::new()));
    let asked2 = asked_to_store.clone();
    let signer = SigningKey::from_bytes(&rng.array::<32>());
    let put_target = crate::sha1::mutable_target(&signer.verifying_key().to_bytes(), None);
    let n_closest = if kind == 5 { (n + 1) / 2 } else { n };
    w.set_responder(Some(Box::new(move |w, sock, d| {
        let Some(q) = Krpc::parse(&d.bytes) else { return true };
        if q.y != b'q' {
            return true;
        }
        let i = index[&sock];
        let me = ends2[i].0;
        let bytes = if q.is_query("put") || q.is_query("announce_peer") || q.is_query("announce_signed_peer") {
            asked2.borrow_mut().insert(i);
            match fates2[i] {
                0 => response(&q.t, B::dict(vec![("id", B::bytes(&me))]), Some(&d.from), Some(&VERSION_RS6)).encode(),
                // every node words its error differently: only the code counts
                1 => error(&q.t, 301, &format!("cas mismatch (node {i})")).encode(),
                _ => error(&q.t, 302, &format!("sequence number less than current [{}]", i * 7)).encode(),
            }
        } else {
            // kind 5: lookups of the put's own target neither list the extra nodes nor get a token from them
            let for_put_target = kind == 5 && q.target() == Some(put_target);
            let listed: Vec<([u8; 20], SocketAddrV4)> = if for_put_target { ends2.iter().take(n_closest).copied().collect() } else { ends2.clone() };
            let mut rd = vec![("id", B::bytes(&me)), ("nodes", B::Bytes(nodes_bytes(&listed)))];
            if !q.is_query("find_node") && !q.is_query("ping") && !(for_put_target && i >= n_closest) {
                rd.push(("token", B::bytes(b"tokn")));
            }
            response(&q.t, B::dict(rd), Some(&d.from), Some(&VERSION_RS6)).encode()
        };
        w.raw_send(sock, &bytes, d.from);
        true
    })));
    let boots: Vec<SocketAddrV4> = ends.iter().map(|e| e.1).collect();
    let x = w.spawn(NodeSpec::client(Ipv4Addr::new(10, 7, 9, 9), &boots)).expect("x");
    w.block_on(x.adht.bootstrapped(), 60 * SEC);
    let item = MutableItem::new(&signer, b"v", 3, None);
    let ih = Id::from(rng.array::<20>());
    // kind 5: the extra storing nodes come from a lookup of another target
    let mut extras: Vec<dht::Node> = vec![];
    if kind == 5 {
        let a = x.adht.clone();
        let other = Id::from(rng.array::<20>());
        if let Some(nodes) = w.block_on(async move { a.get_closest_nodes(other).await }, 60 * SEC) {
            extras = nodes.iter().filter(|nd| ends.iter().skip(n_closest).any(|e| e.1 == nd.address())).cloned().collect();
        }
        r.count("majority_splits_with_extra_storing_nodes");
    }
    let request = match kind {
        0 | 5 | 6 => PutRequestSpecific::PutMutable(PutMutableRequestArguments::from(item, Some(2))),
        4 => PutRequestSpecific::PutMutable(PutMutableRequestArguments::from(item, None)),
        1 => {
            let v = rng.blob(3, 30);
            PutRequestSpecific::PutImmutable(dht::verif::PutImmutableRequestArguments { target: Id::from(crate::sha1::immutable_target(&v)), v: v.into_boxed_slice() })
        }
        2 => PutRequestSpecific::AnnouncePeer(dht::verif::AnnouncePeerRequestArguments { info_hash: ih, port: 4000, implied_port: None }),
        _ => {
            let ts = w.unix_micros();
            let sg = super::srv::sign_announce(&signer, ih.as_bytes(), ts);
            PutRequestSpecific::AnnounceSignedPeer(dht::verif::AnnounceSignedPeerRequestArguments { info_hash: ih, t: ts, k: sg.k, sig: sg.sig })
        }
    };
    let rx = put_raw(&x.dht, request, if extras.is_empty() { None } else { Some(extras.into_boxed_slice()) });
    let res = w.block_on(async move { rx.recv_async().await }, 120 * SEC);
    let (acks, e301, e302) = (fates.iter().filter(|f| **f == 0).count(), fates.iter().filter(|f| **f == 1).count(), fates.iter().filter(|f| **f == 2).count());
    let half = n / 2 + 1;
    let got = match &res {
        Some(Ok(Ok(_))) => "Ok".to_string(),
        Some(Ok(Err(PutError::Concurrency(ConcurrencyError::CasFailed)))) => "CasFailed".into(),
        Some(Ok(Err(PutError::Concurrency(ConcurrencyError::NotMostRecent)))) => "NotMostRecent".into(),
        Some(Ok(Err(e))) => format!("{e:?}"),
        other => format!("{other:?}"),
    };
    let detail = json!({"acks": acks, "e301": e301, "e302": e302, "half": half, "result": got});
    if kind == 6 {
        r.count("majority_splits_with_storing_nodes_sharing_an_ip");
        if asked_to_store.borrow().len() < n {
            // (the per-IP rules kept one of them out of the write set: the split the oracle assumes did not happen)
            r.count("majority_splits_shared_ip/not-every-node-was-written-to");
            drop(x);
            let _ = crate::take_panics();
            return;
        }
        r.count("majority_splits_shared_ip/every-node-was-written-to");
    }
    if kind != 0 && kind != 4 && kind != 5 && kind != 6 {
        // immutable and announce puts never end in a concurrency error, and one ack makes them succeed
        if got == "CasFailed" || got == "NotMostRecent" || got.contains("Concurrency") {
            r.violation("majority/concurrency-error-for-non-mutable-put", "CasFailed / NotMostRecent produced for an immutable or announce put", case.clone(), detail.clone());
        } else if acks >= 1 && got != "Ok" {
            r.violation("majority/non-mutable-put-failed-despite-ack", "an immutable or announce put failed although an acknowledgement was delivered", case.clone(), detail.clone());
        } else if acks == 0 && got == "Ok" {
            r.violation("majority/non-mutable-put-ok-without-ack", "an immutable or announce put returned Ok without any acknowledgement", case.clone(), detail.clone());
        }
        r.count("majority_splits_non_mutable");
    } else if e301 >= half && got != "CasFailed" {
        r.violation("majority/301-majority-not-cas-failed", "a majority of the storing nodes answered 301 but the put did not fail with CasFailed", case.clone(), detail.clone());
    } else if e302 >= half && got != "NotMostRecent" {
        r.violation("majority/302-majority-not-not-most-recent", "a majority of the storing nodes answered 302 but the put did not fail with NotMostRecent", case.clone(), detail.clone());
    } else if e301 < half && e302 < half && acks >= 1 && got != "Ok" {
        r.violation("majority/minority-3xx-but-failed", "3xx replies were a minority and an ack was delivered, but the put failed", case.clone(), detail.clone());
    } else if got == "CasFailed" && e301 == 0 || got == "NotMostRecent" && e302 == 0 {
        r.violation("majority/concurrency-error-without-3xx", "a concurrency error without any such reply", case.clone(), detail.clone());
    }
    r.count("majority_splits");
    if e301 + e302 > 0 {
        r.nontrivial(mix(seed, crate::rng::fnv(fates)));
    }
    drop(x);
    let _ = crate::take_panics();
}

/// No put in flight, no conflict: a first put_mutable FAILS to start (its lookup found no node that hands out
/// write tokens - NoClosestNodes) in the very tick in which that lookup's answers also report a new public
/// address for the node. Afterwards nothing is in flight for the key, so a second put_mutable (another item
/// without cas / a lower seq / a cas that matches nothing) must not be refused by the LOCAL conflict rules.
pub fn stale_put_scenario(r: &mut Report, seed: u64) {
    r.eval();
    let mut rng = Rng::new(seed);
    let w = World::with_cfg(seed, NetCfg { lat_min: MS, lat_max: 40 * MS, random_ties: true }, TraceLevel::Off);
    let n = 1 + rng.usize(4);
    let ends: Vec<([u8; 20], SocketAddrV4)> = (0..n).map(|i| (rng.array(), SocketAddrV4::new(Ipv4Addr::new(10, 8, 0, 1 + i as u8), 6881))).collect();
    let socks: Vec<SockId> = ends.iter().map(|e| w.raw(e.1)).collect();
    let vote_new = std::rc::Rc::new(std::cell::Cell::new(false));
    let address_changes = rng.bool();
    let second = rng.usize(3);
    let second_name = ["other item, no cas", "lower seq", "cas that matches nothing"][second];
    let case = json!({"class":"stale-put","seed":seed.to_string(),"endpoints":n,"address_vote_changes_with_the_failing_lookup":address_changes,"second_put":second_name});
    {
        let (ends2, socks2, vn) = (ends.clone(), socks.clone(), vote_new.clone());
        w.set_responder(Some(Box::new(move |w, sock, d| {
            let Some(i) = socks2.iter().position(|s| *s == sock) else { return false };
            let Some(q) = Krpc::parse(&d.bytes) else { return true };
            if q.y != b'q' {
                return true;
            }
            // answers list the other endpoints and never carry a write token
            let rd = vec![("id", B::bytes(&ends2[i].0)), ("nodes", B::Bytes(nodes_bytes(&ends2)))];
            let voted = if vn.get() { SocketAddrV4::new(Ipv4Addr::new(36, 6, 6, 6), 6881) } else { d.from };
            w.raw_send(sock, &response(&q.t, B::dict(rd), Some(&voted), Some(&VERSION_RS6)).encode(), d.from);
            true
        })));
    }
    let boots: Vec<SocketAddrV4> = ends.iter().map(|e| e.1).collect();
    let x = match w.spawn(NodeSpec::client(Ipv4Addr::new(35, 5, 5, 5), &boots)) {
        Ok(x) => x,
        Err(_) => return,
    };
    w.block_on(x.adht.bootstrapped(), 60 * SEC);
    w.run_for(2 * SEC);
    vote_new.set(address_changes);
    let signer = SigningKey::from_bytes(&rng.array::<32>());
    let i1 = MutableItem::new(&signer, b"first", 10, None);
    let r1 = w.block_on(x.adht.put_mutable(i1, None), 120 * SEC);
    w.run_for(2 * SEC);
    let i2 = match second {
        0 => (MutableItem::new(&signer, b"second", 11, None), None),
        1 => (MutableItem::new(&signer, b"second", 9, None), None),
        _ => (MutableItem::new(&signer, b"second", 11, None), Some(3)),
    };
    let r2 = w.block_on(x.adht.put_mutable(i2.0, i2.1), 120 * SEC);
    let (s1, s2) = (short(&r1), short(&r2));
    r.count("stale_put_scenarios");
    if s1.contains("NoClosestNodes") {
        r.count("stale_put/first_put_failed_to_start");
        if address_changes {
            r.count("stale_put/first_put_failed_to_start_while_the_address_vote_changed");
        }
        r.nontrivial(mix(seed, second as u64));
        if matches!(s2.as_str(), "ConflictRisk" | "NotMostRecent" | "CasFailed") {
            r.violation(&format!("no-put-in-flight/local-conflict-error/{s2}"), "put_mutable was refused by the local conflict rules although no put for that key was in flight (the earlier one had failed with NoClosestNodes)", case.clone(), json!({"first": s1, "second": s2}));
        }
    }
    if r1.is_none() || r2.is_none() {
        r.violation("stale-put/did-not-complete", "a put_mutable call did not complete", case.clone(), json!({"first": s1, "second": s2}));
    }
    drop(x);
    w.shutdown();
    for (thread, loc, msg) in crate::take_panics() {
        r.violation(&format!("panic/{loc}"), &format!("thread {thread} panicked: {msg}"), case.clone(), json!({}));
    }
}

pub fn run(a: &Args) -> Report {
    let mut r = Report::new("C17");
    if let Some(path) = &a.replay {
        let v: Value = serde_json::from_str(&std::fs::read_to_string(path).unwrap_or_default()).unwrap_or_default();
        let c = &v["case"];
        let seed = c["seed"].as_str().and_then(|s| s.parse().ok()).unwrap_or(1);
        if c["class"] == "stale-put" {
            super::guarded(&mut r, c.clone(), |r| stale_put_scenario(r, seed));
        } else if c["class"] == "majority" {
            let fates: Vec<u8> = c["fates"].as_array().map(|l| l.iter().map(|x| x.as_u64().unwrap_or(0) as u8).collect()).unwrap_or_default();
            let kind = c["kind"].as_u64().unwrap_or(0) as u8;
            super::guarded(&mut r, c.clone(), |r| majority_scenario(r, seed, &fates, kind));
        } else {
            let phase = PHASES.iter().find(|p| format!("{p:?}") == c["phase"].as_str().unwrap_or("")).copied().unwrap_or(Phase::SameTick);
            let rel = Rel { same_item: c["rel"]["same_item"].as_bool().unwrap_or(false), seq: c["rel"]["seq"].as_i64().unwrap_or(0) as i8, cas: c["rel"]["cas"].as_u64().unwrap_or(0) as u8, first_cas: c["rel"]["first_cas"].as_bool().unwrap_or(false), target: c["rel"]["target"].as_u64().unwrap_or(0) as u8 };
            let case = Case { seed, servers: c["servers"].as_u64().unwrap_or(4) as usize, phase, rel };
            super::guarded(&mut r, case_json(&case), |r| overlap_scenario(r, &case));
        }
        return r;
    }
    // the full (phase x relation) table, on several seeds
    let mut cases: Vec<Case> = vec![];
    let seeds = if a.quick() { 20 } else { 200 };
    for s in 0..seeds {
        for phase in PHASES {
            let mut rels = vec![
                Rel { same_item: true, seq: 0, cas: 0, target: 0, first_cas: false },
                Rel { same_item: true, seq: 0, cas: 1, target: 0, first_cas: false },
                Rel { same_item: true, seq: 0, cas: 2, target: 0, first_cas: false },
                Rel { same_item: true, seq: 0, cas: 0, target: 0, first_cas: true },
                Rel { same_item: true, seq: 0, cas: 2, target: 0, first_cas: true },
                Rel { same_item: false, seq: 1, cas: 1, target: 0, first_cas: true },
                Rel { same_item: false, seq: 1, cas: 0, target: 0, first_cas: true },
            ];
            for seq in [-1i8, 0, 1] {
                for cas in [0u8, 1, 2] {
                    rels.push(Rel { same_item: false, seq, cas, target: 0, first_cas: false });
                }
            }
            for target in [3u8, 4] {
                for (seq, cas) in [(-1i8, 0u8), (1, 0), (1, 2), (1, 1), (0, 0)] {
                    rels.push(Rel { same_item: false, seq, cas, target, first_cas: false });
                }
            }
            rels.push(Rel { same_item: false, seq: 0, cas: 0, target: 1, first_cas: false });
            rels.push(Rel { same_item: false, seq: -1, cas: 2, target: 2, first_cas: false });
            for rel in rels {
                cases.push(Case { seed: mix(a.seed, (s * 1000 + cases.len()) as u64), servers: 4 + s % 5, phase, rel });
            }
        }
    }
    for (i, c) in cases.iter().enumerate() {
        if i as u64 % a.nshards.max(1) != a.shard {
            continue;
        }
        super::guarded(&mut r, case_json(c), |r| overlap_scenario(r, c));
        r.count("overlap_scenarios");
    }
    // every split of ack / 301 / 302 over n = 1..5 storing nodes
    let mut code = 0u64;
    for n in 1..=5usize {
        for assignment in 0..3u32.pow(n as u32) {
            code += 1;
            if code % a.nshards.max(1) != a.shard {
                continue;
            }
            let mut x = assignment;
            let fates: Vec<u8> = (0..n).map(|_| { let f = (x % 3) as u8; x /= 3; f }).collect();
            let seed = mix(a.seed, 0x3a70 + code);
            super::guarded(&mut r, json!({"class":"majority","seed":seed.to_string(),"fates":fates,"kind":0}), |r| majority_scenario(r, seed, &fates, 0));
            // the same split for a mutable put that carries no cas (what the storing nodes answer is their business)
            let seed4 = mix(seed, 4);
            super::guarded(&mut r, json!({"class":"majority","seed":seed4.to_string(),"fates":fates,"kind":4}), |r| majority_scenario(r, seed4, &fates, 4));
            r.count("majority_splits_mutable_without_cas");
            if n >= 2 {
                let seed6 = mix(seed, 6);
                super::guarded(&mut r, json!({"class":"majority","seed":seed6.to_string(),"fates":fates,"kind":6}), |r| majority_scenario(r, seed6, &fates, 6));
                let seed5 = mix(seed, 5);
                super::guarded(&mut r, json!({"class":"majority","seed":seed5.to_string(),"fates":fates,"kind":5}), |r| majority_scenario(r, seed5, &fates, 5));
            }
            // the same split for one of the three non-mutable kinds
            let kind = 1 + (code % 3) as u8;
            let seed2 = mix(seed, kind as u64);
            super::guarded(&mut r, json!({"class":"majority","seed":seed2.to_string(),"fates":fates,"kind":kind}), |r| majority_scenario(r, seed2, &fates, kind));
        }
    }
    let mut rng = Rng::new(mix(a.seed, 0x57a1e + a.shard));
    for _ in 0..(if a.quick() { 320 } else { 6400 }) / a.nshards.max(1) {
        let seed = rng.u64();
        super::guarded(&mut r, json!({"class":"stale-put","seed":seed.to_string()}), |r| stale_put_scenario(r, seed));
    }
    r
}

//! Reduced workloads for the sanitizer / interpreter builds (Miri, ASan+LSan, TSan):
//! the same monitors as the property checks, sized for a 10^2..10^4 slowdown.
use crate::report::Report;
use crate::rng::{mix, Rng};
use crate::Args;
use serde_json::json;

fn has(a: &Args, flag: &str) -> bool {
    a.extra.iter().any(|x| x == flag)
}

/// In-process workloads (codec, ids, routing table, accumulator): Miri / ASan.
pub fn inproc(a: &Args) -> Report {
    let mut r = Report::new("sanit");
    let tiny = has(a, "tiny");
    // under Miri the workload is split into parts that run as parallel processes
    let part: Option<usize> = a.extra.iter().find_map(|x| x.strip_prefix("part=").and_then(|p| p.parse().ok()));
    let on = |p: usize| part.map(|x| x == p).unwrap_or(true);
    let mut rng = Rng::new(mix(a.seed, 0x5a21 + part.unwrap_or(0) as u64));
    // C10 / C05: codec on generated messages and the structured corpus
    let n_msgs = if !on(0) { 0 } else if tiny { 40 } else { 20_000 };
    for i in 0..n_msgs {
        let m = super::c10::gen_message(&mut rng, i);
        super::c10::check_message(&mut r, &m);
    }
    if on(0) {
        super::c10::check_examples(&mut r);
    }
    let temps = crate::corpus::templates(&mut rng, 1);
    let mut corpus = Vec::new();
    for (i, t) in temps.iter().enumerate() {
        if tiny && i % 5 != (a.seed % 5) as usize {
            continue;
        }
        crate::corpus::structured(t, &mut rng, &mut corpus);
        if !tiny {
            crate::corpus::raw_variants(&t.encode(), &mut corpus);
        }
    }
    if tiny {
        rng.shuffle(&mut corpus);
        corpus.truncate(if on(1) || on(2) || on(3) { 150 } else { 0 });
    }
    for d in &corpus {
        super::c05::decode_one(&mut r, d, "sanit");
    }
    r.add("corpus_datagrams", corpus.len() as u64);
    // C19: parser corpus and metric
    if on(4) {
    for s in ["", "+f", "zz", "€€€€€€€€€€€€€a", "0123456789abcdef0123456789abcdef01234567", "0123456789ABCDEF0123456789abcdef0123456é", "😀😀😀😀😀😀😀😀😀😀"] {
        super::c19::check_str(&mut r, s);
    }
    super::c19::metric(&mut r, &mut rng, if tiny { 1 } else { 20 });
    super::c19::misc_ips(&mut r, &mut rng, if tiny { 20 } else { 5000 });
    }
    // C11: tables and accumulators
    for c in 0..(if !on(5) { 0 } else if tiny { 3 } else { 400 }) {
        let target: [u8; 20] = rng.array();
        let size = *rng.pick(&[3usize, 8, 21, 30]);
        let (uni, feat) = super::c11::universe(&mut rng, &target, size);
        super::c11::check_table(&mut r, &mut rng, &uni, feat, &[target], c, None);
        super::c11::check_accumulator(&mut r, &mut rng, &uni, feat, &target, c);
    }
    // C12: operation sequences under the harness clock
    {
        use std::sync::atomic::AtomicU64;
        let clock = std::sync::Arc::new(super::c12::Clock(AtomicU64::new(100_000 * crate::simnet::SEC)));
        dht::verif::set_env(Some(clock.clone()));
        for c in 0..(if !on(6) { 0 } else if tiny { 2 } else { 200 }) {
            super::c12::run_sequence(&mut r, &clock, &mut rng, if tiny { 40 } else { 400 }, c, None);
        }
        dht::verif::set_env(None);
    }
    r.notes.insert("mode".into(), json!("inproc"));
    r
}

/// Whole nodes in SimNet: a few networks with put/get of every kind, hostile store churn on
/// capacity-1..3 servers, everything dropped before exit (leak check).
pub fn sim(a: &Args) -> Report {
    let mut r = Report::new("sanit");
    let tiny = has(a, "tiny");
    let mut rng = Rng::new(mix(a.seed, 0x51a));
    for i in 0..(if tiny { 1 } else { 12 }) {
        let p = super::c01::Params { seed: rng.u64(), servers: if tiny { 2 } else { 3 + i % 6 }, clients: if tiny { 0 } else { 1 }, plan: if tiny { 1 } else { i % 4 }, simultaneous: false, rounds: if tiny { 2 } else { 4 }, crash_mode: if tiny { 0 } else { i % 4 }, busy_reader: false };
        super::c01::scenario(&mut r, &p);
        r.count("networks");
    }
    for _ in 0..(if tiny { 0 } else { 40 }) {
        super::c20::store_scenario(&mut r, rng.u64());
        r.count("store_histories");
    }
    if !tiny {
        for _ in 0..10 {
            super::c20::workload_scenario(&mut r, rng.u64());
        }
    }
    r.notes.insert("mode".into(), json!("sim"));
    r
}

/// Free-running mode for ThreadSanitizer: no environment installed, real loopback sockets, real
/// time; several caller threads hammer one Dht with overlapping calls on few targets while an
/// exactly-once monitor watches every call (a real-time watchdog makes the run inconclusive).
pub fn free(a: &Args) -> Report {
    use dht::{Dht, Id, MutableItem, SigningKey, Testnet};
    use std::sync::atomic::{AtomicU64, Ordering};
    use std::sync::Arc;
    let mut r = Report::new("sanit");
    let tiny = has(a, "tiny");
    let testnet = match Testnet::new(if tiny { 4 } else { 6 }) {
        Ok(t) => t,
        Err(e) => {
            r.inconclusive(&format!("testnet: {e}"));
            return r;
        }
    };
    let dht = match Dht::builder().bootstrap(&testnet.bootstrap).build() {
        Ok(d) => d,
        Err(e) => {
            r.inconclusive(&format!("client: {e}"));
            return r;
        }
    };
    let threads = if tiny { 3 } else { 8 };
    let calls = if tiny { 6 } else { 60 };
    let completed = Arc::new(AtomicU64::new(0));
    let targets: Vec<Id> = (0..3).map(|i| Id::from([i as u8 + 1; 20])).collect();
    let signer = SigningKey::from_bytes(&[9; 32]);
    let mut handles = vec![];
    for t in 0..threads {
        let (d, done, targets, signer) = (dht.clone(), completed.clone(), targets.clone(), signer.clone());
        let seed = a.seed;
        handles.push(std::thread::spawn(move || {
            let mut rng = Rng::new(mix(seed, t as u64));
            for i in 0..calls {
                let target = *rng.pick(&targets);
                match rng.usize(8) {
                    0 => drop(d.find_node(target)),
                    1 => drop(d.get_closest_nodes(target)),
                    2 => drop(d.get_immutable(target)),
                    3 => drop(d.get_peers(target).count()),
                    4 => drop(d.put_immutable(format!("v{}", i % 3).as_bytes())),
                    5 => drop(d.put_mutable(MutableItem::new(&signer, b"same", 1, None), None)),
                    6 => drop(d.announce_peer(target, None)),
                    _ => drop(d.get_mutable(&signer.verifying_key().to_bytes(), None, None).count()),
                }
                done.fetch_add(1, Ordering::SeqCst);
            }
        }));
    }
    let start = std::time::Instant::now();
    let limit = std::time::Duration::from_secs(if tiny { 240 } else { 900 });
    while handles.iter().any(|h| !h.is_finished()) {
        if start.elapsed() > limit {
            r.inconclusive("real-time watchdog: caller threads did not finish");
            return r;
        }
        std::thread::sleep(std::time::Duration::from_millis(50));
    }
    for h in handles {
        if h.join().is_err() {
            let p = crate::take_panics();
            r.violation("free/caller-panic", "an API caller thread panicked", json!({"class":"free"}), json!({"panics": p.iter().map(|x| format!("{} {}", x.1, x.2)).collect::<Vec<_>>() }));
        }
    }
    r.add("free_running_calls_completed", completed.load(Ordering::SeqCst));
    r.evaluations = completed.load(Ordering::SeqCst);
    r.nontrivial_extra = threads as u64;
    r.notes.insert("mode".into(), json!("free"));
    drop(dht);
    drop(testnet);
    r
}

//! C15 — write tokens are bound to the requester IP and expire.
//! Timeline model: a token obtained by IP a at age 0 and presented by IP b at age tau must be
//! refused (203) if b != a or tau > 10 min + 2g, must be accepted if b == a and tau <= 5 min.
use super::srv::*;
use crate::krpc::*;
use crate::report::Report;
use crate::rng::{mix, Rng};
use crate::sha1::{immutable_target, mutable_target};
use crate::simnet::*;
use crate::Args;
use ed25519_dalek::SigningKey;
use serde_json::{json, Value};
use std::net::{Ipv4Addr, SocketAddrV4};

#[derive(Clone, Debug)]
enum Who {
    SameAddr,
    SameIpOtherPort,
    OtherIp(Ipv4Addr),
}

#[derive(Clone, Debug)]
enum Mutation {
    None,
    BitFlip(usize),
    Truncate,
    Extend,
    Random,
    OtherServer,
    Empty,
    /// computed by the presenter from the public token construction with a degenerate secret
    Guessed(u8),
}

#[derive(Clone, Debug)]
struct Present {
    age: u64,
    who: Who,
    mutation: Mutation,
    kind: usize,
}

#[derive(Clone, Debug)]
struct Holder {
    ip: Ipv4Addr,
    fetch_at: u64,
    fetch_kind: usize,
    presents: Vec<Present>,
}

fn pub_ip(rng: &mut Rng) -> Ipv4Addr {
    loop {
        let ip = Ipv4Addr::from(rng.u32());
        let o = ip.octets();
        if o[0] == 0 || o[0] >= 224 || crate::crc32c::ip_exempt(ip) || o[0] == 45 {
            continue;
        }
        return ip;
    }
}

fn close_ip(ip: Ipv4Addr, rng: &mut Rng) -> Ipv4Addr {
    let v = u32::from(ip);
    let o = ip.octets();
    let c = match rng.usize(8) {
        0 => v ^ (1 << rng.usize(32)),
        1 => v ^ 1,
        2 => v ^ 0x8000_0000,
        3 => u32::from_be_bytes([o[3], o[2], o[1], o[0]]),
        4 => u32::from_be_bytes([o[1], o[0], o[3], o[2]]),
        5 => (v & 0xffff_ff00) | rng.usize(256) as u32,
        6 => *rng.pick(&[0x0000_0001u32, 0xffff_fffe, 0x0100_0000, 0x7f00_0001]), // not 255.255.255.255: a reply to the broadcast address is refused by the OS (and by SimNet)
        _ => v ^ (3 << rng.usize(31)),
    };
    let c = if c == v { v ^ 2 } else { c };
    Ipv4Addr::from(c)
}

fn plan(rng: &mut Rng, g: u64, holders: usize) -> Vec<Holder> {
    let ages_grid = |rng: &mut Rng| -> u64 {
        let base = *rng.pick(&[0u64, SEC, 4 * MIN, 5 * MIN, 5 * MIN, 6 * MIN, 9 * MIN, 10 * MIN, 10 * MIN + g, 10 * MIN + 2 * g, 10 * MIN + 2 * g, 12 * MIN, 20 * MIN]);
        let delta: i64 = *rng.pick(&[0i64, 0, -1_000, 1_000, -(MS as i64), MS as i64, -(100 * MS as i64), 100 * MS as i64, 2 * MS as i64]);
        if rng.chance(1, 5) {
            rng.below(21 * MIN)
        } else {
            (base as i64 + delta).max(0) as u64
        }
    };
    (0..holders)
        .map(|_| {
            let ip = pub_ip(rng);
            let np = 1 + rng.usize(4);
            Holder {
                ip,
                fetch_at: rng.below(16 * MIN),
                fetch_kind: rng.usize(3),
                presents: (0..np)
                    .map(|_| {
                        let who = match rng.usize(10) {
                            0..=4 => Who::SameAddr,
                            5 | 6 => Who::SameIpOtherPort,
                            _ => Who::OtherIp(close_ip(ip, rng)),
                        };
                        let mutation = match rng.usize(15) {
                            0 => Mutation::BitFlip(rng.usize(32)),
                            1 => Mutation::Truncate,
                            2 => Mutation::Extend,
                            3 => Mutation::Random,
                            4 => Mutation::OtherServer,
                            5 => Mutation::Empty,
                            6 => Mutation::Guessed(rng.usize(GUESS_KINDS as usize) as u8),
                            _ => Mutation::None,
                        };
                        Present { age: ages_grid(rng), who, mutation, kind: rng.usize(4) }
                    })
                    .collect(),
            }
        })
        .collect()
}

enum EvKind {
    Ping,
    Fetch(usize),
    Present(usize, usize),
    /// the server takes a new (BEP42) id: its address is reported by its peer, it pings itself, re-keys
    Rekey,
    /// the wall clock of the host is stepped (NTP, an operator, a restored VM); the monotonic clock is not.
    /// Token lifetimes are intervals: they must not notice.
    ClockStep(i64),
}

/// `idle`: after the first keep-alive (t = 0) the node receives nothing at all for this long; the whole
/// timeline (keep-alives, fetches, presentations) follows the idle period.
pub fn scenario(r: &mut Report, seed: u64, g: u64, holders: usize, case_id: u64, idle: u64) {
    r.eval();
    let mut rng = Rng::new(seed);
    // a third of the timelines: the server re-keys once, at a random instant (tokens are not the routing tables' business)
    let rekey_at = if case_id % 3 == 1 { Some(30 * SEC + rng.below(24 * MIN)) } else { None };
    let fx = if rekey_at.is_some() { Fixture::new_rekeying(seed, None) } else { Fixture::new(seed, None) };
    let s2 = fx.second_server(Ipv4Addr::new(45, 12, 0, 9));
    let s2addr = s2.addr;
    let t0 = fx.w.now();
    let hs = plan(&mut rng, g, holders);
    let signer = SigningKey::from_bytes(&rng.array::<32>());
    // events
    let horizon = 16 * MIN + 21 * MIN + SEC;
    let mut evs: Vec<(u64, EvKind)> = vec![];
    let mut t = 0;
    while t <= horizon {
        evs.push((t, EvKind::Ping));
        t += g;
    }
    for (i, h) in hs.iter().enumerate() {
        evs.push((h.fetch_at, EvKind::Fetch(i)));
        for (j, p) in h.presents.iter().enumerate() {
            evs.push((h.fetch_at + p.age, EvKind::Present(i, j)));
        }
    }
    if let Some(t) = rekey_at {
        evs.push((t, EvKind::Rekey));
    }
    if case_id % 4 == 2 {
        let mut skew: i64 = 0;
        for _ in 0..1 + rng.usize(3) {
            let step = *rng.pick(&[-3600i64, -900, -301, -60, 60, 301, 900, 3600, 86_400]) * 1_000_000;
            skew += step;
            evs.push((rng.below(horizon.min(30 * MIN)), EvKind::ClockStep(skew)));
        }
    }
    if idle > 0 {
        for e in evs.iter_mut() {
            if e.0 > 0 {
                e.0 += idle;
            }
        }
    }
    evs.sort_by_key(|e| e.0);
    let mut keep = fx.client(SocketAddrV4::new(Ipv4Addr::new(99, 9, 9, 9), 999), [0x4b; 20]);
    let mut clients: Vec<Client> = hs.iter().enumerate().map(|(i, h)| fx.client(SocketAddrV4::new(h.ip, 6000 + i as u16), rng.array())).collect();
    let mut foreign: Option<Vec<u8>> = None;
    // (arrival time at the server of every request) for the observed maximum gap
    let mut arrivals: Vec<u64> = vec![];
    let mut issued: Vec<Option<(Vec<u8>, u64)>> = vec![None; hs.len()];
    let mut observed = (0u64, 0u64, 0u64, 0u64); // must-accept, must-reject-age, must-reject-ip/mutation, either
    struct Pending {
        case: Value,
        accepted: bool,
        code: Option<i128>,
        age: u64,
        same_ip: bool,
        mutated: bool,
        arrival: u64,
        issue: u64,
    }
    let mut results: Vec<Pending> = vec![];
    for (at, ev) in evs {
        fx.w.run_to(t0 + at);
        match ev {
            EvKind::Ping => {
                let id = keep.id;
                arrivals.push(fx.w.now() + MS);
                fx.rpc(&mut keep, |t| q_ping(t, &id));
            }
            EvKind::Rekey => {
                if fx.trigger_rekey() {
                    r.count("timelines_with_a_rekey_of_the_server");
                }
            }
            EvKind::ClockStep(skew) => {
                fx.w.set_unix_skew(skew);
                r.count("wall_clock_steps");
            }
            EvKind::Fetch(i) => {
                let id = clients[i].id;
                arrivals.push(fx.w.now() + MS);
                let issue = fx.w.now() + MS;
                let reply = match hs[i].fetch_kind {
                    0 => fx.rpc(&mut clients[i], |t| q_get_peers(t, &id, &[i as u8; 20], false)),
                    1 => fx.rpc(&mut clients[i], |t| q_get(t, &id, &[i as u8; 20], None)),
                    _ => fx.rpc(&mut clients[i], |t| q_get_peers(t, &id, &[i as u8; 20], true)),
                };
                if let Reply::Resp(k) = reply {
                    issued[i] = k.res_bytes("token").map(|t| (t.to_vec(), issue));
                }
                if foreign.is_none() {
                    let mut tmp = fx.client(SocketAddrV4::new(hs[i].ip, 5999), id);
                    if let Reply::Resp(k) = fx.rpc_to(&mut tmp, s2addr, |t| q_get_peers(t, &id, &[1; 20], false)) {
                        foreign = k.res_bytes("token").map(|t| t.to_vec());
                    }
                    fx.w.close_raw(tmp.sock);
                }
            }
            EvKind::Present(i, j) => {
                let Some((tok, issue)) = issued[i].clone() else { continue };
                let p = &hs[i].presents[j];
                let (addr, same_ip) = match &p.who {
                    Who::SameAddr => (clients[i].addr, true),
                    Who::SameIpOtherPort => (SocketAddrV4::new(hs[i].ip, 7000 + j as u16), true),
                    Who::OtherIp(ip) => (SocketAddrV4::new(*ip, 7100 + j as u16), false),
                };
                let mut token = tok.clone();
                let mut mutated = true;
                match &p.mutation {
                    Mutation::None => mutated = false,
                    Mutation::BitFlip(b) => {
                        let b = b % (token.len() * 8).max(1);
                        if !token.is_empty() {
                            token[b / 8] ^= 1 << (b % 8);
                        }
                    }
                    Mutation::Truncate => {
                        token.pop();
                    }
                    Mutation::Extend => token.push(rng.u32() as u8),
                    Mutation::Random => {
                        token = rng.bytes(4);
                        if token == tok {
                            token[0] ^= 1;
                        }
                    }
                    Mutation::OtherServer => token = foreign.clone().unwrap_or_default(),
                    Mutation::Empty => token.clear(),
                    Mutation::Guessed(k) => {
                        token = guessed_token(addr, *k);
                        if token == tok {
                            token[0] ^= 1;
                        }
                    }
                }
                let id: [u8; 20] = rng.array();
                let mut c = if addr == clients[i].addr { None } else { Some(fx.client(addr, id)) };
                let arrival = fx.w.now() + MS;
                arrivals.push(arrival);
                // half of the payloads repeat the holder's earlier payload byte for byte (a republish)
                let tag = (case_id, i, if rng.bool() { 0 } else { j + 1 });
                // a token that must be refused anyway sometimes rides on a payload that is too big as well:
                // the statement demands 203 for the token, whatever else is wrong with the request
                let oversize = (mutated || !same_ip) && rng.chance(1, 4);
                if oversize && matches!(p.kind, 0 | 2) {
                    r.count("bad_token_on_oversized_payload");
                }
                let reply = {
                    let cl = c.as_mut().unwrap_or(&mut clients[i]);
                    let cid = cl.id;
                    match p.kind {
                        0 => {
                            let mut v = format!("tok-{tag:?}").into_bytes();
                            if oversize {
                                v.resize(1001 + rng.usize(100), b'x');
                            }
                            let target = immutable_target(&v);
                            fx.rpc(cl, |t| q_put_immutable(t, &cid, &token, &target, &v))
                        }
                        1 => fx.rpc(cl, |t| q_announce_peer(t, &cid, &[j as u8; 20], 1234, None, &token)),
                        2 => {
                            let mut v = b"mut".to_vec();
                            let mut salt = format!("{tag:?}").into_bytes();
                            if oversize {
                                if rng.bool() {
                                    v.resize(1001 + rng.usize(100), b'y');
                                } else {
                                    salt.resize(65 + rng.usize(10), b's');
                                }
                            }
                            let sg = sign_mutable(&signer, 1, &v, Some(&salt));
                            let target = mutable_target(&sg.k, Some(&salt));
                            fx.rpc(cl, |t| q_put_mutable(t, &cid, &token, &target, &v, &sg.k, &sg.sig, 1, Some(&salt), None))
                        }
                        _ => {
                            let ih = [j as u8 ^ 0x5a; 20];
                            let ts = fx.w.unix_micros() + 1000;
                            let sg = sign_announce(&signer, &ih, ts);
                            fx.rpc(cl, |t| q_announce_signed_peer(t, &cid, &ih, &sg.k, &sg.sig, ts, &token))
                        }
                    }
                };
                if let Some(c) = c {
                    fx.w.close_raw(c.sock);
                }
                let case = json!({"class":"timeline","seed":seed.to_string(),"gap_ns":g,"idle_ns":idle,"holders":holders,"holder":i,"present":j,"issued_to":hs[i].ip.to_string(),"presented_by":addr.to_string(),"age_ns":arrival - issue,"mutation":format!("{:?}", p.mutation),"put_kind":p.kind});
                results.push(Pending { case, accepted: reply.is_ack(), code: reply.code(), age: arrival - issue, same_ip, mutated, arrival, issue });
                if matches!(reply, Reply::None) {
                    r.violation("present/no-reply", "a write got no reply", results.last().expect("r").case.clone(), json!({}));
                }
            }
        }
    }
    // observed maximum gap between consecutive requests arriving at the server
    arrivals.sort();
    let g_obs = arrivals.windows(2).map(|w| w[1] - w[0]).max().unwrap_or(g).max(g);
    let mut rotations_possible = 0;
    for p in &results {
        let _ = (p.arrival, p.issue);
        if !p.same_ip || p.mutated {
            observed.2 += 1;
            if p.accepted {
                let why = if !p.same_ip { "other-ip" } else { "mutated-token" };
                r.violation(&format!("token/accepted-must-reject/{why}"), "a token not issued to this IP by this node (or altered) was accepted", p.case.clone(), json!({"age_ns": p.age}));
            } else if p.code != Some(203) {
                r.violation(&format!("token/wrong-code/e{}", p.code.unwrap_or(0)), "bad token refused with a code other than 203", p.case.clone(), json!({}));
            }
        } else if p.age <= 5 * MIN {
            observed.0 += 1;
            if !p.accepted {
                r.violation("token/rejected-within-5-minutes", "a token was refused less than 5 minutes after it was issued to this IP", p.case.clone(), json!({"age_ns": p.age, "code": p.code.map(|c| c.to_string())}));
            }
        } else if p.age > 10 * MIN + 2 * g_obs {
            observed.1 += 1;
            if p.accepted {
                r.violation("token/accepted-after-two-rotation-periods", "a token older than 10 min + 2 request gaps was still accepted", p.case.clone(), json!({"age_ns": p.age, "max_gap_ns": g_obs}));
            } else if p.code != Some(203) {
                r.violation(&format!("token/wrong-code/e{}", p.code.unwrap_or(0)), "stale token refused with a code other than 203", p.case.clone(), json!({}));
            }
        } else {
            observed.3 += 1;
            if !p.accepted && p.code != Some(203) {
                r.violation(&format!("token/wrong-code/e{}", p.code.unwrap_or(0)), "token refused with a code other than 203", p.case.clone(), json!({}));
            }
        }
        if p.age > 5 * MIN {
            rotations_possible += 1;
        }
        if p.age > 5 * MIN || !p.same_ip {
            r.nontrivial(crate::rng::fnv(p.case.to_string().as_bytes()));
        }
    }
    r.add("presentations", results.len() as u64);
    r.add("must_accept", observed.0);
    r.add("must_reject_age", observed.1);
    r.add("must_reject_ip_or_mutation", observed.2);
    r.add("either", observed.3);
    r.add("presented_after_rotation", rotations_possible);
    if r.want_sample() {
        r.sample(json!({"gap_s": g / SEC, "holders": holders, "presentations": results.len(), "first": results.iter().take(3).map(|p| json!({"case": p.case, "accepted": p.accepted, "code": p.code.map(|c| c.to_string())})).collect::<Vec<_>>() }));
    }
    drop(s2);
    for (thread, loc, msg) in fx.finish() {
        r.violation(&format!("server-panic/{loc}"), &format!("server thread panicked: {msg}"), json!({"thread": thread, "seed": seed.to_string()}), json!({}));
    }
}

pub fn run(a: &Args) -> Report {
    let mut r = Report::new("C15");
    if let Some(path) = &a.replay {
        let v: Value = serde_json::from_str(&std::fs::read_to_string(path).unwrap_or_default()).unwrap_or_default();
        let c = &v["case"];
        scenario(&mut r, c["seed"].as_str().and_then(|s| s.parse().ok()).unwrap_or(1), c["gap_ns"].as_u64().unwrap_or(SEC), c["holders"].as_u64().unwrap_or(30) as usize, 0, c["idle_ns"].as_u64().unwrap_or(0));
        return r;
    }
    let n = (if a.quick() { 480 } else { 16000 }) / a.nshards.max(1);
    let mut rng = Rng::new(mix(a.seed, 0xc15 + a.shard));
    for i in 0..n {
        let g = *rng.pick(&[SEC, 30 * SEC, 4 * MIN, 4 * MIN, 10 * SEC]);
        let holders = 30 + rng.usize(40);
        let s = rng.u64();
        let idle = if i % 3 == 2 { *rng.pick(&[6 * MIN, 10 * MIN, 11 * MIN, 16 * MIN, 20 * MIN, 31 * MIN, 61 * MIN]) } else { 0 };
        super::guarded(&mut r, json!({"class":"timeline","seed":s.to_string(),"gap_ns":g,"idle_ns":idle,"holders":holders}), |r| scenario(r, s, g, holders, mix(a.shard, i), idle));
        r.count("timelines");
        if idle > 0 {
            r.count("timelines_after_idle_period");
        }
    }
    r
}

//! C11 — servers answer with the closest nodes they know.
//! Oracle: brute-force sort (BEP42-secure first by the harness's own CRC32C reference, then XOR).
use crate::crc32c::{bep42_mint, bep42_valid};
use crate::report::Report;
use crate::rng::{fnv, mix, Rng};
use crate::Args;
use dht::{ClosestNodes, Id, Node, RoutingTable};
use serde_json::json;
use std::cmp::Ordering;
use std::collections::HashSet;
use std::net::{Ipv4Addr, SocketAddrV4};

pub type N = ([u8; 20], SocketAddrV4);

pub fn secure(n: &N) -> bool {
    bep42_valid(&n.0, *n.1.ip())
}

pub fn order(a: &N, b: &N, t: &[u8; 20]) -> Ordering {
    secure(b).cmp(&secure(a)).then_with(|| {
        for i in 0..20 {
            let (x, y) = (a.0[i] ^ t[i], b.0[i] ^ t[i]);
            if x != y {
                return x.cmp(&y);
            }
        }
        Ordering::Equal
    })
}

fn to_n(n: &Node) -> N {
    (*n.id().as_bytes(), n.address())
}

/// A universe of nodes stressing the ordering: secure/insecure mixes, shared IPs, near ties.
pub fn universe(rng: &mut Rng, target: &[u8; 20], size: usize) -> (Vec<N>, u64) {
    let mut v: Vec<N> = Vec::new();
    let mut feat = 0u64;
    let ips_pool: Vec<Ipv4Addr> = (0..(size / 3 + 2)).map(|_| pub_ip(rng)).collect();
    while v.len() < size {
        let mode = rng.usize(10);
        let ip = match mode {
            0 => Ipv4Addr::new(10, rng.u32() as u8, rng.u32() as u8, 1 + rng.usize(250) as u8), // private: always "secure"
            1 | 2 => *rng.pick(&ips_pool),                                                     // shared public IP
            3 => {
                // same /26 subnet as another node
                let base = u32::from(*rng.pick(&ips_pool)) & !0x3f;
                Ipv4Addr::from(base | rng.u32() & 0x3f)
            }
            _ => pub_ip(rng),
        };
        let port = 1024 + rng.usize(60000) as u16;
        let mut id: [u8; 20] = rng.array();
        match rng.usize(8) {
            0 => {
                // close to the target: shares a long prefix, differs in a late byte / last bit
                id = *target;
                let byte = *rng.pick(&[19usize, 18, 17, 16, 15, 12, 8, 4]);
                id[byte] ^= 1 << rng.usize(8);
                feat |= 1;
            }
            1 => {
                // near tie with an existing node: differ only in the last 4 bytes
                if let Some(o) = v.last() {
                    id = o.0;
                    let k = 16 + rng.usize(4);
                    id[k] ^= 1 + rng.usize(255) as u8;
                    feat |= 2;
                }
            }
            2 => {
                // same first differing byte as another node
                if let Some(o) = v.first() {
                    id[..3].copy_from_slice(&o.0[..3]);
                    feat |= 4;
                }
            }
            _ => {}
        }
        let make_secure = rng.chance(2, 5);
        if make_secure {
            id = bep42_mint(ip, rng.u32() as u8, id);
        }
        let n = (id, SocketAddrV4::new(ip, port));
        if secure(&n) { feat |= 8 } else { feat |= 16 }
        if v.iter().any(|o| o.1.ip() == n.1.ip()) {
            feat |= 32;
        }
        // duplicate of an id at another address, sometimes
        if rng.chance(1, 25) {
            if let Some(o) = v.first().cloned() {
                v.push((o.0, SocketAddrV4::new(pub_ip(rng), port)));
                feat |= 64;
            }
        }
        v.push(n);
        // the address of an earlier node listed again under another id (a node that re-keyed, a stale
        // entry next to a fresh one, a lying responder): same security class or the other one
        if rng.chance(1, 12) {
            let o = *rng.pick(&v);
            let mut id2: [u8; 20] = rng.array();
            if rng.bool() {
                id2 = *target;
                id2[rng.usize(20)] ^= 1 << rng.usize(8);
            }
            if rng.bool() {
                id2 = bep42_mint(*o.1.ip(), rng.u32() as u8, id2);
            }
            v.push((id2, o.1));
            feat |= 128;
        }
    }
    (v, feat)
}

fn pub_ip(rng: &mut Rng) -> Ipv4Addr {
    loop {
        let ip = Ipv4Addr::from(rng.u32());
        let o = ip.octets();
        if o[0] == 0 || o[0] >= 224 || crate::crc32c::ip_exempt(ip) {
            continue;
        }
        return ip;
    }
}

fn show(n: &N) -> serde_json::Value {
    json!({"id": crate::bencode::hex(&n.0), "addr": n.1.to_string(), "secure": secure(n)})
}

pub fn check_table(r: &mut Report, rng: &mut Rng, uni: &[N], feat: u64, targets: &[[u8; 20]], case_id: u64, clock: Option<&super::c12::Clock>) {
    let table_id: [u8; 20] = rng.array();
    let mut table = RoutingTable::new(Id::from(table_id));
    for n in uni {
        table.add(Node::new(Id::from(n.0), n.1));
    }
    let mut targets: Vec<[u8; 20]> = targets.to_vec();
    targets.push(table_id);
    if let Some(m) = uni.first() {
        targets.push(m.0);
    }
    // every target is asked once before the table changes (an answer remembered from now would be stale later)
    for t in &targets {
        let _ = table.closest(Id::from(*t));
    }
    // a lived-in table: members removed (whole buckets emptied), 16+ minutes pass, some members are
    // refreshed and new nodes arrive (stale heads of full buckets are evicted), before it is asked
    let mut churned = false;
    if rng.chance(1, 2) && !uni.is_empty() {
        churned = true;
        let snap = dht::verif::table_snapshot(&table);
        for _ in 0..rng.usize(3) {
            if let Some((_, ids)) = snap.buckets.get(rng.usize(snap.buckets.len().max(1))) {
                for id in ids {
                    table.remove(id);
                }
                r.count("buckets_emptied");
            }
        }
        for _ in 0..rng.usize(4) {
            table.remove(&Id::from(rng.pick(uni).0));
        }
        if rng.bool() {
            if let Some(c) = clock {
                c.0.fetch_add((16 + rng.below(10)) * 60 * 1_000_000_000, std::sync::atomic::Ordering::SeqCst);
                r.count("tables_aged_past_staleness");
            }
            // refresh members from the tail of the insertion order, then newcomers
            for n in uni.iter().rev().take(rng.usize(uni.len() + 1)) {
                table.add(Node::new(Id::from(n.0), n.1));
            }
            for _ in 0..rng.usize(30) {
                let mut id: [u8; 20] = rng.array();
                if let Some(m) = uni.first() {
                    // same bucket as an existing member more often than not
                    id[..2].copy_from_slice(&m.0[..2]);
                }
                table.add(Node::new(Id::from(id), SocketAddrV4::new(pub_ip(rng), 6881)));
            }
        }
        r.count("churned_tables");
    }
    // a re-keyed table (the node took a BEP42 id for its confirmed address): afterwards members are refreshed
    // (every answer to a ping or lookup re-adds its sender) and newcomers arrive
    if rng.chance(1, 3) && !uni.is_empty() {
        let mut nid: [u8; 20] = rng.array();
        if rng.bool() {
            // near the old id: only some buckets move
            nid = table_id;
            nid[rng.usize(20)] ^= 1 << rng.usize(8);
        }
        dht::verif::reset_id(&mut table, Id::from(nid));
        for t in &targets {
            let _ = table.closest(Id::from(*t));
        }
        let mut order_: Vec<&N> = uni.iter().collect();
        rng.shuffle(&mut order_);
        for n in order_.iter().take(rng.usize(uni.len() + 1)) {
            table.add(Node::new(Id::from(n.0), n.1));
        }
        for _ in 0..rng.usize(6) {
            table.add(Node::new(Id::from(rng.array::<20>()), SocketAddrV4::new(pub_ip(rng), 6881)));
        }
        r.count("tables_rekeyed_then_refreshed");
    }
    // replacement at constant size: one member leaves, newcomers are tried until the size is what it was
    if rng.chance(1, 2) && !uni.is_empty() {
        let before = table.size();
        let victim = dht::verif::table_snapshot(&table).bucket_nodes.first().map(|n| n.0);
        if let Some(v) = victim {
            // the target asked last before the change is the one asked first after it
            let k = rng.usize(targets.len());
            targets.swap(0, k);
            let _ = table.closest(Id::from(targets[0]));
            table.remove(&v);
            for _ in 0..40 {
                if table.size() >= before {
                    break;
                }
                let mut id: [u8; 20] = rng.array();
                if rng.bool() {
                    // next to that target, so that it belongs into the answer
                    id = targets[0];
                    id[19] ^= 1 + rng.usize(200) as u8;
                }
                table.add(Node::new(Id::from(id), SocketAddrV4::new(pub_ip(rng), 6881)));
            }
            if table.size() == before {
                r.count("tables_with_member_replaced_at_constant_size");
            }
        }
    }
    // ground truth read bucket by bucket through the hook, not through the table's own iterator
    let members: Vec<N> = dht::verif::table_snapshot(&table).bucket_nodes.iter().map(|n| (*n.0.as_bytes(), n.1)).collect();
    let iterated: Vec<N> = table.nodes().map(|n| to_n(&n)).collect();
    if iterated != members {
        r.violation("table/iteration-differs-from-buckets", "RoutingTable::nodes() does not walk exactly the nodes held in the buckets", json!({"class":"table","case":case_id,"table_id":crate::bencode::hex(&table_id),"churned":churned,"universe": uni.iter().map(show).collect::<Vec<_>>()}), json!({"iterated": iterated.len(), "in_buckets": members.len()}));
    }
    for t in targets {
        r.eval();
        let got: Vec<N> = table.closest(Id::from(t)).iter().map(to_n).collect();
        let mut want = members.clone();
        want.sort_by(|a, b| order(a, b, &t));
        want.truncate(20);
        let case = || json!({"class":"table","case":case_id,"target":crate::bencode::hex(&t),"table_id":crate::bencode::hex(&table_id),"universe": uni.iter().map(show).collect::<Vec<_>>()});
        let ids: HashSet<[u8; 20]> = got.iter().map(|n| n.0).collect();
        if got.len() > 20 {
            r.violation("closest/more-than-20", "closest() returned more than 20 nodes", case(), json!({"len": got.len()}));
        } else if ids.len() != got.len() {
            r.violation("closest/duplicate", "closest() returned a repeated id", case(), json!({}));
        } else if got.iter().any(|g| !members.contains(g)) {
            r.violation("closest/non-member", "closest() returned a node that is not in the table", case(), json!({}));
        } else if got != want {
            // classify: a missing member that shares its IP with another member is the known watch point
            let missing: Vec<&N> = want.iter().filter(|w| !got.contains(w)).collect();
            let shared = !missing.is_empty() && missing.iter().all(|m| members.iter().any(|o| o != *m && o.1.ip() == m.1.ip()));
            let sorted_ok = got.windows(2).all(|w| order(&w[0], &w[1], &t) != Ordering::Greater);
            let sig = if shared && sorted_ok { "closest/drops-table-member/shared-ip" } else if !sorted_ok { "closest/out-of-order" } else { "closest/not-first-20" };
            r.violation(sig, "closest() differs from the first 20 table nodes by (secure first, XOR distance)", case(), json!({"got": got.iter().map(show).collect::<Vec<_>>(), "want": want.iter().map(show).collect::<Vec<_>>() }));
        }
        if feat & 0x18 == 0x18 || feat & 32 != 0 || feat & 7 != 0 {
            r.nontrivial(mix(fnv(&t), case_id));
        }
        r.count("table_queries");
    }
    if members.len() > 20 {
        r.count("tables_over_20");
    }
}

pub fn check_accumulator(r: &mut Report, rng: &mut Rng, uni: &[N], feat: u64, t: &[u8; 20], case_id: u64) {
    let mut acc = ClosestNodes::new(Id::from(*t));
    let mut added: Vec<N> = Vec::new();
    for n in uni {
        acc.add(Node::new(Id::from(n.0), n.1));
        added.push(*n);
        r.eval();
        let got: Vec<N> = acc.nodes().iter().map(to_n).collect();
        let case = || json!({"class":"accumulator","case":case_id,"target":crate::bencode::hex(t),"insertions": added.iter().map(show).collect::<Vec<_>>()});
        if let Some(w) = got.windows(2).find(|w| order(&w[0], &w[1], t) == Ordering::Greater) {
            r.violation("accumulator/out-of-order", "ClosestNodes::nodes() is not sorted by (secure first, XOR distance)", case(), json!({"pair":[show(&w[0]), show(&w[1])]}));
            return;
        }
        if got.iter().any(|g| !added.contains(g)) {
            r.violation("accumulator/invented-node", "ClosestNodes holds a node that was never added", case(), json!({}));
            return;
        }
        // a node whose IP and id are unique among everything added cannot be refused by any admission rule
        if added.iter().filter(|o| o.1.ip() == n.1.ip()).count() == 1 && added.iter().filter(|o| o.0 == n.0).count() == 1 && !got.contains(n) {
            r.violation("accumulator/lost-unique-node", "a node with a unique id and IP is missing after add()", case(), json!({"node": show(n)}));
            return;
        }
        r.count("accumulator_adds");
    }
    // take_until_secure: prefix of length >= min(20, len)
    let all: Vec<N> = acc.nodes().iter().map(to_n).collect();
    for _ in 0..6 {
        r.eval();
        let e = *rng.pick(&[0usize, 1, 20, 1000, 1_000_000, 10_000_000_000, usize::MAX, usize::MAX - 1]);
        let e = if rng.bool() { e } else { rng.u64() as usize >> rng.usize(64) };
        let s = *rng.pick(&[0usize, 1, 2, 5, 20, 64, 65, usize::MAX]);
        let got: Vec<N> = acc.take_until_secure(e, s).iter().map(to_n).collect();
        let case = || json!({"class":"take_until_secure","case":case_id,"target":crate::bencode::hex(t),"estimate":e.to_string(),"subnets":s.to_string(),"insertions": uni.iter().map(show).collect::<Vec<_>>()});
        if got.len() > all.len() || got[..] != all[..got.len()] {
            r.violation("take_until_secure/not-a-prefix", "take_until_secure is not a prefix of nodes()", case(), json!({}));
        } else if got.len() < all.len().min(20) {
            r.violation("take_until_secure/too-short", "take_until_secure returned fewer than min(20, available)", case(), json!({"len": got.len(), "available": all.len()}));
        }
        r.count("take_until_secure_calls");
    }
    if feat & 0x18 == 0x18 || feat & 32 != 0 || feat & 7 != 0 || feat & 128 != 0 {
        r.nontrivial(mix(fnv(t) ^ 0xacc, case_id));
    }
}

fn permutations<T: Clone>(xs: &[T]) -> Vec<Vec<T>> {
    if xs.len() <= 1 {
        return vec![xs.to_vec()];
    }
    let mut out = Vec::new();
    for i in 0..xs.len() {
        let mut rest = xs.to_vec();
        let x = rest.remove(i);
        for mut p in permutations(&rest) {
            p.insert(0, x.clone());
            out.push(p);
        }
    }
    out
}

/// Live servers: the `nodes` of find_node / get_peers / get / get_signed_peers replies are the
/// closest nodes of the server's own tables (ground truth from the snapshot hook).
fn live_servers(r: &mut Report, seed: u64, servers: usize) {
    use crate::krpc::*;
    use crate::props::net::{build_net, snapshot, IpPlan};
    use crate::simnet::*;
    let mut rng = Rng::new(seed);
    let w = World::with_cfg(seed, NetCfg::default(), TraceLevel::Off);
    let plan = [IpPlan::Public, IpPlan::Private, IpPlan::Mixed, IpPlan::PublicSecure][rng.usize(4)];
    let net = build_net(&w, servers, 0, plan, servers > 30, &mut rng);
    w.run_for(10 * SEC);
    let probe = w.raw(SocketAddrV4::new(Ipv4Addr::new(98, 7, 6, 5), 6881));
    let pid: [u8; 20] = rng.array();
    let case = json!({"class":"live-server","seed":seed.to_string(),"servers":servers});
    // passers-by that only the signed-peers tables learn (a node with a bootstrap list takes find_node requesters
    // that support signed peers into that table alone): the two tables of a server differ
    for j in 0..1 + rng.usize(4) {
        let s = w.raw(SocketAddrV4::new(Ipv4Addr::new(97, 1, j as u8, 5), 6881));
        let id: [u8; 20] = rng.array();
        for server in net.nodes.iter() {
            w.raw_send(s, &q_find_node(&[5, j as u8], &id, &rng.array(), false, Some(&VERSION_RS6)), server.addr);
        }
    }
    w.run_for(SEC);
    let signer = ed25519_dalek::SigningKey::from_bytes(&rng.array::<32>());
    for (si, server) in net.nodes.iter().enumerate() {
        if si % 3 != 0 && servers > 10 {
            continue;
        }
        // the server holds peers and signed peers for one info hash (announced by the probe with tokens it fetched)
        let held: [u8; 20] = rng.array();
        let mut token: Vec<u8> = vec![];
        w.raw_send(probe, &q_get_peers(&[6, 0, 0, si as u8], &pid, &held, true), server.addr);
        w.run_until(2 * SEC, |w| {
            while let Some((_, d)) = w.raw_recv(probe) {
                if let Some(tk) = Krpc::parse(&d.bytes).and_then(|k| k.res_bytes("token").map(|t| t.to_vec())) {
                    token = tk;
                    return true;
                }
            }
            false
        });
        let ts = w.unix_micros() + 1000;
        let sg = crate::props::srv::sign_announce(&signer, &held, ts);
        w.raw_send(probe, &q_announce_signed_peer(&[6, 0, 1, si as u8], &pid, &held, &sg.k, &sg.sig, ts, &token), server.addr);
        w.raw_send(probe, &q_announce_peer(&[6, 0, 2, si as u8], &pid, &held, 5555, None, &token), server.addr);
        let mut acks = 0;
        w.run_until(2 * SEC, |w| {
            while let Some((_, d)) = w.raw_recv(probe) {
                if Krpc::parse(&d.bytes).map(|k| k.y == b'r').unwrap_or(false) {
                    acks += 1;
                }
            }
            acks >= 2
        });
        if acks >= 2 {
            r.count("live_servers_holding_announcements_for_a_probed_info_hash");
        }
        let Some(snap) = snapshot(&w, server) else { continue };
        let main: Vec<N> = snap.table.nodes.iter().map(|n| (*n.0.as_bytes(), n.1)).collect();
        let signed: Vec<N> = snap.signed_table.nodes.iter().map(|n| (*n.0.as_bytes(), n.1)).collect();
        if main.iter().any(|n| !signed.contains(n)) || signed.iter().any(|n| !main.contains(n)) {
            r.count("live_servers_whose_two_tables_differ");
        }
        for qi in 0..6 {
            let target: [u8; 20] = if qi >= 4 { held } else if rng.bool() { rng.array() } else { main.first().map(|n| { let mut t = n.0; t[19] ^= 3; t }).unwrap_or([7; 20]) };
            let t = [0, 0, 0x70 + qi as u8, si as u8];
            let (name, q) = match qi {
                0 => ("find_node", q_find_node(&t, &pid, &target, true, None)),
                1 | 4 => ("get_peers", q_get_peers(&t, &pid, &target, false)),
                2 => ("get", q_get(&t, &pid, &target, None)),
                _ => ("get_signed_peers", q_get_peers(&t, &pid, &target, true)),
            };
            while w.raw_recv(probe).is_some() {}
            w.raw_send(probe, &q, server.addr);
            let mut reply: Option<Krpc> = None;
            w.run_until(2 * SEC, |w| {
                while let Some((_, d)) = w.raw_recv(probe) {
                    if let Some(k) = Krpc::parse(&d.bytes) {
                        if k.t == t {
                            reply = Some(k);
                            return true;
                        }
                    }
                }
                false
            });
            r.eval();
            let Some(k) = reply else {
                r.violation(&format!("live/no-reply/{name}"), "a server did not answer a lookup request", case.clone(), json!({"server": server.addr.to_string()}));
                continue;
            };
            let got: Vec<N> = k.nodes();
            let sorted = |v: &[N]| -> Vec<N> {
                let mut v = v.to_vec();
                v.sort_by(|a, b| order(a, b, &target));
                v.truncate(20);
                v
            };
            let want: Vec<N> = match name {
                "get_signed_peers" => sorted(&signed),
                "find_node" => {
                    // documented server behaviour: nodes supporting signed peers first, topped up from the main table
                    let mut v = sorted(&signed);
                    let fill = 20usize.saturating_sub(v.len());
                    v.extend(sorted(&main).into_iter().take(if v.len() < 20 { fill } else { 0 }));
                    v
                }
                _ => sorted(&main),
            };
            if got.len() > 20 {
                r.violation(&format!("live/more-than-20/{name}"), "a reply lists more than 20 nodes", case.clone(), json!({"len": got.len()}));
            } else if got != want {
                let member = got.iter().all(|g| main.contains(g) || signed.contains(g));
                let sig = if !member { "non-member" } else { "not-the-closest" };
                r.violation(&format!("live/{sig}/{name}"), "the nodes of a reply are not the closest nodes of the server's routing table", case.clone(), json!({"server": server.addr.to_string(), "got": got.iter().map(show).collect::<Vec<_>>(), "want": want.iter().map(show).collect::<Vec<_>>() }));
            }
            r.count("live_replies_checked");
            if qi >= 4 && (k.res("values").is_some() || k.res("peers").is_some()) {
                r.count("live_replies_with_stored_peers_checked");
            }
            if main.len() > 20 || main.iter().any(|n| !secure(n)) && main.iter().any(secure) {
                r.nontrivial(mix(seed, (si * 4 + qi) as u64));
            }
        }
    }
    drop(net);
    for (thread, loc, msg) in crate::take_panics() {
        r.violation(&format!("panic/{loc}"), &format!("thread {thread} panicked: {msg}"), case.clone(), json!({}));
    }
}

pub fn run(a: &Args) -> Report {
    let quick = a.quick();
    let threads = a.threads.max(1);
    let cases: u64 = if quick { 6_000 } else { 200_000 };
    let mut total = Report::new("C11");
    // a process-global virtual clock that only moves forward (any thread may advance it: the oracle does
    // not depend on time, only the table's eviction decisions do)
    let clock_arc = std::sync::Arc::new(super::c12::Clock(std::sync::atomic::AtomicU64::new(1_000_000_000)));
    dht::verif::set_env(Some(clock_arc.clone()));
    let clock: &super::c12::Clock = &clock_arc;
    let parts: Vec<Report> = std::thread::scope(|s| {
        let hs: Vec<_> = (0..threads)
            .map(|tid| {
                s.spawn(move || {
                    let mut r = Report::new("C11");
                    let mut rng = Rng::new(mix(a.seed, 0xc11 + tid as u64));
                    for c in 0..cases / threads as u64 {
                        let case_id = mix(a.seed, (tid as u64) << 32 | c);
                        let target: [u8; 20] = rng.array();
                        let size = *rng.pick(&[0usize, 1, 2, 3, 5, 8, 19, 20, 21, 22, 40, 60, 120, 400]);
                        let size = if size == 400 && c % 7 != 0 { 30 } else { size };
                        let (uni, feat) = universe(&mut rng, &target, size);
                        let mut targets = vec![target, rng.array()];
                        if let Some(n) = uni.first() {
                            let mut t = n.0;
                            t[19] ^= 1;
                            targets.push(t);
                        }
                        if uni.len() <= 5 && uni.len() >= 2 {
                            // every insertion order
                            for p in permutations(&uni) {
                                let case = json!({"class":"table-or-accumulator","case":case_id,"universe": p.iter().map(show).collect::<Vec<_>>()});
                                super::guarded(&mut r, case, |r| {
                                    check_table(r, &mut rng, &p, feat, &targets[..1], case_id, Some(clock));
                                    check_accumulator(r, &mut rng, &p, feat, &target, case_id);
                                });
                                r.count("permutation_orders");
                            }
                        } else {
                            let mut u = uni.clone();
                            for _ in 0..2 {
                                rng.shuffle(&mut u);
                                let case = json!({"class":"table-or-accumulator","case":case_id,"universe": u.iter().map(show).collect::<Vec<_>>()});
                                super::guarded(&mut r, case, |r| {
                                    check_table(r, &mut rng, &u, feat, &targets, case_id, Some(clock));
                                    check_accumulator(r, &mut rng, &u, feat, &target, case_id);
                                });
                            }
                        }
                        if r.want_sample() && c % 401 == 1 {
                            r.sample(json!({"universe_size": uni.len(), "features": format!("{feat:#b}"), "target": crate::bencode::hex(&target), "first_nodes": uni.iter().take(3).map(show).collect::<Vec<_>>()}));
                        }
                    }
                    r
                })
            })
            .collect();
        hs.into_iter().map(|h| h.join().expect("thread")).collect()
    });
    dht::verif::set_env(None);
    for p in parts {
        total.merge(p);
    }
    // live servers in SimNet (the process-global environment is free again: the threads are joined)
    let sizes: Vec<usize> = if quick { vec![4, 12, 25, 45] } else { vec![3, 8, 20, 21, 30, 45, 60, 100] };
    for (i, n) in sizes.into_iter().enumerate() {
        let s = mix(a.seed, 0x11fe + i as u64);
        super::guarded(&mut total, json!({"class":"live-server","seed":s.to_string(),"servers":n}), |r| live_servers(r, s, n));
    }
    total
}

//! C14 — routing tables stay healthy over hours of (virtual) uptime.
//! Oracle: who-answered-whom-when, computed from the datagram trace, against sampled tables.
use super::net::*;
use crate::report::Report;
use crate::rng::{mix, Rng};
use crate::simnet::*;
use crate::Args;
use dht::Id;
use serde_json::{json, Value};
use std::collections::{HashMap, HashSet};
use std::future::Future;
use std::net::{Ipv4Addr, SocketAddrV4};
use std::pin::Pin;

#[derive(Clone, Debug)]
pub struct Params {
    pub seed: u64,
    pub servers: usize,
    pub clients: usize,
    pub plan: usize,
    pub hours_x10: u64,
    /// 0 steady, 1 crashes, 2 crashes + restarts
    pub churn: usize,
    pub api_lookups: bool,
}

fn case_json(p: &Params) -> Value {
    json!({"class":"timeline","seed":p.seed.to_string(),"servers":p.servers,"clients":p.clients,"plan":p.plan,"hours_x10":p.hours_x10,"churn":p.churn,"api_lookups":p.api_lookups})
}

struct Slot {
    node: Option<Node>,
    addr: SocketAddrV4,
    ip: Ipv4Addr,
    public_ip: Option<Ipv4Addr>,
    server: bool,
    crashed_at: Option<u64>,
    restarted_at: Option<u64>,
    id_before_restart: Option<Id>,
    started_at: u64,
    empty_since: Option<u64>,
}

pub fn scenario(r: &mut Report, p: &Params) {
    r.eval();
    let mut rng = Rng::new(p.seed);
    let w = World::with_cfg(p.seed, NetCfg::default(), TraceLevel::Full);
    let plans = [IpPlan::Public, IpPlan::Private, IpPlan::Mixed, IpPlan::PublicSecure];
    let case = case_json(p);
    let total = p.servers + p.clients;
    let big = total > 20;
    let mut prev_tables: HashMap<SocketAddrV4, (u64, HashSet<SocketAddrV4>)> = HashMap::new();
    let mut prev_signed: HashMap<SocketAddrV4, (u64, HashSet<SocketAddrV4>)> = HashMap::new();
    let mut slots: Vec<Slot> = vec![];
    let mut boot = SocketAddrV4::new(Ipv4Addr::UNSPECIFIED, 0);
    for i in 0..total {
        let (mut ip, mut public_ip) = plan_ip(plans[p.plan % 4], i, &mut rng);
        if p.plan == 7 {
            // BEP42 ids from the start, on hosts whose addresses differ only in bits the BEP42 digest ignores
            // (mask 0x030f3fff): ids of different hosts then share one of only eight 21-bit prefixes
            ip = Ipv4Addr::new(20 + 4 * (i % 24) as u8, 1 + 16 * (i / 24 % 8) as u8, 1 + 64 * (i / 192 % 3) as u8, 7);
            public_ip = Some(ip);
        }
        let server = i < p.servers;
        let bs: Vec<SocketAddrV4> = if i == 0 { vec![] } else { vec![boot] };
        let mut spec = if server { NodeSpec::server(ip, &bs) } else { NodeSpec::client(ip, &bs) };
        spec.public_ip = public_ip;
        // (up since it was spawned: the answers to its bootstrap lookup are answers to its requests)
        let t_spawn = w.now();
        let n = w.spawn(spec).expect("spawn");
        if i == 0 {
            boot = n.addr;
        } else {
            w.block_on(n.adht.bootstrapped(), 120 * SEC);
        }
        slots.push(Slot { addr: n.addr, node: Some(n), ip, public_ip, server, crashed_at: None, restarted_at: None, id_before_restart: None, started_at: t_spawn, empty_since: None });
    }
    let t0 = w.now();
    let end = t0 + p.hours_x10 * 6 * MIN;
    // churn plan: (time, slot, restart?)
    let mut churn: Vec<(u64, usize, bool)> = vec![];
    if p.churn > 0 && total > 3 {
        let k = 1 + rng.usize((total / 3).max(1));
        for _ in 0..k {
            let slot = 1 + rng.usize(total - 1); // the first node stays (it is everybody's bootstrap address)
            let at = if rng.chance(1, 3) {
                // at a maintenance boundary +- one tick
                let m = (1 + rng.below((p.hours_x10 * 6 / 5).max(1))) * 5 * MIN;
                t0 + m.min((end - t0).saturating_sub(45 * MIN)).max(MIN) + *rng.pick(&[0u64, 500 * MS, SEC]) - 500 * MS
            } else {
                t0 + rng.below((end - t0).saturating_sub(45 * MIN).max(MIN))
            };
            if churn.iter().any(|c| c.1 == slot) {
                continue;
            }
            churn.push((at, slot, p.churn == 2 && rng.bool()));
        }
        churn.sort();
    }
    // observed answers: (asker, answerer) -> last time
    let mut last_answer: HashMap<(SocketAddrV4, SocketAddrV4), u64> = HashMap::new();
    let mut outstanding: HashMap<(SocketAddrV4, SocketAddrV4, Vec<u8>), u64> = HashMap::new();
    let mut trace_pos = 0usize;
    let mut counters = (0u64, 0u64, 0u64, 0u64, 0u64, 0u64); // ping requests, refresh find_nodes, evictions seen, relearned, samples
    let mut restart_pending: Vec<(u64, usize)> = vec![];
    let mut last_refresh: HashMap<SocketAddrV4, u64> = HashMap::new();
    let mut recent_checks = (0u64, 0u64, 0u64); // (x, peer) pairs demanded present: small networks, big networks
    let mut next_sample = t0 + 30 * SEC;
    let mut violations_here = 0;
    while w.now() < end && violations_here < 3 {
        // next event: sample, churn, restart
        let mut next = next_sample;
        if let Some(c) = churn.first() {
            next = next.min(c.0);
        }
        if let Some(rp) = restart_pending.first() {
            next = next.min(rp.0);
        }
        w.run_to(next.max(w.now()));
        let now = w.now();
        // digest new trace
        let tr = w.trace_from(trace_pos);
        trace_pos += tr.len();
        for e in &tr {
            match e {
                Ev::Send { t, from, to, bytes, raw: false, .. } => {
                    if let Some(k) = crate::krpc::Krpc::parse(bytes) {
                        if k.y == b'q' {
                            outstanding.insert((*from, *to, k.t.clone()), *t);
                            match k.q.as_deref() {
                                Some("ping") => counters.0 += 1,
                                Some("find_node") if k.target() == k.id() => {
                                    counters.1 += 1;
                                    // refresh cadence of nodes that have a bootstrap list (populate() is a
                                    // no-op for the first node): own-id lookups at most 15 min (+ slack) apart
                                    if let Some(si) = slots.iter().position(|s| s.addr == *from && s.node.is_some()) {
                                        if si != 0 {
                                            if let Some(prev) = last_refresh.get(from) {
                                                if *t > *prev + 15 * MIN + 45 * SEC && *prev >= slots[si].started_at {
                                                    r.violation("health/refresh-overdue", "more than 15 minutes passed between two lookups of the node's own id (table refresh)", case.clone(), json!({"node": from.to_string(), "gap_s": (*t - *prev) / SEC, "uptime_min": (*t - slots[si].started_at) / MIN}));
                                                    violations_here += 1;
                                                }
                                            }
                                            last_refresh.insert(*from, *t);
                                        }
                                    }
                                }
                                _ => {}
                            }
                        }
                    }
                }
                Ev::Deliver { t, to, from, bytes, .. } => {
                    if let Some(k) = crate::krpc::Krpc::parse(bytes) {
                        if k.y == b'r' && !k.ro {
                            if let Some(ts) = outstanding.remove(&(*to, *from, k.t.clone())) {
                                if *t - ts <= 490 * MS {
                                    last_answer.insert((*to, *from), *t);
                                }
                            }
                        }
                    }
                }
                _ => {}
            }
        }
        if outstanding.len() > 50_000 {
            outstanding.retain(|_, ts| now - *ts < 10 * SEC);
        }
        if trace_pos > 400_000 {
            w.clear_trace();
            trace_pos = 0;
        }
        // churn
        while churn.first().map(|c| c.0 <= now).unwrap_or(false) {
            let (_, slot, restart) = churn.remove(0);
            if let Some(n) = slots[slot].node.take() {
                slots[slot].id_before_restart = w.block_on(n.adht.info(), 2 * SEC).map(|i| *i.id());
                w.crash(n);
                slots[slot].crashed_at = Some(w.now());
                r.count("crashes");
                if restart {
                    restart_pending.push((w.now() + *rng.pick(&[SEC, 30 * SEC, 3 * MIN, 10 * MIN]), slot));
                    restart_pending.sort();
                }
            }
        }
        while restart_pending.first().map(|c| c.0 <= now).unwrap_or(false) {
            let (_, slot) = restart_pending.remove(0);
            let s = &mut slots[slot];
            let mut spec = if s.server { NodeSpec::server(s.ip, &[boot]) } else { NodeSpec::client(s.ip, &[boot]) };
            spec.public_ip = s.public_ip;
            if let Ok(n) = w.spawn(spec) {
                s.node = Some(n);
                s.restarted_at = Some(w.now());
                s.started_at = w.now();
                s.crashed_at = None;
                s.empty_since = None;
                r.count("restarts");
            }
        }
        if now < next_sample {
            continue;
        }
        next_sample = now + 30 * SEC;
        counters.4 += 1;
        // sample every live node's to_bootstrap() (all calls in flight together)
        let live: Vec<usize> = (0..slots.len()).filter(|i| slots[*i].node.is_some()).collect();
        let futs: Vec<Pin<Box<dyn Future<Output = Vec<String>>>>> = live
            .iter()
            .map(|i| {
                let a = slots[*i].node.as_ref().expect("live").adht.clone();
                Box::pin(async move { a.to_bootstrap().await }) as Pin<Box<dyn Future<Output = Vec<String>>>>
            })
            .collect();
        let tables = join_all(&w, futs, 5 * SEC);
        let s_now = w.now();
        let alive_addrs: HashSet<SocketAddrV4> = live.iter().map(|i| slots[*i].addr).collect();
        for (k, i) in live.iter().enumerate() {
            let x = slots[*i].addr;
            let Some(tb) = &tables[k] else {
                r.violation("sample/to_bootstrap-did-not-return", "to_bootstrap() did not return within 5 virtual seconds", case.clone(), json!({"node": x.to_string()}));
                violations_here += 1;
                continue;
            };
            let tb: HashSet<SocketAddrV4> = tb.iter().filter_map(|a| a.parse().ok()).collect();
            if std::env::var("MLV_DEBUG").is_ok() && !big && k < 2 {
                eprintln!("t={}min node {} to_bootstrap={} answered-by={}", (s_now - t0) / MIN, x, tb.len(), last_answer.iter().filter(|((a, _), t)| *a == x && s_now - **t <= 14 * MIN).count());
            }
            // (a) recently answering live peers are present
            for ((asker, p_addr), t) in last_answer.iter().filter(|((a, _), _)| *a == x) {
                let _ = asker;
                // the asker must have been up continuously since the answer
                if *t < slots[*i].started_at {
                    continue;
                }
                // with more than 20 peers bucket capacity binds: a peer may never have been admitted, but one
                // that was listed at the previous sample and keeps answering is never the stale head to evict
                let admitted = !big || prev_tables.get(&x).map(|pt| pt.0 >= slots[*i].started_at && pt.1.contains(p_addr)).unwrap_or(false);
                if admitted && alive_addrs.contains(p_addr) && *p_addr != x && s_now - *t <= 14 * MIN {
                    if big { recent_checks.1 += 1 } else { recent_checks.0 += 1 }
                }
                if admitted && alive_addrs.contains(p_addr) && *p_addr != x && s_now - *t <= 14 * MIN && !tb.contains(p_addr) {
                    // a restarted peer answers from the same address under a new id: the old entry blocks
                    // it on insecure IPs until evicted - only steady peers are demanded here
                    let steady = slots.iter().find(|s| s.addr == *p_addr).map(|s| s.restarted_at.is_none()).unwrap_or(true);
                    if steady {
                        r.violation(
                            "health/recent-answerer-missing",
                            "a live peer that answered this node's request within the last 14 minutes is not in its routing table",
                            case.clone(),
                            json!({"node": x.to_string(), "peer": p_addr.to_string(), "answered_ago_s": (s_now - *t) / SEC, "uptime_min": (s_now - t0) / MIN, "table_size": tb.len()}),
                        );
                        violations_here += 1;
                        break;
                    }
                }
            }
            // (b) peers that stopped answering disappear within ~20 minutes
            for s in slots.iter().filter(|s| s.node.is_none()) {
                if let Some(tc) = s.crashed_at {
                    if s_now >= tc + 21 * MIN && tb.contains(&s.addr) {
                        r.violation("health/dead-peer-still-listed", "a peer that stopped answering more than 21 minutes ago is still in the routing table", case.clone(), json!({"node": x.to_string(), "peer": s.addr.to_string(), "dead_for_min": (s_now - tc) / MIN}));
                        violations_here += 1;
                        break;
                    } else if s_now >= tc + 21 * MIN {
                        counters.2 += 1;
                    }
                }
            }
            // (b') the same for the node's second routing table (nodes that support signed peers), read through the snapshot hook
            let overdue: Vec<SocketAddrV4> = slots.iter().filter(|s| s.node.is_none() && s.crashed_at.map(|tc| s_now >= tc + 21 * MIN).unwrap_or(false)).map(|s| s.addr).collect();
            if !overdue.is_empty() {
                if let Some(snap) = snapshot(&w, slots[*i].node.as_ref().expect("live")) {
                    counters.5 += 1;
                    if let Some(dead) = snap.signed_table.nodes.iter().find(|n| overdue.contains(&n.1)) {
                        r.violation("health/dead-peer-still-listed/signed-peers-table", "a peer that stopped answering more than 21 minutes ago is still in the signed-peers routing table", case.clone(), json!({"node": x.to_string(), "peer": dead.1.to_string(), "entry_age_s": dead.2.as_secs()}));
                        violations_here += 1;
                    }
                }
            }
            if big {
                prev_tables.insert(x, (s_now, tb.clone()));
            }
            // (d) never empty for two consecutive samples while the first node (bootstrap) is reachable
            if tb.is_empty() && *i != 0 && slots[0].node.is_some() {
                match slots[*i].empty_since {
                    None => slots[*i].empty_since = Some(s_now),
                    Some(since) if s_now - since > 45 * SEC && s_now - slots[*i].started_at > 2 * MIN => {
                        r.violation("health/table-stays-empty", "routing table empty at consecutive samples although the bootstrap node is reachable", case.clone(), json!({"node": x.to_string(), "empty_for_s": (s_now - since) / SEC, "uptime_min": (s_now - slots[*i].started_at) / MIN}));
                        violations_here += 1;
                        slots[*i].empty_since = Some(s_now);
                    }
                    _ => {}
                }
            } else {
                slots[*i].empty_since = None;
            }
        }
        // (a') the second routing table (nodes that support signed peers), every fourth sample of the networks with
        // full buckets: an entry that was there at the previous such sample and whose node has answered this node
        // within the last 14 minutes was heard from less than 15 minutes ago and cannot be the stale head of its
        // bucket - it must still be there, whatever the first table did with that node
        if big && counters.4 % 4 == 0 {
            for i in live.iter() {
                let x = slots[*i].addr;
                let Some(snap) = snapshot(&w, slots[*i].node.as_ref().expect("live")) else { continue };
                let now_set: HashSet<SocketAddrV4> = snap.signed_table.nodes.iter().map(|n| n.1).collect();
                if let Some((t_prev, prev)) = prev_signed.get(&x) {
                    if *t_prev >= slots[*i].started_at {
                        for p_addr in prev.iter() {
                            let steady = slots.iter().find(|s| s.addr == *p_addr).map(|s| s.restarted_at.is_none() && s.node.is_some()).unwrap_or(false);
                            let answered = last_answer.get(&(x, *p_addr)).copied().unwrap_or(0);
                            if steady && answered > 0 && answered >= slots[*i].started_at && s_now - answered <= 14 * MIN {
                                recent_checks.2 += 1;
                                if !now_set.contains(p_addr) {
                                    r.violation("health/recent-answerer-missing/signed-peers-table", "a live peer that was in the signed-peers routing table two minutes ago and has answered a request of this node within the last 14 minutes is no longer in it", case.clone(), json!({"node": x.to_string(), "peer": p_addr.to_string(), "answered_ago_s": (s_now - answered) / SEC, "signed_table_size": now_set.len()}));
                                    violations_here += 1;
                                    break;
                                }
                            }
                        }
                    }
                }
                if std::env::var("MLV_DEBUG").is_ok() && *i < 3 {
                    let main_set: HashSet<SocketAddrV4> = snap.table.nodes.iter().map(|n| n.1).collect();
                    let only_signed = now_set.iter().filter(|a| !main_set.contains(a)).count();
                    let oldest = snap.signed_table.nodes.iter().map(|n| n.2.as_secs()).max().unwrap_or(0);
                    eprintln!("t={}min node {} main={} signed={} signed-only={} oldest signed entry {} s", (s_now - t0) / MIN, x, main_set.len(), now_set.len(), only_signed, oldest);
                }
                prev_signed.insert(x, (s_now, now_set));
            }
        }
        // (c) restarted peers are re-learned under their new id, the old id disappears
        for si in 0..slots.len() {
            let (Some(tr0), Some(old_id)) = (slots[si].restarted_at, slots[si].id_before_restart) else { continue };
            if s_now < tr0 + 40 * MIN || slots[si].node.is_none() {
                continue;
            }
            let new_id = w.block_on(slots[si].node.as_ref().expect("node").adht.info(), 2 * SEC).map(|i| *i.id());
            let mut new_seen = false;
            let mut old_seen = false;
            for j in live.iter().filter(|j| **j != si) {
                if let Some(snap) = snapshot(&w, slots[*j].node.as_ref().expect("live")) {
                    for (id, addr, _) in snap.table.nodes.iter().chain(snap.signed_table.nodes.iter()) {
                        if *addr == slots[si].addr {
                            if Some(*id) == new_id {
                                new_seen = true;
                            }
                            if *id == old_id {
                                old_seen = true;
                            }
                        }
                    }
                }
            }
            if !new_seen && p.servers >= 2 && slots[si].server {
                r.violation("health/restarted-peer-not-relearned", "40 minutes after its restart no live table holds the peer under its new id", case.clone(), json!({"peer": slots[si].addr.to_string()}));
                violations_here += 1;
            } else if old_seen {
                r.violation("health/old-id-still-listed", "40 minutes after the restart a table still lists the peer under its old id", case.clone(), json!({"peer": slots[si].addr.to_string()}));
                violations_here += 1;
            } else if new_seen {
                counters.3 += 1;
            }
            slots[si].id_before_restart = None; // judged once
        }
        // API lookups at random instants between maintenance rounds
        if p.api_lookups && rng.chance(1, 6) && !live.is_empty() {
            let i = *rng.pick(&live);
            let a = slots[i].node.as_ref().expect("live").adht.clone();
            let t = Id::from(rng.array::<20>());
            if rng.bool() {
                w.block_on(async move { drop(a.get_closest_nodes(t).await) }, 60 * SEC);
            } else {
                w.block_on(async move { drop(a.find_node(t).await) }, 60 * SEC);
                r.count("api_find_node_lookups");
            }
            r.count("api_lookups");
        }
    }
    let t_end = w.now();
    for (si, sl) in slots.iter().enumerate() {
        if si == 0 || sl.node.is_none() || t_end < sl.started_at + 17 * MIN {
            continue;
        }
        let lastr = last_refresh.get(&sl.addr).copied().filter(|t| *t >= sl.started_at);
        r.count("refresh_cadence_checks");
        if lastr.map(|t| t_end > t + 15 * MIN + 45 * SEC).unwrap_or(true) {
            r.violation("health/refresh-overdue", "more than 15 minutes passed without a lookup of the node's own id (table refresh)", case.clone(), json!({"node": sl.addr.to_string(), "last_refresh_ago_s": lastr.map(|t| (t_end - t) / SEC), "uptime_min": (t_end - sl.started_at) / MIN}));
        }
    }
    r.add("ping_requests", counters.0);
    r.add("refresh_lookups_requests", counters.1);
    r.add("dead_peer_checks_passed", counters.2);
    r.add("relearned_after_restart", counters.3);
    r.add("samples", counters.4);
    r.add("signed_table_dead_peer_checks", counters.5);
    r.add("recent_answerer_present_checks", recent_checks.0);
    r.add("recent_answerer_present_checks_full_buckets", recent_checks.1);
    r.add("recent_answerer_present_checks_signed_table", recent_checks.2);
    if big {
        r.count("big_timelines");
    }
    r.add("virtual_minutes", (w.now() - t0) / MIN);
    if counters.0 > 0 && counters.1 > 0 && (w.now() - t0) >= 16 * MIN {
        r.nontrivial(mix(p.seed, w.order_hash()));
    }
    if r.want_sample() {
        r.sample(json!({"params": case, "ping_requests": counters.0, "refresh_requests": counters.1, "samples": counters.4, "crashes": churn.len()}));
    }
    if w.stuck() {
        r.inconclusive("scheduler watchdog fired");
    }
    for s in slots.iter_mut() {
        s.node = None;
    }
    w.shutdown();
    for (thread, loc, msg) in crate::take_panics() {
        r.violation(&format!("panic/{loc}"), &format!("thread {thread} panicked: {msg}"), case.clone(), json!({}));
    }
}

/// Blackout: every peer including the bootstrap node goes away long enough for the table to
/// drain; then the bootstrap node comes back (same address, new id) between two refreshes.
/// A node whose table is empty re-bootstraps at once, so the table must not stay empty.
pub fn blackout_scenario(r: &mut Report, seed: u64) {
    r.eval();
    let mut rng = Rng::new(seed);
    let w = World::with_cfg(seed, NetCfg::default(), TraceLevel::Off);
    let case = json!({"class":"blackout","seed":seed.to_string()});
    let plan = [IpPlan::Private, IpPlan::PublicSecure][rng.usize(2)];
    let n = 2 + rng.usize(4);
    let mut net = build_net(&w, n, 0, plan, false, &mut rng);
    let boot_ip = *net.boot.ip();
    let x = w.spawn(if rng.bool() { NodeSpec::server(Ipv4Addr::new(10, 77, 0, 1), &[net.boot]) } else { NodeSpec::client(Ipv4Addr::new(10, 77, 0, 1), &[net.boot]) }).expect("x");
    let t_x = w.now();
    w.block_on(x.adht.bootstrapped(), 60 * SEC);
    w.run_for(rng.range(30, 200) * SEC);
    // staggered variant: the bootstrap node goes first, the node refreshes its table once more among the
    // others (so the lookup it remembers for its own id does not contain the bootstrap address), then they go
    let staggered = rng.bool() && net.nodes.len() >= 2;
    if staggered {
        let boot_node = net.nodes.remove(0);
        w.crash(boot_node);
        w.run_to(t_x + 16 * MIN + rng.below(3 * MIN));
        r.count("blackouts_staggered");
    }
    // everybody else disappears
    for node in net.nodes.drain(..) {
        w.crash(node);
    }
    let outage = 21 * MIN + rng.below(9 * MIN);
    w.run_for(outage);
    let drained = w.block_on(x.adht.to_bootstrap(), 5 * SEC).map(|t| t.is_empty()).unwrap_or(false);
    // the bootstrap node returns on its old address
    let mut spec = NodeSpec::server(boot_ip, &[]);
    if plan == IpPlan::PublicSecure {
        spec.public_ip = Some(boot_ip);
    }
    let back = w.spawn(spec).expect("bootstrap node restarts");
    let t_back = w.now();
    let mut empty_samples = 0;
    let mut recovered_after = None;
    for k in 1..=8u64 {
        w.run_to(t_back + k * 30 * SEC);
        let tb = w.block_on(x.adht.to_bootstrap(), 5 * SEC).unwrap_or_default();
        if tb.is_empty() {
            empty_samples += 1;
        } else if recovered_after.is_none() {
            recovered_after = Some(k * 30);
        }
    }
    if drained {
        r.count("blackouts_with_drained_table");
        r.nontrivial(mix(seed, outage));
        // two consecutive samples (> 30 s) with an empty table while the bootstrap node is reachable
        if recovered_after.map(|s| s > 90).unwrap_or(true) {
            r.violation("health/table-stays-empty/after-blackout", "the table stayed empty for more than 90 s although the bootstrap node is reachable again", case.clone(), json!({"staggered": staggered, "outage_min": outage / MIN, "empty_samples": empty_samples, "recovered_after_s": recovered_after}));
        }
    } else {
        r.count("blackouts_table_not_drained");
    }
    drop(back);
    drop(x);
    for (thread, loc, msg) in crate::take_panics() {
        r.violation(&format!("panic/{loc}"), &format!("thread {thread} panicked: {msg}"), case.clone(), json!({}));
    }
}

/// The bootstrap node comes up late: the node starts with a bootstrap address where nothing listens yet; a
/// peer joins through it and alone answers its pings and its 15-minute refresh; then that peer goes away
/// for good, the table drains, and the bootstrap node finally comes up (a passive first node). The node has
/// to go back to its bootstrap list.
pub fn late_bootstrap_scenario(r: &mut Report, seed: u64) {
    r.eval();
    let mut rng = Rng::new(seed);
    let w = World::with_cfg(seed, NetCfg::default(), TraceLevel::Off);
    let case = json!({"class":"late-bootstrap","seed":seed.to_string()});
    let boot_addr = SocketAddrV4::new(Ipv4Addr::new(10, 78, 0, 1), 6881);
    let x = w.spawn(NodeSpec::server(Ipv4Addr::new(10, 78, 0, 2), &[boot_addr])).expect("x");
    w.run_for(rng.range(1, 30) * SEC);
    let peers = 1 + rng.usize(3);
    let mut ps = vec![];
    for i in 0..peers {
        let p = w.spawn(NodeSpec::server(Ipv4Addr::new(10, 78, 0, 10 + i as u8), &[x.addr])).expect("peer");
        w.block_on(p.adht.bootstrapped(), 60 * SEC);
        ps.push(p);
    }
    // ping rounds and at least one refresh answered by the peers alone
    w.run_for(16 * MIN + rng.below(15 * MIN));
    let knew = w.block_on(x.adht.to_bootstrap(), 5 * SEC).map(|t| t.len()).unwrap_or(0);
    for p in ps.drain(..) {
        w.crash(p);
    }
    let outage = 21 * MIN + rng.below(9 * MIN);
    w.run_for(outage);
    let drained = w.block_on(x.adht.to_bootstrap(), 5 * SEC).map(|t| t.is_empty()).unwrap_or(false);
    let mut spec = NodeSpec::server(*boot_addr.ip(), &[]);
    spec.port = Some(boot_addr.port());
    let back = w.spawn(spec).expect("bootstrap node starts");
    let t_back = w.now();
    let mut recovered_after = None;
    for k in 1..=8u64 {
        w.run_to(t_back + k * 30 * SEC);
        let tb = w.block_on(x.adht.to_bootstrap(), 5 * SEC).unwrap_or_default();
        if !tb.is_empty() && recovered_after.is_none() {
            recovered_after = Some(k * 30);
        }
    }
    r.count("late_bootstrap_scenarios");
    if drained && knew > 0 {
        r.count("late_bootstrap/table_learned_from_joiners_then_drained");
        r.nontrivial(mix(seed, outage));
        if recovered_after.map(|s| s > 90).unwrap_or(true) {
            r.violation("health/table-stays-empty/bootstrap-node-came-up-late", "the table stayed empty for more than 90 s although the (late) bootstrap node is reachable", case.clone(), json!({"peers": peers, "outage_min": outage / MIN, "recovered_after_s": recovered_after}));
        }
    } else {
        r.count("late_bootstrap/premise-unmet");
    }
    drop(back);
    drop(x);
    for (thread, loc, msg) in crate::take_panics() {
        r.violation(&format!("panic/{loc}"), &format!("thread {thread} panicked: {msg}"), case.clone(), json!({}));
    }
}

/// Mixed versions with a full bucket: the node lives among scripted peers that all answer everything.
/// Twenty-odd of them speak an older version (no signed peers) and fill the furthest bucket of the basic
/// table; then a handful of peers that do support signed peers appear in the same bucket. The basic table
/// has no room for them - correctly - but the signed-peers table, which only ever holds such peers, does:
/// every one of them that has answered this node must be in it and must stay in it for as long as it
/// keeps answering.
pub fn mixed_versions_scenario(r: &mut Report, seed: u64) {
    use crate::bencode::B;
    use crate::krpc::*;
    use std::cell::RefCell;
    use std::rc::Rc;
    r.eval();
    let mut rng = Rng::new(seed);
    let w = World::with_cfg(seed, NetCfg::default(), TraceLevel::Off);
    let case = json!({"class":"mixed-versions","seed":seed.to_string()});
    let n_old = 22 + rng.usize(10);
    let n_new = 2 + rng.usize(10);
    let old_version: Option<[u8; 4]> = *rng.pick(&[None, Some(*b"LT\x01\x02"), Some([82, 83, 0, 5]), Some(*b"UT\x00\x00")]);
    struct Peer {
        id: [u8; 20],
        addr: SocketAddrV4,
        new: bool,
        listed: bool,
        first_answer: Option<u64>,
        answers: u64,
    }
    let boot_addr = SocketAddrV4::new(Ipv4Addr::new(10, 79, 1, 1), 6881);
    let x = w.spawn(NodeSpec::server(Ipv4Addr::new(10, 79, 0, 2), &[boot_addr])).expect("x");
    let xid = w.block_on(x.adht.info(), 3 * SEC).map(|i| *i.id().as_bytes()).unwrap_or([0; 20]);
    let peers: Rc<RefCell<Vec<Peer>>> = Rc::new(RefCell::new(vec![]));
    let mut socks = HashMap::new();
    for i in 0..n_old + n_new {
        let mut id = [0u8; 20];
        for b in id.iter_mut() {
            *b = rng.u64() as u8;
        }
        // the furthest bucket of x: first bit differs
        id[0] = (id[0] & 0x7f) | (!xid[0] & 0x80);
        let addr = SocketAddrV4::new(Ipv4Addr::new(10, 79, 1 + (i / 200) as u8, 1 + (i % 200) as u8), 6881);
        socks.insert(w.raw(addr), i);
        peers.borrow_mut().push(Peer { id, addr, new: i >= n_old, listed: i < n_old, first_answer: None, answers: 0 });
    }
    let p2 = peers.clone();
    let xaddr = x.addr;
    let mut rr = Rng::new(mix(seed, 77));
    w.set_responder(Some(Box::new(move |w, sock, d| {
        let Some(&i) = socks.get(&sock) else { return false };
        let Some(q) = Krpc::parse(&d.bytes) else { return true };
        if q.y != b'q' {
            return true;
        }
        let mut ps = p2.borrow_mut();
        let mut rd = vec![("id", B::bytes(&ps[i].id))];
        if q.target().is_some() {
            let listed: Vec<usize> = (0..ps.len()).filter(|j| ps[*j].listed && *j != i).collect();
            let mut pick = vec![];
            for _ in 0..8 {
                let j = listed[rr.usize(listed.len())];
                if !pick.contains(&j) {
                    pick.push(j);
                }
            }
            let nodes: Vec<([u8; 20], SocketAddrV4)> = pick.iter().map(|j| (ps[*j].id, ps[*j].addr)).collect();
            rd.push(("nodes", B::Bytes(nodes_bytes(&nodes))));
            if q.q.as_deref() != Some("find_node") {
                rd.push(("token", B::bytes(b"tokn")));
            }
        }
        let v: Option<[u8; 4]> = if ps[i].new { Some(VERSION_RS6) } else { old_version };
        w.raw_send(sock, &response(&q.t, B::dict(rd), None, v.as_ref().map(|v| &v[..])).encode(), d.from);
        if d.from == xaddr {
            ps[i].answers += 1;
            if ps[i].first_answer.is_none() {
                ps[i].first_answer = Some(w.now());
            }
        }
        true
    })));
    let t0 = w.now();
    w.block_on(x.adht.bootstrapped(), 60 * SEC);
    // let the old-version peers fill the bucket
    let mut full_at = None;
    for k in 0..20u64 {
        let a = x.adht.clone();
        let t = Id::random();
        w.block_on(async move { drop(a.find_node(t).await) }, 30 * SEC);
        w.run_for(5 * SEC);
        if let Some(snap) = snapshot(&w, &x) {
            if snap.table.nodes.len() >= 20 {
                full_at = Some(k);
                break;
            }
        }
    }
    // the peers that support signed peers appear
    let t_join = w.now();
    for p in peers.borrow_mut().iter_mut() {
        p.listed = true;
    }
    let total = 25 * MIN + rng.below(25 * MIN);
    let mut samples = 0u64;
    let mut checks = 0u64;
    let mut not_in_basic = 0u64;
    let mut failed = false;
    while w.now() < t_join + total && !failed {
        w.run_for(rng.range(20, 150) * SEC);
        if rng.usize(3) == 0 {
            let a = x.adht.clone();
            let t = Id::random();
            match rng.usize(3) {
                0 => w.block_on(async move { drop(a.find_node(t).await) }, 30 * SEC),
                1 => w.block_on(async move { drop(a.get_closest_nodes(t).await) }, 30 * SEC),
                _ => w.block_on(async move { drop(a.get_immutable(t).await) }, 30 * SEC),
            };
        }
        let Some(snap) = snapshot(&w, &x) else { continue };
        samples += 1;
        let basic: HashSet<SocketAddrV4> = snap.table.nodes.iter().map(|n| n.1).collect();
        let signed: HashSet<SocketAddrV4> = snap.signed_table.nodes.iter().map(|n| n.1).collect();
        let now = w.now();
        for p in peers.borrow().iter().filter(|p| p.new) {
            // answered at least a second ago (the answer has certainly been handled)
            let Some(t_first) = p.first_answer else { continue };
            if now < t_first + SEC {
                continue;
            }
            checks += 1;
            if !basic.contains(&p.addr) {
                not_in_basic += 1;
            }
            if !signed.contains(&p.addr) {
                failed = true;
                r.violation(
                    "health/answering-peer-missing/signed-peers-table-has-room",
                    "a peer that supports signed peers and answers every request of this node is not in the node's signed-peers routing table although that table holds fewer than twenty nodes",
                    case.clone(),
                    json!({"peer": p.addr.to_string(), "answers_so_far": p.answers, "first_answered_ago_s": (now - t_first) / SEC, "signed_table_size": signed.len(), "basic_table_size": basic.len(), "in_basic_table": basic.contains(&p.addr), "old_peers": n_old, "new_peers": n_new, "since_start_min": (now - t0) / MIN}),
                );
                break;
            }
        }
    }
    r.count("mixed_version_scenarios");
    r.add("mixed_version/samples", samples);
    r.add("mixed_version/answering_signed_capable_peer_in_signed_table_checks", checks);
    r.add("mixed_version/checks_with_peer_refused_by_full_basic_bucket", not_in_basic);
    if full_at.is_some() && not_in_basic > 0 {
        r.count("mixed_version/basic_bucket_was_full");
        r.nontrivial(mix(seed, n_old as u64 * 64 + n_new as u64));
    } else {
        r.count("mixed_version/premise-unmet");
    }
    w.set_responder(None);
    drop(x);
    for (thread, loc, msg) in crate::take_panics() {
        r.violation(&format!("panic/{loc}"), &format!("thread {thread} panicked: {msg}"), case.clone(), json!({}));
    }
}

pub fn run(a: &Args) -> Report {
    let mut r = Report::new("C14");
    if let Some(path) = &a.replay {
        let v: Value = serde_json::from_str(&std::fs::read_to_string(path).unwrap_or_default()).unwrap_or_default();
        let c = &v["case"];
        if c["class"] == "late-bootstrap" {
            late_bootstrap_scenario(&mut r, c["seed"].as_str().and_then(|s| s.parse().ok()).unwrap_or(1));
            return r;
        }
        if c["class"] == "mixed-versions" {
            mixed_versions_scenario(&mut r, c["seed"].as_str().and_then(|s| s.parse().ok()).unwrap_or(1));
            return r;
        }
        if c["class"] == "blackout" {
            blackout_scenario(&mut r, c["seed"].as_str().and_then(|s| s.parse().ok()).unwrap_or(1));
            return r;
        }
        let g = |k: &str| c[k].as_u64().unwrap_or(0);
        scenario(&mut r, &Params { seed: c["seed"].as_str().and_then(|s| s.parse().ok()).unwrap_or(1), servers: g("servers") as usize, clients: g("clients") as usize, plan: g("plan") as usize, hours_x10: g("hours_x10"), churn: g("churn") as usize, api_lookups: c["api_lookups"].as_bool().unwrap_or(false) });
        return r;
    }
    let n = (if a.quick() { 48 } else { 640 }) / a.nshards.max(1);
    let mut rng = Rng::new(mix(a.seed, 0xc14 + a.shard));
    for _ in 0..(if a.quick() { 64 } else { 1600 }) / a.nshards.max(1) {
        let s = rng.u64();
        super::guarded(&mut r, json!({"class":"blackout","seed":s.to_string()}), |r| blackout_scenario(r, s));
        r.count("blackout_scenarios");
        let s = rng.u64();
        super::guarded(&mut r, json!({"class":"late-bootstrap","seed":s.to_string()}), |r| late_bootstrap_scenario(r, s));
        let s = rng.u64();
        super::guarded(&mut r, json!({"class":"mixed-versions","seed":s.to_string()}), |r| mixed_versions_scenario(r, s));
    }
    // networks in which buckets fill up (capacity binds): private addresses or BEP42 ids from the start, so
    // that no re-key re-buckets a full table
    let bigs: Vec<(usize, usize, u64)> = if a.quick() {
        match a.shard {
            0 => vec![(45, 1, 5)],
            1 => vec![(65, 3, 5)],
            _ => vec![],
        }
    } else {
        vec![(45 + (a.shard as usize % 4) * 10, 1, 12), (50 + (a.shard as usize % 3) * 15, 3, 20)]
    };
    for (servers, plan, hours_x10) in bigs {
        let p = Params { seed: rng.u64(), servers, clients: 0, plan, hours_x10, churn: rng.usize(2), api_lookups: true };
        super::guarded(&mut r, case_json(&p), |r| scenario(r, &p));
        r.count("timelines");
    }
    for _ in 0..n {
        let p = Params {
            seed: rng.u64(),
            servers: *rng.pick(&[2usize, 4, 5, 6, 8, 10, 14, 20]),
            clients: *rng.pick(&[0usize, 0, 1, 3]),
            plan: *rng.pick(&[0usize, 1, 2, 3, 7]),
            hours_x10: if a.quick() { *rng.pick(&[8u64, 10, 12]) } else { *rng.pick(&[20u64, 30, 40, 60]) },
            churn: rng.usize(3),
            api_lookups: rng.bool(),
        };
        super::guarded(&mut r, case_json(&p), |r| scenario(r, &p));
        r.count("timelines");
    }
    r
}

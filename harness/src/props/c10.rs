//! C10 — KRPC wire format round-trips and matches the BEPs.
//! Oracle: an independent reference encoder (harness bencode, BEP5/42/43/44/signed-peers key names
//! and compact formats) built from the same typed message; decode(encode(m)) ≡ m; the literal
//! examples of /repo/beps decode to the stated values and re-encode to the same dictionary.
use crate::bencode::{hex, parse_strict, B};
use crate::krpc::{addr_bytes, nodes_bytes};
use crate::report::Report;
use crate::rng::{fnv, Rng};
use crate::Args;
use dht::verif::*;
use dht::{Id, Node};
use serde_json::json;
use std::net::{Ipv4Addr, SocketAddrV4};
use std::panic::{catch_unwind, AssertUnwindSafe};

fn nodes_b(nodes: &[Node]) -> B {
    let v: Vec<([u8; 20], SocketAddrV4)> = nodes.iter().map(|n| (*n.id().as_bytes(), n.address())).collect();
    B::Bytes(nodes_bytes(&v))
}

/// Reference encoding of a typed message. `t_width` 2 or 4. `ro` is emitted only when set
/// (BEP43), `implied_port` only when Some(true) (BEP5: "present and non-zero").
pub fn ref_encode(m: &WireMessage, t_width: usize) -> B {
    let t = if t_width == 2 { (m.transaction_id as u16).to_be_bytes().to_vec() } else { m.transaction_id.to_be_bytes().to_vec() };
    let mut top: Vec<(&str, B)> = vec![("t", B::Bytes(t))];
    if let Some(v) = m.version {
        top.push(("v", B::bytes(&v)));
    }
    if let Some(ip) = m.requester_ip {
        top.push(("ip", B::Bytes(addr_bytes(&ip))));
    }
    if m.read_only {
        top.push(("ro", B::Int(1)));
    }
    match &m.message_type {
        MessageType::Request(RequestSpecific { requester_id, request_type }) => {
            top.push(("y", B::str("q")));
            let mut a: Vec<(&str, B)> = vec![("id", B::bytes(requester_id.as_bytes()))];
            let q = match request_type {
                RequestTypeSpecific::Ping => "ping",
                RequestTypeSpecific::FindNode(x) => {
                    a.push(("target", B::bytes(x.target.as_bytes())));
                    "find_node"
                }
                RequestTypeSpecific::GetPeers(x) => {
                    a.push(("info_hash", B::bytes(x.info_hash.as_bytes())));
                    "get_peers"
                }
                RequestTypeSpecific::GetSignedPeers(x) => {
                    a.push(("info_hash", B::bytes(x.info_hash.as_bytes())));
                    "get_signed_peers"
                }
                RequestTypeSpecific::GetValue(x) => {
                    a.push(("target", B::bytes(x.target.as_bytes())));
                    if let Some(s) = x.seq {
                        a.push(("seq", B::Int(s as i128)));
                    }
                    "get"
                }
                RequestTypeSpecific::Put(PutRequest { token, put_request_type }) => {
                    a.push(("token", B::bytes(token)));
                    match put_request_type {
                        PutRequestSpecific::AnnouncePeer(x) => {
                            a.push(("info_hash", B::bytes(x.info_hash.as_bytes())));
                            a.push(("port", B::Int(x.port as i128)));
                            if x.implied_port == Some(true) {
                                a.push(("implied_port", B::Int(1)));
                            }
                            "announce_peer"
                        }
                        PutRequestSpecific::AnnounceSignedPeer(x) => {
                            a.push(("info_hash", B::bytes(x.info_hash.as_bytes())));
                            a.push(("k", B::bytes(&x.k)));
                            a.push(("sig", B::bytes(&x.sig)));
                            // bencode integers are signed 64-bit in practice: the 64-bit pattern is kept
                            a.push(("t", B::Int(x.t as i64 as i128)));
                            "announce_signed_peer"
                        }
                        PutRequestSpecific::PutImmutable(x) => {
                            a.push(("target", B::bytes(x.target.as_bytes())));
                            a.push(("v", B::bytes(&x.v)));
                            "put"
                        }
                        PutRequestSpecific::PutMutable(x) => {
                            a.push(("target", B::bytes(x.target.as_bytes())));
                            a.push(("v", B::bytes(&x.v)));
                            a.push(("k", B::bytes(&x.k)));
                            a.push(("sig", B::bytes(&x.sig)));
                            a.push(("seq", B::Int(x.seq as i128)));
                            if let Some(s) = &x.salt {
                                a.push(("salt", B::bytes(s)));
                            }
                            if let Some(c) = x.cas {
                                a.push(("cas", B::Int(c as i128)));
                            }
                            "put"
                        }
                    }
                }
            };
            top.push(("q", B::str(q)));
            top.push(("a", B::dict(a)));
        }
        MessageType::Response(res) => {
            top.push(("y", B::str("r")));
            let mut r: Vec<(&str, B)> = Vec::new();
            let opt_nodes = |r: &mut Vec<(&str, B)>, n: &Option<Box<[Node]>>| {
                if let Some(n) = n {
                    r.push(("nodes", nodes_b(n)));
                }
            };
            match res {
                ResponseSpecific::Ping(x) => r.push(("id", B::bytes(x.responder_id.as_bytes()))),
                ResponseSpecific::FindNode(x) => {
                    r.push(("id", B::bytes(x.responder_id.as_bytes())));
                    r.push(("nodes", nodes_b(&x.nodes)));
                }
                ResponseSpecific::GetPeers(x) => {
                    r.push(("id", B::bytes(x.responder_id.as_bytes())));
                    r.push(("token", B::bytes(&x.token)));
                    opt_nodes(&mut r, &x.nodes);
                    r.push(("values", B::List(x.values.iter().map(|p| B::Bytes(addr_bytes(p))).collect())));
                }
                ResponseSpecific::GetSignedPeers(x) => {
                    r.push(("id", B::bytes(x.responder_id.as_bytes())));
                    r.push(("token", B::bytes(&x.token)));
                    opt_nodes(&mut r, &x.nodes);
                    r.push((
                        "peers",
                        B::List(
                            x.peers
                                .iter()
                                .map(|(k, t, sig)| {
                                    let mut v = k.to_vec();
                                    v.extend_from_slice(&t.to_be_bytes());
                                    v.extend_from_slice(sig);
                                    B::Bytes(v)
                                })
                                .collect(),
                        ),
                    ));
                }
                ResponseSpecific::GetImmutable(x) => {
                    r.push(("id", B::bytes(x.responder_id.as_bytes())));
                    r.push(("token", B::bytes(&x.token)));
                    opt_nodes(&mut r, &x.nodes);
                    r.push(("v", B::bytes(&x.v)));
                }
                ResponseSpecific::GetMutable(x) => {
                    r.push(("id", B::bytes(x.responder_id.as_bytes())));
                    r.push(("token", B::bytes(&x.token)));
                    opt_nodes(&mut r, &x.nodes);
                    r.push(("v", B::bytes(&x.v)));
                    r.push(("k", B::bytes(&x.k)));
                    r.push(("sig", B::bytes(&x.sig)));
                    r.push(("seq", B::Int(x.seq as i128)));
                }
                ResponseSpecific::NoValues(x) => {
                    r.push(("id", B::bytes(x.responder_id.as_bytes())));
                    r.push(("token", B::bytes(&x.token)));
                    opt_nodes(&mut r, &x.nodes);
                }
                ResponseSpecific::NoMoreRecentValue(x) => {
                    r.push(("id", B::bytes(x.responder_id.as_bytes())));
                    r.push(("token", B::bytes(&x.token)));
                    opt_nodes(&mut r, &x.nodes);
                    r.push(("seq", B::Int(x.seq as i128)));
                }
            }
            top.push(("r", B::dict(r)));
        }
        MessageType::Error(e) => {
            top.push(("y", B::str("e")));
            top.push(("e", B::List(vec![B::Int(e.code as i128), B::str(&e.description)])));
        }
    }
    B::dict(top)
}

/// Fields the statement leaves open: `ro` = 0 is the same as absent; `implied_port` = 0 too.
fn normalize(mut b: B) -> B {
    if b.get("ro").and_then(|x| x.as_int()) == Some(0) {
        b.remove("ro");
    }
    if let Some(mut a) = b.remove("a") {
        if a.get("implied_port").and_then(|x| x.as_int()) == Some(0) {
            a.remove("implied_port");
        }
        b.set("a", a);
    }
    b
}

fn kind_of(m: &WireMessage) -> String {
    match &m.message_type {
        MessageType::Request(r) => match &r.request_type {
            RequestTypeSpecific::Ping => "q/ping".into(),
            RequestTypeSpecific::FindNode(_) => "q/find_node".into(),
            RequestTypeSpecific::GetPeers(_) => "q/get_peers".into(),
            RequestTypeSpecific::GetSignedPeers(_) => "q/get_signed_peers".into(),
            RequestTypeSpecific::GetValue(_) => "q/get".into(),
            RequestTypeSpecific::Put(p) => match &p.put_request_type {
                PutRequestSpecific::AnnouncePeer(_) => "q/announce_peer".into(),
                PutRequestSpecific::AnnounceSignedPeer(_) => "q/announce_signed_peer".into(),
                PutRequestSpecific::PutImmutable(_) => "q/put_immutable".into(),
                PutRequestSpecific::PutMutable(_) => "q/put_mutable".into(),
            },
        },
        MessageType::Response(r) => match r {
            ResponseSpecific::Ping(_) => "r/ping".into(),
            ResponseSpecific::FindNode(_) => "r/find_node".into(),
            ResponseSpecific::GetPeers(_) => "r/get_peers".into(),
            ResponseSpecific::GetSignedPeers(_) => "r/get_signed_peers".into(),
            ResponseSpecific::GetImmutable(_) => "r/get_immutable".into(),
            ResponseSpecific::GetMutable(_) => "r/get_mutable".into(),
            ResponseSpecific::NoValues(_) => "r/no_values".into(),
            ResponseSpecific::NoMoreRecentValue(_) => "r/no_more_recent_value".into(),
        },
        MessageType::Error(_) => "e".into(),
    }
}

fn rid(rng: &mut Rng) -> Id {
    Id::from(rng.array::<20>())
}
fn raddr(rng: &mut Rng) -> SocketAddrV4 {
    let ip = match rng.usize(6) {
        0 => Ipv4Addr::new(0, 0, 0, 0),
        1 => Ipv4Addr::new(255, 255, 255, 255),
        2 => Ipv4Addr::new(127, 0, 0, 1),
        _ => Ipv4Addr::from(rng.u32()),
    };
    let port = match rng.usize(5) {
        0 => 0,
        1 => 65535,
        2 => 6881,
        _ => rng.u32() as u16,
    };
    SocketAddrV4::new(ip, port)
}
fn rblob(rng: &mut Rng, max: usize) -> Box<[u8]> {
    let n = match rng.usize(8) {
        0 => 0,
        1 => 1,
        2 => max,
        3 => max.saturating_sub(1),
        4 => 4,
        _ => rng.usize(max.min(200) + 1),
    };
    rng.bytes(n).into_boxed_slice()
}
fn rnodes(rng: &mut Rng) -> Box<[Node]> {
    let n = *rng.pick(&[0usize, 1, 2, 8, 20, 20, 21, 50, 70]);
    (0..n).map(|_| Node::new(rid(rng), raddr(rng))).collect()
}
fn ropt_nodes(rng: &mut Rng) -> Option<Box<[Node]>> {
    if rng.chance(1, 3) {
        None
    } else {
        Some(rnodes(rng))
    }
}
fn ri64(rng: &mut Rng) -> i64 {
    match rng.usize(9) {
        0 => 0,
        1 => 1,
        2 => -1,
        3 => i64::MIN,
        4 => i64::MAX,
        5 => i64::MIN + 1,
        6 => 1_700_000_000_000_000,
        _ => rng.u64() as i64,
    }
}
fn ru64(rng: &mut Rng) -> u64 {
    match rng.usize(8) {
        0 => 0,
        1 => 1,
        2 => u64::MAX,
        3 => i64::MAX as u64,
        4 => i64::MAX as u64 + 1,
        5 => 1_790_000_000_000_000,
        _ => rng.u64(),
    }
}

pub fn gen_message(rng: &mut Rng, kind: usize) -> WireMessage {
    let tid = match rng.usize(7) {
        0 => 0,
        1 => 1,
        2 => 0xffff,
        3 => 0x10000,
        4 => u32::MAX,
        5 => rng.u32() & 0xffff,
        _ => rng.u32(),
    };
    let message_type = match kind % 19 {
        0 => MessageType::Request(RequestSpecific { requester_id: rid(rng), request_type: RequestTypeSpecific::Ping }),
        1 => MessageType::Request(RequestSpecific { requester_id: rid(rng), request_type: RequestTypeSpecific::FindNode(FindNodeRequestArguments { target: rid(rng) }) }),
        2 => MessageType::Request(RequestSpecific { requester_id: rid(rng), request_type: RequestTypeSpecific::GetPeers(GetPeersRequestArguments { info_hash: rid(rng) }) }),
        3 => MessageType::Request(RequestSpecific { requester_id: rid(rng), request_type: RequestTypeSpecific::GetSignedPeers(GetPeersRequestArguments { info_hash: rid(rng) }) }),
        4 => MessageType::Request(RequestSpecific {
            requester_id: rid(rng),
            request_type: RequestTypeSpecific::GetValue(GetValueRequestArguments { target: rid(rng), seq: if rng.bool() { Some(ri64(rng)) } else { None }, salt: None }),
        }),
        5 => MessageType::Request(RequestSpecific {
            requester_id: rid(rng),
            request_type: RequestTypeSpecific::Put(PutRequest {
                token: rblob(rng, 32),
                put_request_type: PutRequestSpecific::AnnouncePeer(AnnouncePeerRequestArguments {
                    info_hash: rid(rng),
                    port: raddr(rng).port(),
                    implied_port: *rng.pick(&[None, Some(true), Some(false)]),
                }),
            }),
        }),
        6 => MessageType::Request(RequestSpecific {
            requester_id: rid(rng),
            request_type: RequestTypeSpecific::Put(PutRequest {
                token: rblob(rng, 32),
                put_request_type: PutRequestSpecific::AnnounceSignedPeer(AnnounceSignedPeerRequestArguments { info_hash: rid(rng), t: ru64(rng), k: rng.array(), sig: rng.array() }),
            }),
        }),
        7 => MessageType::Request(RequestSpecific {
            requester_id: rid(rng),
            request_type: RequestTypeSpecific::Put(PutRequest {
                token: rblob(rng, 32),
                put_request_type: PutRequestSpecific::PutImmutable(PutImmutableRequestArguments { target: rid(rng), v: rblob(rng, 1000) }),
            }),
        }),
        8 => MessageType::Request(RequestSpecific {
            requester_id: rid(rng),
            request_type: RequestTypeSpecific::Put(PutRequest {
                token: rblob(rng, 32),
                put_request_type: PutRequestSpecific::PutMutable(PutMutableRequestArguments {
                    target: rid(rng),
                    v: rblob(rng, 1000),
                    k: rng.array(),
                    seq: ri64(rng),
                    sig: rng.array(),
                    salt: if rng.bool() { Some(rblob(rng, 64)) } else { None },
                    cas: if rng.bool() { Some(ri64(rng)) } else { None },
                }),
            }),
        }),
        9 => MessageType::Response(ResponseSpecific::Ping(PingResponseArguments { responder_id: rid(rng) })),
        10 => MessageType::Response(ResponseSpecific::FindNode(FindNodeResponseArguments { responder_id: rid(rng), nodes: rnodes(rng) })),
        11 => MessageType::Response(ResponseSpecific::GetPeers(GetPeersResponseArguments {
            responder_id: rid(rng),
            token: rblob(rng, 32),
            values: (0..*rng.pick(&[0usize, 1, 2, 20, 50])).map(|_| raddr(rng)).collect(),
            nodes: ropt_nodes(rng),
        })),
        12 => MessageType::Response(ResponseSpecific::GetSignedPeers(GetSignedPeersResponseArguments {
            responder_id: rid(rng),
            token: rblob(rng, 32),
            peers: (0..*rng.pick(&[0usize, 1, 2, 10, 15])).map(|_| (rng.array(), ru64(rng), rng.array())).collect(),
            nodes: ropt_nodes(rng),
        })),
        13 => MessageType::Response(ResponseSpecific::GetImmutable(GetImmutableResponseArguments { responder_id: rid(rng), token: rblob(rng, 32), nodes: ropt_nodes(rng), v: rblob(rng, 1000) })),
        14 => MessageType::Response(ResponseSpecific::GetMutable(GetMutableResponseArguments {
            responder_id: rid(rng),
            token: rblob(rng, 32),
            nodes: ropt_nodes(rng),
            v: rblob(rng, 1000),
            k: rng.array(),
            seq: ri64(rng),
            sig: rng.array(),
        })),
        15 => MessageType::Response(ResponseSpecific::NoValues(NoValuesResponseArguments { responder_id: rid(rng), token: rblob(rng, 32), nodes: ropt_nodes(rng) })),
        16 => MessageType::Response(ResponseSpecific::NoMoreRecentValue(NoMoreRecentValueResponseArguments { responder_id: rid(rng), token: rblob(rng, 32), nodes: ropt_nodes(rng), seq: ri64(rng) })),
        _ => MessageType::Error(ErrorSpecific {
            code: *rng.pick(&[201, 202, 203, 204, 205, 206, 207, 301, 302, 0, -1, i32::MAX, i32::MIN]),
            description: rng.pick(&["", "A Generic Error Ocurred", "Bad token", "sequence number less than current", "ünïcödé ✓"]).to_string(),
        }),
    };
    WireMessage {
        transaction_id: tid,
        version: if rng.bool() { Some(rng.array()) } else { None },
        requester_ip: if rng.bool() { Some(raddr(rng)) } else { None },
        message_type,
        read_only: rng.chance(1, 3),
    }
}

fn has_optional(m: &WireMessage) -> bool {
    m.version.is_some()
        || m.requester_ip.is_some()
        || m.read_only
        || match &m.message_type {
            MessageType::Request(r) => matches!(&r.request_type, RequestTypeSpecific::GetValue(_) | RequestTypeSpecific::Put(_)),
            MessageType::Response(r) => !matches!(r, ResponseSpecific::Ping(_)),
            MessageType::Error(_) => false,
        }
}

pub fn check_message(r: &mut Report, m: &WireMessage) {
    r.eval();
    let kind = kind_of(m);
    let case = || json!({"class":"roundtrip","kind":kind,"message": format!("{m:?}").chars().take(900).collect::<String>()});
    let want = normalize(ref_encode(m, 4));
    // 1. encode matches the reference byte for byte (after dropping ro=0 / implied_port=0)
    let enc = match catch_unwind(AssertUnwindSafe(|| m.encode())) {
        Err(_) => {
            let _ = crate::take_panics();
            r.violation(&format!("encode/panic/{kind}"), "to_bytes panicked", case(), json!({}));
            return;
        }
        Ok(Err(e)) => {
            r.violation(&format!("encode/error/{kind}"), &format!("to_bytes failed: {e}"), case(), json!({}));
            return;
        }
        Ok(Ok(b)) => b,
    };
    match parse_strict(&enc) {
        None => r.violation(&format!("encode/non-canonical/{kind}"), "encoding is not canonical bencode", case(), json!({"bytes": hex(&enc)})),
        Some(got) => {
            let got = normalize(got);
            if got != want {
                // name the first differing key to make signatures witness-specific
                let diff = first_diff(&got, &want);
                r.violation(&format!("encode/differs-from-reference/{kind}/{diff}"), "encoding differs from the BEP reference encoding", case(), json!({"got": got.to_json(), "want": want.to_json()}));
            }
        }
    }
    // 2. decode(encode(m)) ≡ m ; 3. the reference bytes (absent ro, 2- and 4-byte t) decode to m
    let mut inputs: Vec<(&str, Vec<u8>)> = vec![("own", enc.clone()), ("ref4", ref_encode(m, 4).encode())];
    if m.transaction_id <= 0xffff {
        inputs.push(("ref2", ref_encode(m, 2).encode()));
    }
    for (which, bytes) in inputs {
        if bytes.len() < 15 {
            continue;
        }
        match catch_unwind(AssertUnwindSafe(|| WireMessage::decode(&bytes))) {
            Err(_) => {
                let _ = crate::take_panics();
                r.violation(&format!("decode/panic/{which}/{kind}"), "from_bytes panicked on a valid message", case(), json!({"bytes": hex(&bytes)}));
            }
            Ok(Err(e)) => r.violation(&format!("decode/rejects/{which}/{kind}"), &format!("from_bytes rejected a valid message: {e}"), case(), json!({"bytes": hex(&bytes)})),
            Ok(Ok(d)) => {
                let dk = kind_of(&d);
                if dk != kind {
                    r.violation(&format!("decode/kind/{which}/{kind}->{dk}"), "decoded to another message kind", case(), json!({"bytes": hex(&bytes)}));
                } else if normalize(ref_encode(&d, 4)) != want {
                    let diff = first_diff(&normalize(ref_encode(&d, 4)), &want);
                    r.violation(&format!("decode/not-equivalent/{which}/{kind}/{diff}"), "decode(encode(m)) is not equivalent to m", case(), json!({"decoded": format!("{d:?}").chars().take(600).collect::<String>()}));
                }
            }
        }
    }
    if has_optional(m) {
        r.nontrivial(fnv(&enc));
    }
    r.count(&format!("kind:{kind}"));
    if r.want_sample() && r.evaluations % 97 == 5 {
        r.sample(json!({"kind": kind, "bytes": String::from_utf8_lossy(&enc[..enc.len().min(160)]).into_owned(), "len": enc.len()}));
    }
}

fn first_diff(a: &B, b: &B) -> String {
    match (a, b) {
        (B::Dict(x), B::Dict(y)) => {
            let keys: std::collections::BTreeSet<&Vec<u8>> = x.iter().map(|e| &e.0).chain(y.iter().map(|e| &e.0)).collect();
            for k in keys {
                let ks = String::from_utf8_lossy(k).into_owned();
                match (a.get(&ks), b.get(&ks)) {
                    (Some(p), Some(q)) if p != q => return format!("{ks}.{}", first_diff(p, q)),
                    (Some(_), None) => return format!("{ks}:extra"),
                    (None, Some(_)) => return format!("{ks}:missing"),
                    _ => {}
                }
            }
            "?".into()
        }
        _ => "value".into(),
    }
}

struct Example {
    name: &'static str,
    bytes: &'static [u8],
    /// None = skipped with reason
    skip: Option<&'static str>,
}

const EXAMPLES: &[Example] = &[
    Example { name: "bep5/error", bytes: b"d1:eli201e23:A Generic Error Ocurrede1:t2:aa1:y1:ee", skip: None },
    Example { name: "bep5/ping-q", bytes: b"d1:ad2:id20:abcdefghij0123456789e1:q4:ping1:t2:aa1:y1:qe", skip: None },
    Example { name: "bep5/ping-r", bytes: b"d1:rd2:id20:mnopqrstuvwxyz123456e1:t2:aa1:y1:re", skip: None },
    Example { name: "bep5/find_node-q", bytes: b"d1:ad2:id20:abcdefghij01234567896:target20:mnopqrstuvwxyz123456e1:q9:find_node1:t2:aa1:y1:qe", skip: None },
    Example { name: "bep5/find_node-r", bytes: b"d1:rd2:id20:0123456789abcdefghij5:nodes9:def456...e1:t2:aa1:y1:re", skip: Some("the BEP prints a 9-byte placeholder 'def456...' for the compact node string (not a multiple of 26)") },
    Example { name: "bep5/get_peers-q", bytes: b"d1:ad2:id20:abcdefghij01234567899:info_hash20:mnopqrstuvwxyz123456e1:q9:get_peers1:t2:aa1:y1:qe", skip: None },
    Example { name: "bep5/get_peers-r-values", bytes: b"d1:rd2:id20:abcdefghij01234567895:token8:aoeusnth6:valuesl6:axje.u6:idhtnmee1:t2:aa1:y1:re", skip: None },
    Example { name: "bep5/get_peers-r-nodes", bytes: b"d1:rd2:id20:abcdefghij01234567895:nodes9:def456...5:token8:aoeusnthe1:t2:aa1:y1:re", skip: Some("9-byte placeholder node string") },
    Example { name: "bep5/announce_peer-q", bytes: b"d1:ad2:id20:abcdefghij012345678912:implied_porti1e9:info_hash20:mnopqrstuvwxyz1234564:porti6881e5:token8:aoeusnthe1:q13:announce_peer1:t2:aa1:y1:qe", skip: None },
    Example { name: "bep5/announce_peer-r", bytes: b"d1:rd2:id20:mnopqrstuvwxyz123456e1:t2:aa1:y1:re", skip: None },
    // BEP43: the same ping with the read-only flag as printed ('2:roi1e')
    Example { name: "bep43/ping-q-ro", bytes: b"d1:ad2:id20:abcdefghij0123456789e1:q4:ping2:roi1e1:t2:aa1:y1:qe", skip: None },
    // BEP5 announce without implied_port (the argument is optional)
    Example { name: "bep5/announce_peer-q-no-implied", bytes: b"d1:ad2:id20:abcdefghij01234567899:info_hash20:mnopqrstuvwxyz1234564:porti6881e5:token8:aoeusnthe1:q13:announce_peer1:t2:aa1:y1:qe", skip: None },
];

fn expected_of_example(name: &str) -> Option<WireMessage> {
    let id = |s: &[u8; 20]| Id::from(*s);
    let mt = match name {
        "bep5/error" => MessageType::Error(ErrorSpecific { code: 201, description: "A Generic Error Ocurred".into() }),
        "bep5/ping-q" | "bep43/ping-q-ro" => MessageType::Request(RequestSpecific { requester_id: id(b"abcdefghij0123456789"), request_type: RequestTypeSpecific::Ping }),
        "bep5/ping-r" | "bep5/announce_peer-r" => MessageType::Response(ResponseSpecific::Ping(PingResponseArguments { responder_id: id(b"mnopqrstuvwxyz123456") })),
        "bep5/find_node-q" => MessageType::Request(RequestSpecific {
            requester_id: id(b"abcdefghij0123456789"),
            request_type: RequestTypeSpecific::FindNode(FindNodeRequestArguments { target: id(b"mnopqrstuvwxyz123456") }),
        }),
        "bep5/get_peers-q" => MessageType::Request(RequestSpecific {
            requester_id: id(b"abcdefghij0123456789"),
            request_type: RequestTypeSpecific::GetPeers(GetPeersRequestArguments { info_hash: id(b"mnopqrstuvwxyz123456") }),
        }),
        "bep5/get_peers-r-values" => MessageType::Response(ResponseSpecific::GetPeers(GetPeersResponseArguments {
            responder_id: id(b"abcdefghij0123456789"),
            token: b"aoeusnth".to_vec().into_boxed_slice(),
            // "axje.u" = 97.120.106.101:11893, "idhtnm" = 105.100.104.116:28269
            values: vec![SocketAddrV4::new(Ipv4Addr::new(b'a', b'x', b'j', b'e'), u16::from_be_bytes([b'.', b'u'])), SocketAddrV4::new(Ipv4Addr::new(b'i', b'd', b'h', b't'), u16::from_be_bytes([b'n', b'm']))],
            nodes: None,
        })),
        "bep5/announce_peer-q" | "bep5/announce_peer-q-no-implied" => MessageType::Request(RequestSpecific {
            requester_id: id(b"abcdefghij0123456789"),
            request_type: RequestTypeSpecific::Put(PutRequest {
                token: b"aoeusnth".to_vec().into_boxed_slice(),
                put_request_type: PutRequestSpecific::AnnouncePeer(AnnouncePeerRequestArguments {
                    info_hash: id(b"mnopqrstuvwxyz123456"),
                    port: 6881,
                    implied_port: if name.ends_with("no-implied") { None } else { Some(true) },
                }),
            }),
        }),
        _ => return None,
    };
    Some(WireMessage { transaction_id: 0x6161, version: None, requester_ip: None, message_type: mt, read_only: name == "bep43/ping-q-ro" })
}

pub fn check_examples(r: &mut Report) {
    for ex in EXAMPLES {
        r.eval();
        if let Some(why) = ex.skip {
            r.notes.insert(format!("skipped:{}", ex.name), json!(why));
            // still: must not panic
            if catch_unwind(AssertUnwindSafe(|| WireMessage::decode(ex.bytes))).is_err() {
                let _ = crate::take_panics();
                r.violation(&format!("bep-example/panic/{}", ex.name), "decoder panicked on a BEP example", json!({"class":"example","name":ex.name}), json!({}));
            }
            continue;
        }
        let case = json!({"class":"example","name":ex.name,"bytes":String::from_utf8_lossy(ex.bytes)});
        let want_msg = expected_of_example(ex.name).expect("expected value");
        let decoded = match catch_unwind(AssertUnwindSafe(|| WireMessage::decode(ex.bytes))) {
            Err(_) => {
                let _ = crate::take_panics();
                r.violation(&format!("bep-example/panic/{}", ex.name), "decoder panicked on a BEP example", case, json!({}));
                continue;
            }
            Ok(Err(e)) => {
                r.violation(&format!("bep-example/rejected/{}", ex.name), &format!("BEP example rejected: {e}"), case, json!({}));
                continue;
            }
            Ok(Ok(d)) => d,
        };
        if kind_of(&decoded) != kind_of(&want_msg) || normalize(ref_encode(&decoded, 4)) != normalize(ref_encode(&want_msg, 4)) {
            r.violation(&format!("bep-example/decodes-to-other-value/{}", ex.name), "BEP example decodes to a value other than the BEP states", case.clone(), json!({"decoded": format!("{decoded:?}")}));
        }
        // re-encode: same dictionary, `v`/`ro` aside
        match decoded.encode() {
            Err(e) => r.violation(&format!("bep-example/reencode-error/{}", ex.name), &e, case.clone(), json!({})),
            Ok(bytes) => {
                let strip = |b: &[u8]| -> Option<B> {
                    let mut d = parse_strict(b)?;
                    d.remove("v");
                    d.remove("ro");
                    Some(d)
                };
                let (got, want) = (strip(&bytes), strip(ex.bytes));
                if got.is_none() || want.is_none() {
                    r.violation(&format!("bep-example/reencode-non-canonical/{}", ex.name), "re-encoding is not canonical bencode", case.clone(), json!({"bytes": hex(&bytes)}));
                    continue;
                }
                let (mut got, mut want) = (got.expect("some"), want.expect("some"));
                // transaction id: compared on its own (width) and then removed
                let (gt, wt) = (got.remove("t"), want.remove("t"));
                if got != want {
                    let diff = first_diff(&got, &want);
                    r.violation(&format!("bep-example/reencode-differs/{}/{diff}", ex.name), "re-encoded BEP example differs from the printed bytes (v, ro, t aside)", case.clone(), json!({"got": got.to_json(), "want": want.to_json()}));
                }
                let gv = gt.as_ref().and_then(|t| t.as_bytes()).map(|t| t.iter().fold(0u64, |a, b| (a << 8) | *b as u64));
                let wv = wt.as_ref().and_then(|t| t.as_bytes()).map(|t| t.iter().fold(0u64, |a, b| (a << 8) | *b as u64));
                if gv != wv {
                    r.violation(&format!("bep-example/reencode-tid-value/{}", ex.name), "transaction id value changed by the round trip", case.clone(), json!({}));
                } else if gt != wt {
                    // the statement asks for byte identity; the typed message keeps no id width
                    r.violation("bep-example/reencode-tid-width", "a 2-byte transaction id is re-encoded with 4 bytes (t2:aa -> t4:\\0\\0aa), so BEP examples are not reproduced byte-identically", case.clone(), json!({"example": ex.name}));
                }
            }
        }
        r.nontrivial(fnv(ex.bytes));
        r.count("bep_examples_checked");
    }
}

pub fn run(a: &Args) -> Report {
    if let Some(path) = &a.replay {
        let mut r = Report::new("C10");
        let v: serde_json::Value = serde_json::from_str(&std::fs::read_to_string(path).unwrap_or_default()).unwrap_or_default();
        if v["case"]["class"] == "example" {
            check_examples(&mut r);
        } else {
            // regenerate with the recorded seed (cases are a deterministic function of the seed)
            let seed = v["seed"].as_u64().unwrap_or(1);
            let inner = Args { prop: a.prop.clone(), tier: v["tier"].as_str().unwrap_or("quick").into(), seed, shard: 0, nshards: 1, out: String::new(), replay: None, threads: a.threads.max(1), extra: vec![] };
            return run(&inner);
        }
        return r;
    }
    let n: u64 = if a.quick() { 1_000_000 } else { 30_000_000 };
    let threads = a.threads.max(1);
    let mut total = Report::new("C10");
    let parts: Vec<Report> = std::thread::scope(|s| {
        let hs: Vec<_> = (0..threads)
            .map(|tid| {
                s.spawn(move || {
                    let mut r = Report::new("C10");
                    let mut rng = Rng::new(crate::rng::mix(a.seed, 1000 + tid as u64));
                    if tid == 0 {
                        check_examples(&mut r);
                    }
                    let per = n / threads as u64;
                    for i in 0..per {
                        let m = gen_message(&mut rng, i as usize);
                        check_message(&mut r, &m);
                    }
                    r
                })
            })
            .collect();
        hs.into_iter().map(|h| h.join().expect("thread")).collect()
    });
    for p in parts {
        total.merge(p);
    }
    total
}

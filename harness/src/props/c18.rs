//! C18 — client, server and adaptive modes (BEP43).
use super::net::*;
use crate::bencode::B;
use crate::crc32c::bep42_valid;
use crate::krpc::*;
use crate::report::Report;
use crate::rng::{mix, Rng};
use crate::sha1::immutable_target;
use crate::simnet::*;
use crate::Args;
use dht::Id;
use serde_json::{json, Value};
use std::cell::RefCell;
use std::collections::HashSet;
use std::net::{Ipv4Addr, SocketAddrV4};
use std::rc::Rc;

fn all_queries(t: &[u8], id: &[u8; 20], target: &[u8; 20]) -> Vec<(&'static str, Vec<u8>)> {
    vec![
        ("ping", q_ping(t, id)),
        ("find_node", q_find_node(t, id, target, false, Some(&VERSION_RS6))),
        ("get_peers", q_get_peers(t, id, target, false)),
        ("get_signed_peers", q_get_peers(t, id, target, true)),
        ("get", q_get(t, id, target, None)),
        ("get-seq", q_get(t, id, target, Some(3))),
        ("announce_peer", q_announce_peer(t, id, target, 999, None, b"tokn")),
        ("announce_signed_peer", q_announce_signed_peer(t, id, target, &[7; 32], &[8; 64], 1_790_000_000_000_000, b"tokn")),
        ("put-immutable", q_put_immutable(t, id, b"tokn", &immutable_target(b"abc"), b"abc")),
        ("put-mutable", q_put_mutable(t, id, b"tokn", target, b"abc", &[7; 32], &[8; 64], 1, None, None)),
        // requests a server would answer with an error rather than a response (size limits, malformed fields)
        ("put-immutable-oversize", q_put_immutable(t, id, b"tokn", &immutable_target(&[b'x'; 1001]), &[b'x'; 1001])),
        ("put-mutable-oversize", q_put_mutable(t, id, b"tokn", target, &[b'y'; 1200], &[7; 32], &[8; 64], 1, None, None)),
        ("put-mutable-long-salt", q_put_mutable(t, id, b"tokn", target, b"abc", &[7; 32], &[8; 64], 1, Some(&[b'z'; 65]), None)),
        ("put-mutable-cas", q_put_mutable(t, id, b"tokn", target, b"abc", &[7; 32], &[8; 64], 1, Some(b"s"), Some(0))),
        ("put-immutable-hash-mismatch", q_put_immutable(t, id, b"tokn", target, b"abc")),
    ]
}

/// Parts A, B: client-mode nodes are read-only and silent; read-only requesters are never inserted.
pub fn modes_scenario(r: &mut Report, seed: u64) {
    r.eval();
    let mut rng = Rng::new(seed);
    let w = World::with_cfg(seed, NetCfg::default(), TraceLevel::Full);
    let case = json!({"class":"modes","seed":seed.to_string()});
    let plan = [IpPlan::Public, IpPlan::Private, IpPlan::Mixed][rng.usize(3)];
    let n_servers = 2 + rng.usize(4);
    let net = build_net(&w, n_servers, 0, plan, false, &mut rng);
    let client = w.spawn(NodeSpec::client(Ipv4Addr::new(60, 0, 0, 1), &[net.boot])).expect("client");
    w.block_on(client.adht.bootstrapped(), 60 * SEC);
    // the client makes every kind of request through the API
    let v = rng.blob(3, 30);
    let signer = dht::SigningKey::from_bytes(&rng.array::<32>());
    let ih = Id::from(rng.array::<20>());
    w.block_on(client.adht.put_immutable(&v), 60 * SEC);
    w.block_on(client.adht.put_mutable(dht::MutableItem::new(&signer, b"x", 1, None), None), 60 * SEC);
    w.block_on(client.adht.announce_peer(ih, Some(7)), 60 * SEC);
    w.block_on(client.adht.announce_signed_peer(ih, &signer), 60 * SEC);
    w.block_on(client.adht.get_immutable(Id::from(immutable_target(&v))), 60 * SEC);
    w.block_on(client.adht.find_node(ih), 60 * SEC);
    // raw endpoints fire every request kind at the client
    let cannon = w.raw(SocketAddrV4::new(Ipv4Addr::new(61, 1, 1, 1), 6881));
    let cid: [u8; 20] = rng.array();
    let target: [u8; 20] = rng.array();
    let mut fired = 0;
    for (i, (_, q)) in all_queries(&[0, 0, 0, 9], &cid, &target).into_iter().enumerate() {
        let mut q = q;
        // patch a distinct transaction id into each
        if let Some(mut b) = crate::bencode::parse_strict(&q) {
            b.set("t", B::Bytes(vec![0xaa, i as u8]));
            q = b.encode();
        }
        w.raw_send(cannon, &q, client.addr);
        fired += 1;
    }
    // read-only and normal requesters contact every server (incl. the first node)
    let ro_sock = w.raw(SocketAddrV4::new(Ipv4Addr::new(62, 2, 2, 2), 6881));
    let rw_sock = w.raw(SocketAddrV4::new(Ipv4Addr::new(63, 3, 3, 3), 6881));
    let (ro_id, rw_id): ([u8; 20], [u8; 20]) = (rng.array(), rng.array());
    for n in &net.nodes {
        w.raw_send(ro_sock, &q_find_node(&[1, 1], &ro_id, &ro_id, true, Some(&VERSION_RS6)), n.addr);
        w.raw_send(rw_sock, &q_find_node(&[2, 2], &rw_id, &rw_id, false, Some(&VERSION_RS6)), n.addr);
    }
    w.run_for(3 * SEC);
    let (sends, _) = sends_and_delivers(&w.trace_from(0));
    // (a) client datagrams
    let mut client_requests = 0;
    for m in sends.iter().filter(|m| m.from == client.addr) {
        if m.k.y == b'q' {
            client_requests += 1;
            if !m.k.ro {
                r.violation(&format!("client/request-without-ro/{}", m.k.q.clone().unwrap_or_default()), "a client-mode node sent a request without ro=1", case.clone(), json!({"to": m.to.to_string()}));
                break;
            }
        } else {
            r.violation(&format!("client/replied/{}", if m.k.y == b'r' { "response" } else { "error" }), "a client-mode node replied to a request", case.clone(), json!({"to": m.to.to_string()}));
            break;
        }
    }
    r.add("client_requests_seen", client_requests);
    r.add("requests_fired_at_client", fired);
    // (b) tables
    let client_addr = client.addr;
    let ro_addr = w.sock_addr(ro_sock).expect("ro");
    let rw_addr = w.sock_addr(rw_sock).expect("rw");
    let mut rw_seen_main_first = false;
    let mut rw_seen_signed = 0;
    for (i, n) in net.nodes.iter().enumerate() {
        let Some(s) = snapshot(&w, n) else { continue };
        let main: HashSet<SocketAddrV4> = s.table.nodes.iter().map(|x| x.1).collect();
        let signed: HashSet<SocketAddrV4> = s.signed_table.nodes.iter().map(|x| x.1).collect();
        for (who, addr) in [("raw-ro-requester", ro_addr), ("client-mode-node", client_addr)] {
            if main.contains(&addr) || signed.contains(&addr) {
                r.violation(&format!("server/inserted-read-only-requester/{who}"), "a server's routing table contains a read-only requester", case.clone(), json!({"server": n.addr.to_string(), "first_node": i == 0, "in_main": main.contains(&addr), "in_signed": signed.contains(&addr)}));
            }
        }
        if i == 0 && main.contains(&rw_addr) {
            rw_seen_main_first = true;
        }
        if signed.contains(&rw_addr) {
            rw_seen_signed += 1;
        }
        r.count("server_tables_checked");
    }
    // positive control: the same request without ro is admitted (first node: main table; all: signed table)
    if !rw_seen_main_first || rw_seen_signed == 0 {
        r.count("control_rw_requester_not_admitted");
    } else {
        r.count("control_rw_requester_admitted");
    }
    r.nontrivial(mix(seed, 0xa));
    if r.want_sample() {
        r.sample(json!({"case": case, "servers": n_servers, "client_requests": client_requests, "rw_control_admitted": rw_seen_main_first}));
    }
    drop(client);
    drop(net);
    w.shutdown();
    for (thread, loc, msg) in crate::take_panics() {
        r.violation(&format!("panic/{loc}"), &format!("thread {thread} panicked: {msg}"), case.clone(), json!({}));
    }
}

/// Part C: replies flagged read-only are ignored by the requester.
pub fn ro_reply_scenario(r: &mut Report, seed: u64, flagged: bool) {
    r.eval();
    let mut rng = Rng::new(seed);
    let w = World::with_cfg(seed, NetCfg::default(), TraceLevel::Off);
    let case = json!({"class":"ro-replies","seed":seed.to_string(),"flagged":flagged});
    let ends: Vec<([u8; 20], SocketAddrV4)> = (0..2).map(|i| (rng.array(), SocketAddrV4::new(Ipv4Addr::new(64, 0, 0, 1 + i), 6881))).collect();
    let socks: Vec<SockId> = ends.iter().map(|e| w.raw(e.1)).collect();
    let value = rng.blob(4, 40);
    let target = immutable_target(&value);
    let (ends2, socks2, value2) = (ends.clone(), socks.clone(), value.clone());
    let answered = Rc::new(RefCell::new(0u64));
    let answered2 = answered.clone();
    w.set_responder(Some(Box::new(move |w, sock, d| {
        let Some(q) = Krpc::parse(&d.bytes) else { return true };
        if q.y != b'q' {
            return true;
        }
        let idx = socks2.iter().position(|s| *s == sock).unwrap_or(0);
        let mut rd = vec![("id", B::bytes(&ends2[idx].0)), ("nodes", B::Bytes(nodes_bytes(&ends2))), ("token", B::bytes(b"tokn"))];
        if q.is_query("get") {
            rd.push(("v", B::bytes(&value2)));
        }
        let mut msg = response(&q.t, B::dict(rd), Some(&d.from), Some(&VERSION_RS6));
        if flagged {
            msg.set("ro", B::Int(1));
        }
        *answered2.borrow_mut() += 1;
        w.raw_send(sock, &msg.encode(), d.from);
        true
    })));
    let boots: Vec<SocketAddrV4> = ends.iter().map(|e| e.1).collect();
    let server_x = rng.bool();
    let x = w.spawn(if server_x { NodeSpec::server(Ipv4Addr::new(64, 0, 9, 9), &boots) } else { NodeSpec::client(Ipv4Addr::new(64, 0, 9, 9), &boots) }).expect("x");
    let got = w.block_on(x.adht.get_immutable(Id::from(target)), 60 * SEC).flatten();
    let tb = w.block_on(x.adht.to_bootstrap(), 5 * SEC).unwrap_or_default();
    if flagged {
        if got.is_some() {
            r.violation("ro-reply/value-surfaced", "a value carried by a reply flagged ro=1 surfaced through get_immutable", case.clone(), json!({}));
        }
        if !tb.is_empty() {
            r.violation("ro-reply/responder-added", "a responder whose replies are flagged ro=1 was added to the routing table", case.clone(), json!({"table": tb}));
        }
        r.count("ro_reply_scenarios");
    } else {
        // positive control: unflagged, the same replies are used
        if std::env::var("MLV_DEBUG").is_ok() {
            eprintln!("control: got={:?} tb={:?} answered={}", got.as_ref().map(|g| g.len()), tb, *answered.borrow());
        }
        // (responders whose reply carried a value are not added by that reply - existing behaviour -
        // so the control only demands that the value surfaces)
        if got.is_some() {
            r.count("control_unflagged_replies_used");
        } else {
            r.count("control_unflagged_replies_not_used");
        }
    }
    if *answered.borrow() > 0 {
        r.nontrivial(mix(seed, flagged as u64));
    }
    drop(x);
    w.shutdown();
    let _ = crate::take_panics();
}

/// Part C2: a store acknowledgement flagged read-only is not counted.
pub fn ro_ack_scenario(r: &mut Report, seed: u64, flagged: bool) {
    r.eval();
    let mut rng = Rng::new(seed);
    let w = World::with_cfg(seed, NetCfg::default(), TraceLevel::Off);
    let case = json!({"class":"ro-acks","seed":seed.to_string(),"flagged":flagged});
    let ends: Vec<([u8; 20], SocketAddrV4)> = (0..3).map(|i| (rng.array(), SocketAddrV4::new(Ipv4Addr::new(65, 0, 0, 1 + i), 6881))).collect();
    let socks: Vec<SockId> = ends.iter().map(|e| w.raw(e.1)).collect();
    let (ends2, socks2) = (ends.clone(), socks.clone());
    let stores = Rc::new(RefCell::new(0u64));
    let stores2 = stores.clone();
    let kind = rng.usize(3);
    w.set_responder(Some(Box::new(move |w, sock, d| {
        let Some(q) = Krpc::parse(&d.bytes) else { return true };
        if q.y != b'q' {
            return true;
        }
        let idx = socks2.iter().position(|s| *s == sock).unwrap_or(0);
        let is_store = matches!(q.q.as_deref(), Some("put") | Some("announce_peer") | Some("announce_signed_peer"));
        let mut msg = if is_store {
            *stores2.borrow_mut() += 1;
            // ack, or an error: both must be ignored when flagged
            if kind == 2 {
                crate::krpc::error(&q.t, 301, "x")
            } else {
                response(&q.t, B::dict(vec![("id", B::bytes(&ends2[idx].0))]), Some(&d.from), Some(&VERSION_RS6))
            }
        } else {
            response(&q.t, B::dict(vec![("id", B::bytes(&ends2[idx].0)), ("nodes", B::Bytes(nodes_bytes(&ends2))), ("token", B::bytes(b"tokn"))]), Some(&d.from), Some(&VERSION_RS6))
        };
        if is_store && flagged {
            msg.set("ro", B::Int(1));
        }
        w.raw_send(sock, &msg.encode(), d.from);
        true
    })));
    let boots: Vec<SocketAddrV4> = ends.iter().map(|e| e.1).collect();
    let x = w.spawn(NodeSpec::client(Ipv4Addr::new(65, 0, 9, 9), &boots)).expect("x");
    let signer = dht::SigningKey::from_bytes(&rng.array::<32>());
    let res: Option<String> = match kind {
        0 => w.block_on(x.adht.put_immutable(b"some value"), 120 * SEC).map(|r| format!("{r:?}")),
        1 => w.block_on(x.adht.announce_peer(Id::from(rng.array::<20>()), None), 120 * SEC).map(|r| format!("{r:?}")),
        _ => w.block_on(x.adht.put_mutable(dht::MutableItem::new(&signer, b"v", 2, None), Some(1)), 120 * SEC).map(|r| format!("{r:?}")),
    };
    let got = res.clone().unwrap_or_else(|| "did-not-complete".into());
    if *stores.borrow() > 0 {
        if flagged {
            // every store reply was flagged read-only: nothing may be counted - neither acks nor 301s
            if got.starts_with("Ok") {
                r.violation("ro-ack/put-ok-on-read-only-acks", "a put returned Ok although every acknowledgement was flagged ro=1", case.clone(), json!({"result": got}));
            } else if got.contains("CasFailed") {
                r.violation("ro-ack/error-reply-counted", "a 301 reply flagged ro=1 was counted", case.clone(), json!({"result": got}));
            }
            r.count("ro_ack_scenarios");
        } else if (kind < 2 && got.starts_with("Ok")) || (kind == 2 && got.contains("CasFailed")) {
            r.count("control_unflagged_acks_counted");
        } else {
            r.count("control_unflagged_acks_not_counted");
        }
        r.nontrivial(mix(seed, 0xac + flagged as u64));
    }
    drop(x);
    let _ = crate::take_panics();
}

/// Part D: adaptive mode timeline (> 32 virtual minutes).
/// variant 0 public reachable, 1 behind NAT, 2 reachable but responders vote a wrong address,
/// 3 explicit server mode, 4 public_ip configured (adaptive), 5 responders vote the true address for the
/// first 5-7 minutes (the node confirms it) and a wrong one from then on, 6 the other way round,
/// 7 reachable through a static port forward (the reported port is not the port the socket is bound to; the
/// forward lets everything through, the node's own datagrams included), 8 reachable, but the path from the
/// node to its own public address and back is slow (0.6 .. 3 s: longer than any request timeout),
/// 9 reachable and confirmed, then - before the refresh - one application lookup that nobody answers (a
/// lookup without a single address vote says nothing about the node's address)
pub fn adaptive_scenario(r: &mut Report, seed: u64, variant: usize) {
    r.eval();
    let mut rng = Rng::new(seed);
    let w = World::with_cfg(seed, NetCfg::default(), TraceLevel::Full);
    let mut case = json!({"class":"adaptive","seed":seed.to_string(),"variant":variant});
    // one responder (a single address vote per lookup) up to seven
    let n_servers = 1 + rng.usize(7);
    let net = build_net(&w, n_servers, 0, IpPlan::Public, false, &mut rng);
    let ip = Ipv4Addr::new(70, 1, 2, 3);
    let mut boots = vec![net.boot];
    let mut liars: Vec<SockId> = vec![];
    let wrong = SocketAddrV4::new(Ipv4Addr::new(71, 9, 9, 9), 6881);
    let switch_at = w.now() + 5 * MIN + rng.below(120) * SEC;
    if matches!(variant, 2 | 5 | 6) {
        // only raw responders as peers: they vote `wrong` as the node's address (always / late / early)
        boots.clear();
        let ends: Vec<([u8; 20], SocketAddrV4)> = (0..3).map(|i| (rng.array(), SocketAddrV4::new(Ipv4Addr::new(72, 0, 0, 1 + i), 6881))).collect();
        for e in &ends {
            liars.push(w.raw(e.1));
            boots.push(e.1);
        }
        let (ends2, socks2) = (ends.clone(), liars.clone());
        w.set_responder(Some(Box::new(move |w, sock, d| {
            let Some(idx) = socks2.iter().position(|s| *s == sock) else { return false };
            let Some(q) = Krpc::parse(&d.bytes) else { return true };
            if q.y != b'q' {
                return true;
            }
            let rd = vec![("id", B::bytes(&ends2[idx].0)), ("nodes", B::Bytes(nodes_bytes(&ends2))), ("token", B::bytes(b"tokn"))];
            let lie = match variant {
                5 => w.now() >= switch_at,
                6 => w.now() < switch_at,
                _ => true,
            };
            let msg = response(&q.t, B::dict(rd), Some(if lie { &wrong } else { &d.from }), Some(&VERSION_RS6));
            w.raw_send(sock, &msg.encode(), d.from);
            true
        })));
    }
    let mut spec = NodeSpec::client(ip, &boots);
    match variant {
        1 => {
            spec.ip = Ipv4Addr::new(192, 168, 1, 5);
            spec.nat_public = Some(SocketAddrV4::new(ip, 40123));
        }
        3 => spec.server = true,
        4 => spec.public_ip = Some(ip),
        7 => {
            // a host with a private address behind a router, or a public host whose service port is remapped
            if rng.bool() {
                spec.ip = Ipv4Addr::new(192, 168, 1, 5);
            }
            spec.nat_public = Some(SocketAddrV4::new(ip, *rng.pick(&[40123u16, 6881, 1024, 65535])));
            spec.nat_open = true;
        }
        _ => {}
    }
    let x = w.spawn(spec).expect("x");
    let t0 = w.now();
    if variant == 8 {
        let me = x.addr;
        let extra = (600 + rng.below(2400)) * MS;
        case["hairpin_delay_ms"] = json!(extra / MS);
        w.set_fault(Some(Box::new(move |info: &SendInfo| if info.from == me && info.to == me { Some(vec![(info.bytes.to_vec(), info.latency + extra)]) } else { None })));
    }
    // neighbours of the wrongly voted address that happen to ping the node: one on the voted IP but another
    // port, one on another IP but the voted port. Neither is the address the node pinged to confirm itself.
    let neighbours = if matches!(variant, 2 | 5) { rng.usize(4) } else { 0 };
    let n_same_ip = if neighbours & 1 != 0 { Some(w.raw(SocketAddrV4::new(*wrong.ip(), 7000 + rng.usize(500) as u16))) } else { None };
    let n_same_port = if neighbours & 2 != 0 { Some(w.raw(SocketAddrV4::new(Ipv4Addr::new(74, 4, 4, 4), wrong.port()))) } else { None };
    let mut next_neighbour_ping = t0 + 30 * SEC + rng.below(60) * SEC;
    // the application checks on its node now and then: bootstrapped() (a lookup of the node's own id)
    let own_id_lookups = matches!(variant, 0 | 4 | 6 | 7 | 8) && rng.bool();
    let mut next_own_lookup = t0 + (5 + rng.below(4)) * MIN;
    if own_id_lookups {
        r.count("adaptive_worlds_with_application_lookups_of_the_own_id");
    }
    case["own_id_lookups"] = json!(own_id_lookups);
    case["neighbours"] = json!(neighbours);
    if neighbours != 0 {
        r.count("adaptive_worlds_with_pinging_neighbours_of_the_voted_address");
    }
    // (after the last of the scenario's own lookups before the first refresh - they come every four minutes - so
    // that nothing re-confirms the address in between)
    let unanswered_at = t0 + 12 * MIN + 50 * SEC + rng.below(100 * SEC);
    let mut unanswered_done = false;
    let mut timeline: Vec<(u64, bool, bool, Option<SocketAddrV4>)> = vec![];
    let mut became_server_at: Option<u64> = None;
    // occasional lookups carry address votes
    let total = 33 * MIN;
    let mut next_lookup = t0 + 2 * SEC;
    while w.now() < t0 + total {
        w.run_for(20 * SEC);
        if w.now() >= next_neighbour_ping {
            for (k, sock) in [n_same_ip, n_same_port].into_iter().enumerate() {
                if let Some(sock) = sock {
                    w.raw_send(sock, &q_ping(&[7, k as u8], &[0x61 + k as u8; 20]), x.addr);
                }
            }
            next_neighbour_ping = w.now() + 2 * MIN + rng.below(120) * SEC;
        }
        if variant == 9 && !unanswered_done && w.now() >= unanswered_at {
            unanswered_done = true;
            let me = x.addr;
            w.set_fault(Some(Box::new(move |info: &SendInfo| if info.to == me && info.from != me { Some(vec![]) } else { None })));
            let a = x.adht.clone();
            let t = Id::from(rng.array::<20>());
            w.block_on(async move { drop(a.find_node(t).await) }, 30 * SEC);
            w.set_fault(None);
            r.count("adaptive_worlds_with_an_unanswered_lookup_after_the_confirmation");
        }
        if own_id_lookups && w.now() >= next_own_lookup {
            w.block_on(x.adht.bootstrapped(), 30 * SEC);
            next_own_lookup = w.now() + (6 + rng.below(4)) * MIN;
        }
        if w.now() >= next_lookup {
            let a = x.adht.clone();
            let t = Id::from(rng.array::<20>());
            w.block_on(async move { drop(a.find_node(t).await) }, 30 * SEC);
            next_lookup = w.now() + 4 * MIN;
        }
        if let Some(i) = w.block_on(x.adht.info(), 3 * SEC) {
            if i.server_mode() && became_server_at.is_none() {
                became_server_at = Some(w.now() - t0);
            }
            timeline.push(((w.now() - t0) / SEC, i.server_mode(), i.firewalled(), i.public_address()));
        }
    }
    let info = w.block_on(x.adht.info(), 3 * SEC);
    let (sends, delivers) = sends_and_delivers(&w.trace_from(0));
    let self_pings = sends.iter().filter(|m| m.from == x.addr && m.to == x.addr && m.k.is_query("ping")).count();
    let self_pings_delivered = delivers.iter().filter(|m| m.from == x.addr && m.to == x.addr && m.k.is_query("ping")).count();
    let detail = json!({"self_pings_sent": self_pings, "self_pings_delivered": self_pings_delivered, "became_server_at_s": became_server_at.map(|t| t / SEC),
        "timeline_tail": timeline.iter().rev().take(3).map(|t| json!({"t_s": t.0, "server_mode": t.1, "firewalled": t.2, "public_address": t.3.map(|a| a.to_string())})).collect::<Vec<_>>() });
    let Some(info) = info else {
        r.violation("adaptive/info-did-not-return", "info() did not return", case.clone(), detail);
        return;
    };
    match variant {
        0 | 4 | 6 | 7 | 8 | 9 => {
            if !info.server_mode() {
                let why = if self_pings == 0 { "no-self-ping" } else if info.firewalled() { "still-firewalled" } else { "not-switched-at-refresh" };
                r.violation(&format!("adaptive/reachable-node-stays-client/{why}"), "a node reachable at the address its peers report is still in client mode after 33 minutes", case.clone(), detail.clone());
            } else {
                if info.firewalled() {
                    r.violation("adaptive/server-but-firewalled-flag", "node switched to server mode while still flagged firewalled", case.clone(), detail.clone());
                }
                // "at the next 15-minute refresh": confirmed well before the first refresh means serving right after it
                // (variants whose votes stay true throughout)
                let confirmed_early = timeline.iter().any(|t| t.0 <= 14 * 60 && !t.2 && t.3.is_some());
                if matches!(variant, 0 | 4 | 7 | 8 | 9) && confirmed_early {
                    r.count("adaptive_confirmed_before_the_first_refresh");
                    if became_server_at.map(|t| t > 17 * MIN).unwrap_or(true) {
                        r.violation("adaptive/reachable-node-stays-client/not-switched-at-the-next-refresh", "the node had confirmed its address a minute or more before its first 15-minute refresh, yet it was not serving two minutes after that refresh", case.clone(), detail.clone());
                    }
                }
                if became_server_at.map(|t| t < 14 * MIN).unwrap_or(false) {
                    r.violation("adaptive/switched-before-refresh", "node switched to server mode before its first 15-minute refresh", case.clone(), detail.clone());
                }
                if !bep42_valid(info.id().as_bytes(), ip) {
                    r.violation("adaptive/id-not-bep42-valid", "after confirming its address the node's id is not BEP42-valid for it", case.clone(), detail.clone());
                }
                // it now answers requests, and neither its answers nor its own requests are marked read-only any more
                let probe = w.raw(SocketAddrV4::new(Ipv4Addr::new(73, 3, 3, 3), 3333));
                w.raw_send(probe, &q_ping(&[9, 9], &[3; 20]), x.addr);
                let ok = w.run_until(3 * SEC, |w| w.raw_pending(probe) > 0);
                if !ok {
                    r.violation("adaptive/server-does-not-answer", "node reports server mode but does not answer a ping", case.clone(), detail.clone());
                } else if let Some((_, d)) = w.raw_recv(probe) {
                    if Krpc::parse(&d.bytes).map(|k| k.ro).unwrap_or(false) {
                        r.violation("adaptive/server-answers-flagged-read-only", "after the switch to server mode the node's answers still carry ro = 1 (requesters ignore such answers)", case.clone(), detail.clone());
                    }
                }
                if let Some(ts) = became_server_at {
                    let late_ro = sends.iter().filter(|m| m.from == x.addr && m.k.y == b'q' && m.t > t0 + ts + 40 * SEC && m.k.ro).count();
                    let late_all = sends.iter().filter(|m| m.from == x.addr && m.k.y == b'q' && m.t > t0 + ts + 40 * SEC).count();
                    r.add("requests_sent_after_the_switch_checked_for_ro", late_all as u64);
                    if late_ro > 0 {
                        r.violation("adaptive/server-still-marks-requests-read-only", "after the switch to server mode the node's own requests still carry ro = 1 (no server will ever list it)", case.clone(), json!({"requests_after_switch": late_all, "of_which_ro": late_ro, "detail": detail}));
                    }
                }
                r.count("adaptive_switched_to_server");
            }
        }
        1 | 2 | 5 => {
            if variant == 5 && !timeline.iter().any(|t| !t.2) {
                r.count("adaptive_v5_never_confirmed");
            }
            if timeline.iter().any(|t| t.1) {
                let which = match variant {
                    1 => "behind-nat",
                    2 => "wrongly-voted-address",
                    _ => "confirmed-then-wrongly-voted-address",
                };
                r.violation(&format!("adaptive/unreachable-node-became-server/{which}"), "a node whose reported address is not reachable switched to server mode", case.clone(), detail.clone());
            } else {
                r.count("adaptive_stayed_client");
            }
        }
        _ => {
            if timeline.iter().any(|t| !t.1) {
                r.violation("adaptive/explicit-server-not-server", "a node built with server_mode() reported client mode", case.clone(), detail.clone());
            } else {
                r.count("explicit_server_from_start");
            }
        }
    }
    if w.now() - t0 >= 16 * MIN {
        r.nontrivial(mix(seed, variant as u64));
    }
    if r.want_sample() {
        r.sample(json!({"case": case, "detail": detail}));
    }
    drop(x);
    drop(net);
    w.shutdown();
    for (thread, loc, msg) in crate::take_panics() {
        r.violation(&format!("panic/{loc}"), &format!("thread {thread} panicked: {msg}"), case.clone(), json!({}));
    }
}

pub fn run(a: &Args) -> Report {
    let mut r = Report::new("C18");
    if let Some(path) = &a.replay {
        let v: Value = serde_json::from_str(&std::fs::read_to_string(path).unwrap_or_default()).unwrap_or_default();
        let c = &v["case"];
        let seed = c["seed"].as_str().and_then(|s| s.parse().ok()).unwrap_or(1);
        match c["class"].as_str() {
            Some("adaptive") => adaptive_scenario(&mut r, seed, c["variant"].as_u64().unwrap_or(0) as usize),
            Some("ro-replies") => ro_reply_scenario(&mut r, seed, c["flagged"].as_bool().unwrap_or(true)),
            Some("ro-acks") => ro_ack_scenario(&mut r, seed, c["flagged"].as_bool().unwrap_or(true)),
            _ => modes_scenario(&mut r, seed),
        }
        return r;
    }
    let mut rng = Rng::new(mix(a.seed, 0xc18 + a.shard));
    let per = |q: u64, t: u64| (if a.quick() { q } else { t }) / a.nshards.max(1);
    for _ in 0..per(160, 4000) {
        let s = rng.u64();
        super::guarded(&mut r, json!({"class":"modes","seed":s.to_string()}), |r| modes_scenario(r, s));
        r.count("modes_scenarios");
    }
    for i in 0..per(320, 8000) {
        let (s, f) = (rng.u64(), i % 4 != 0);
        super::guarded(&mut r, json!({"class":"ro-replies","seed":s.to_string(),"flagged":f}), |r| ro_reply_scenario(r, s, f));
    }
    for i in 0..per(320, 8000) {
        let (s, f) = (rng.u64(), i % 4 != 0);
        super::guarded(&mut r, json!({"class":"ro-acks","seed":s.to_string(),"flagged":f}), |r| ro_ack_scenario(r, s, f));
    }
    for i in 0..per(128, 2560) {
        let (s, v) = (rng.u64(), (i + a.shard) as usize % 10);
        super::guarded(&mut r, json!({"class":"adaptive","seed":s.to_string(),"variant":v}), |r| adaptive_scenario(r, s, v));
        r.count("adaptive_timelines");
        r.count(["adaptive_reachable", "adaptive_behind_nat", "adaptive_wrongly_voted", "adaptive_explicit_server", "adaptive_public_ip", "adaptive_confirmed_then_wrongly_voted", "adaptive_wrongly_voted_then_reachable", "adaptive_reachable_through_a_port_forward", "adaptive_reachable_slow_hairpin", "adaptive_reachable_with_an_unanswered_lookup"][v]);
    }
    r
}

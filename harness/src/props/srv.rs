//! One real server-mode node in SimNet driven by raw clients; shared by C03, C04, C15, C20.
use crate::bencode::B;
use crate::krpc::*;
use crate::simnet::*;
use dht::ServerSettings;
use ed25519_dalek::{Signer, SigningKey};
use std::net::{Ipv4Addr, SocketAddrV4};

pub struct Fixture {
    pub w: World,
    pub server: Option<Node>,
    pub saddr: SocketAddrV4,
    /// re-keying fixtures: the scripted peer that reports the server's address once told to
    vote: Option<std::rc::Rc<std::cell::Cell<bool>>>,
}

pub const VOTER: SocketAddrV4 = SocketAddrV4::new(Ipv4Addr::new(45, 12, 9, 9), 6881);

pub struct Client {
    pub sock: SockId,
    pub addr: SocketAddrV4,
    pub id: [u8; 20],
    pub tid: u32,
    /// most recent token this client received, with the virtual time of issue
    pub token: Option<(Vec<u8>, u64)>,
}

#[derive(Debug, Clone)]
pub enum Reply {
    Resp(Krpc),
    Err(i128, String),
    None,
}

impl Reply {
    pub fn is_ack(&self) -> bool {
        matches!(self, Reply::Resp(_))
    }
    pub fn code(&self) -> Option<i128> {
        match self {
            Reply::Err(c, _) => Some(*c),
            _ => None,
        }
    }
    pub fn short(&self) -> String {
        match self {
            Reply::Resp(k) => {
                let mut keys: Vec<String> = match &k.r {
                    Some(B::Dict(d)) => d.iter().map(|(k, _)| String::from_utf8_lossy(k).into_owned()).collect(),
                    _ => vec![],
                };
                keys.retain(|k| k != "id" && k != "nodes" && k != "token");
                format!("r{{{}}}", keys.join(","))
            }
            Reply::Err(c, _) => format!("e{c}"),
            Reply::None => "none".into(),
        }
    }
}

pub const SERVER_IP: Ipv4Addr = Ipv4Addr::new(45, 12, 0, 1);

impl Fixture {
    pub fn new(seed: u64, settings: Option<ServerSettings>) -> Fixture {
        let w = World::with_cfg(seed, NetCfg { lat_min: MS, lat_max: MS, random_ties: true }, TraceLevel::Off);
        let mut spec = NodeSpec::server(SERVER_IP, &[]);
        spec.settings = settings;
        let server = w.spawn(spec).expect("server");
        let saddr = server.addr;
        Fixture { w, server: Some(server), saddr, vote: None }
    }
    /// A server that can be made to take a new id in the middle of a history: its only peer is a scripted
    /// endpoint that answers its lookups and, once `trigger_rekey` was called, reports the server's (true,
    /// public) address in them. The server then pings itself, the ping comes back, and - its random id not
    /// being BEP42-valid for that address - it re-keys both routing tables. Stored data, tokens and the
    /// configured request filter are not the routing tables' business and must be what they were.
    pub fn new_rekeying(seed: u64, settings: Option<ServerSettings>) -> Fixture {
        let w = World::with_cfg(seed, NetCfg { lat_min: MS, lat_max: MS, random_ties: true }, TraceLevel::Off);
        let voter = w.raw(VOTER);
        let vote = std::rc::Rc::new(std::cell::Cell::new(false));
        let v2 = vote.clone();
        let vid = [0x7e; 20];
        w.set_responder(Some(Box::new(move |w, sock, d| {
            if sock != voter {
                return false;
            }
            let Some(q) = Krpc::parse(&d.bytes) else { return true };
            if q.y != b'q' {
                return true;
            }
            let mut rd = vec![("id", B::bytes(&vid))];
            if q.target().is_some() {
                rd.push(("nodes", B::Bytes(vec![])));
            }
            let ip = if v2.get() { Some(&d.from) } else { None };
            w.raw_send(sock, &response(&q.t, B::dict(rd), ip, Some(&VERSION_RS6)).encode(), d.from);
            true
        })));
        let mut spec = NodeSpec::server(SERVER_IP, &[VOTER]);
        spec.settings = settings;
        let server = w.spawn(spec).expect("server");
        let saddr = server.addr;
        w.run_for(2 * SEC);
        Fixture { w, server: Some(server), saddr, vote: Some(vote) }
    }
    /// Returns true if the server's id changed.
    pub fn trigger_rekey(&self) -> bool {
        let (Some(vote), Some(server)) = (&self.vote, &self.server) else { return false };
        let before = self.w.block_on(server.adht.info(), 3 * SEC).map(|i| *i.id());
        vote.set(true);
        let a = server.adht.clone();
        let t = dht::Id::from([0x3c; 20]);
        self.w.block_on(async move { drop(a.find_node(t).await) }, 30 * SEC);
        self.w.run_for(2 * SEC);
        let after = self.w.block_on(server.adht.info(), 3 * SEC).map(|i| *i.id());
        before.is_some() && before != after
    }
    pub fn second_server(&self, ip: Ipv4Addr) -> Node {
        self.w.spawn(NodeSpec::server(ip, &[])).expect("server2")
    }
    pub fn client(&self, addr: SocketAddrV4, id: [u8; 20]) -> Client {
        Client { sock: self.w.raw(addr), addr, id, tid: 1, token: None }
    }
    /// Send one request (built for the given transaction id) and wait up to 1 virtual second.
    pub fn rpc_to(&self, c: &mut Client, to: SocketAddrV4, build: impl FnOnce(&[u8]) -> Vec<u8>) -> Reply {
        c.tid = c.tid.wrapping_add(1);
        let t = c.tid.to_be_bytes();
        let bytes = build(&t);
        // drain stale datagrams
        while self.w.raw_recv(c.sock).is_some() {}
        self.w.raw_send(c.sock, &bytes, to);
        let sock = c.sock;
        let mut out = Reply::None;
        self.w.run_until(SEC, |w| {
            while let Some((_, d)) = w.raw_recv(sock) {
                if let Some(k) = Krpc::parse(&d.bytes) {
                    if k.t == t {
                        out = match k.y {
                            b'e' => {
                                let (code, msg) = k.e.clone().unwrap_or((-999, vec![]));
                                Reply::Err(code, String::from_utf8_lossy(&msg).into_owned())
                            }
                            _ => Reply::Resp(k),
                        };
                        return true;
                    }
                }
            }
            false
        });
        if let Reply::Resp(k) = &out {
            if let Some(tok) = k.res_bytes("token") {
                if to == self.saddr {
                    c.token = Some((tok.to_vec(), self.w.now()));
                }
            }
        }
        out
    }
    pub fn rpc(&self, c: &mut Client, build: impl FnOnce(&[u8]) -> Vec<u8>) -> Reply {
        let to = self.saddr;
        self.rpc_to(c, to, build)
    }
    pub fn server_alive(&self) -> bool {
        self.server.as_ref().map(|s| self.w.closed(s.sock).is_none()).unwrap_or(false)
    }
    pub fn finish(mut self) -> Vec<(String, String, String)> {
        self.server = None;
        self.w.shutdown();
        crate::take_panics()
    }
}

// === payload helpers ===

pub struct Signed {
    pub k: [u8; 32],
    pub sig: [u8; 64],
}

pub fn sign_mutable(signer: &SigningKey, seq: i64, v: &[u8], salt: Option<&[u8]>) -> Signed {
    let sig = signer.sign(&crate::sha1::mutable_signable(seq, v, salt));
    Signed { k: signer.verifying_key().to_bytes(), sig: sig.to_bytes() }
}

pub fn sign_announce(signer: &SigningKey, info_hash: &[u8; 20], ts: u64) -> Signed {
    let sig = signer.sign(&announce_signable(info_hash, ts));
    Signed { k: signer.verifying_key().to_bytes(), sig: sig.to_bytes() }
}

pub fn verify(k: &[u8], msg: &[u8], sig: &[u8]) -> bool {
    use ed25519_dalek::{Signature, Verifier, VerifyingKey};
    let k: [u8; 32] = match k.try_into() {
        Ok(k) => k,
        Err(_) => return false,
    };
    let vk = match VerifyingKey::from_bytes(&k) {
        Ok(v) => v,
        Err(_) => return false,
    };
    let sig = match Signature::from_slice(sig) {
        Ok(s) => s,
        Err(_) => return false,
    };
    vk.verify(msg, &sig).is_ok()
}

/// Tokens an outsider can compute without ever talking to the node: the public token construction
/// (CRC32C over the requester's IP and a secret, big-endian) evaluated with degenerate secrets, and a few
/// other obvious derivations of the requester's address. None of them was issued by anybody.
pub const GUESS_KINDS: u8 = 6;
pub fn guessed_token(addr: SocketAddrV4, kind: u8) -> Vec<u8> {
    let ip = addr.ip().octets();
    let with_secret = |fill: u8| {
        let mut d = ip.to_vec();
        d.extend_from_slice(&[fill; 20]);
        crate::crc32c::crc32c(&d).to_be_bytes().to_vec()
    };
    match kind % GUESS_KINDS {
        0 => with_secret(0),
        1 => with_secret(0xff),
        2 => crate::crc32c::crc32c(&ip).to_be_bytes().to_vec(),
        3 => crate::sha1::sha1(&ip)[..4].to_vec(),
        4 => {
            let mut d = ip.to_vec();
            d.extend_from_slice(&addr.port().to_be_bytes());
            crate::crc32c::crc32c(&d).to_be_bytes().to_vec()
        }
        _ => ip.to_vec(),
    }
}

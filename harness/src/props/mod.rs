use crate::report::Report;
use crate::Args;

pub mod c01;
pub mod c02;
pub mod c03;
pub mod c04;
pub mod c05;
pub mod c06;
pub mod c07;
pub mod c08;
pub mod c09;
pub mod c10;
pub mod c11;
pub mod c12;
pub mod c13;
pub mod c14;
pub mod c15;
pub mod c16;
pub mod c17;
pub mod c18;
pub mod c19;
pub mod c20;
pub mod net;
pub mod sanit;
pub mod smoke;
pub mod srv;

pub fn run(a: &Args) -> Report {
    match a.prop.as_str() {
        "smoke" => smoke::run(a),
        "noop" => Report::new("noop"),
        "corpus-dump" => corpus_dump(a),
        "sanit-inproc" => sanit::inproc(a),
        "sanit-sim" => sanit::sim(a),
        "sanit-free" => sanit::free(a),
        "c19" => c19::run(a),
        "c20" => c20::run(a),
        "c18" => c18::run(a),
        "c17" => c17::run(a),
        "c10" => c10::run(a),
        "c07" => c07::run(a),
        "c08" => c08::run(a),
        "c09" => c09::run(a),
        "c06" => c06::run(a),
        "c04" => c04::run(a),
        "c05" => c05::run(a),
        "c05nest" => c05::nest_probe(a),
        "c03" => c03::run(a),
        "c02" => c02::run(a),
        "c01" => c01::run(a),
        "c11" => c11::run(a),
        "c12" => c12::run(a),
        "c16" => c16::run(a),
        "c15" => c15::run(a),
        "c14" => c14::run(a),
        "c13" => c13::run(a),
        other => {
            let mut r = Report::new(other);
            r.inconclusive(&format!("unknown property {other}"));
            r
        }
    }
}

/// Run one scenario; a panic that escapes it (typically an API call failing because the actor
/// thread died) becomes a violation named after the first panic location inside the crate.
pub fn guarded(r: &mut Report, case: serde_json::Value, f: impl FnOnce(&mut Report)) {
    let res = std::panic::catch_unwind(std::panic::AssertUnwindSafe(|| f(r)));
    if res.is_err() {
        let panics = crate::take_panics();
        let root = panics
            .iter()
            .find(|p| p.1.contains("/repo/src") || p.1.starts_with("src/") && !p.2.contains("unexpectedly shut") && !p.1.contains("props/"))
            .or(panics.first())
            .cloned()
            .unwrap_or_default();
        let loc = root.1.replace("/repo/", "");
        r.violation(&format!("panic/{loc}"), &format!("panic during the scenario (thread {}): {}", root.0, root.2), case, serde_json::json!({"all_panics": panics.iter().map(|p| format!("{} @ {}: {}", p.0, p.1, p.2)).collect::<Vec<_>>() }));
    }
}

/// Write the structured corpus as seed files for the coverage-guided fuzzer.
fn corpus_dump(a: &Args) -> Report {
    let mut r = Report::new("corpus-dump");
    let dir = a.extra.first().cloned().unwrap_or_else(|| "fuzz/corpus/decode".into());
    let _ = std::fs::create_dir_all(&dir);
    let mut rng = crate::rng::Rng::new(a.seed);
    let temps = crate::corpus::templates(&mut rng, 2);
    let mut n = 0;
    for t in &temps {
        let mut v = Vec::new();
        crate::corpus::structured(t, &mut rng, &mut v);
        for d in v.iter().step_by(7) {
            let _ = std::fs::write(format!("{dir}/{:016x}", crate::rng::fnv(d)), d);
            n += 1;
        }
    }
    r.add("seed_files", n);
    r
}

use crate::report::Report;
use crate::Args;

pub mod c01;
pub mod c02;
pub mod c03;
pub mod c04;
pub mod c05;
pub mod c06;
pub mod c07;
pub mod c10;
pub mod c11;
pub mod c12;
pub mod c13;
pub mod c14;
pub mod c15;
pub mod c16;
pub mod c18;
pub mod c19;
pub mod net;
pub mod smoke;
pub mod srv;

pub fn run(a: &Args) -> Report {
    match a.prop.as_str() {
        "smoke" => smoke::run(a),
        "c19" => c19::run(a),
        "c18" => c18::run(a),
        "c10" => c10::run(a),
        "c07" => c07::run(a),
        "c06" => c06::run(a),
        "c04" => c04::run(a),
        "c05" => c05::run(a),
        "c05nest" => c05::nest_probe(a),
        "c03" => c03::run(a),
        "c02" => c02::run(a),
        "c01" => c01::run(a),
        "c11" => c11::run(a),
        "c12" => c12::run(a),
        "c16" => c16::run(a),
        "c15" => c15::run(a),
        "c14" => c14::run(a),
        "c13" => c13::run(a),
        other => {
            let mut r = Report::new(other);
            r.inconclusive(&format!("unknown property {other}"));
            r
        }
    }
}

//! C09 — only the addressed peer can answer a request, once.
//! An adversary injects responses / errors at chosen points of a lookup or put, with guessed
//! transaction ids, from a wrong IP, the right IP on a wrong port, or the exact address (duplicates).
use super::net::*;
use crate::bencode::B;
use crate::krpc::*;
use crate::report::Report;
use crate::rng::{mix, Rng};
use crate::simnet::*;
use crate::Args;
use dht::Id;
use futures_lite::StreamExt;
use serde_json::{json, Value};
use std::collections::HashSet;
use std::net::{Ipv4Addr, SocketAddrV4};
use std::sync::{Arc, Mutex};

#[derive(Clone, Copy, Debug, PartialEq, Eq)]
pub enum Source {
    /// adversary's own IP
    OtherIp,
    /// the queried server's IP, another port
    SameIpOtherPort,
    /// exact address of the queried server (on-path duplicate / forgery)
    ExactAddress,
    /// the exact address of ANOTHER server this node has also sent a request to (so an entry for that
    /// address sits in the node's in-flight list): an addressed peer answering somebody else's request
    OtherQueriedServer,
}
#[derive(Clone, Copy, Debug, PartialEq, Eq)]
pub enum Tid {
    Outstanding,
    Plus1,
    Minus1,
    Consumed,
}
#[derive(Clone, Copy, Debug, PartialEq, Eq)]
pub enum Point {
    /// arrives before the genuine reply
    Before,
    /// arrives after the genuine reply but before the request would have expired
    After,
    /// arrives after the request expired
    AfterExpiry,
}
#[derive(Clone, Copy, Debug, PartialEq, Eq)]
pub enum Payload {
    SybilNodes,
    BogusPeers,
    BogusIpVote,
    Error301,
    Error203,
    /// a bare `r: {id}` reply (what a ping or a store acknowledgement looks like)
    PingShaped,
    /// a byte-exact copy of the genuine reply (only meaningful from the exact address), k copies
    Duplicate(usize),
}

#[derive(Clone, Debug)]
pub struct Case {
    pub seed: u64,
    pub servers: usize,
    pub source: Source,
    pub tid: Tid,
    pub point: Point,
    pub payload: Payload,
    /// 0 get_peers lookup, 1 announce_peer (lookup + store), 2 find_node
    pub call: usize,
    /// inject only at requests addressed to the holder (true) or at every request (false)
    pub only_holder: bool,
    /// one honest server (not the holder) is crashed just before the call: its request stays unanswered
    pub dead_target: bool,
}

fn case_json(c: &Case) -> Value {
    json!({"class":"injection","seed":c.seed.to_string(),"servers":c.servers,"source":format!("{:?}",c.source),"tid":format!("{:?}",c.tid),"point":format!("{:?}",c.point),"payload":format!("{:?}",c.payload),"call":c.call,"only_holder":c.only_holder,"dead_target":c.dead_target})
}

struct Observed {
    peers: Vec<Vec<SocketAddrV4>>,
    put_ok: Option<bool>,
    found_nodes: Vec<SocketAddrV4>,
    table_addrs: HashSet<SocketAddrV4>,
    public_address: Option<SocketAddrV4>,
    injected: u64,
    injected_matching_outstanding: u64,
    completed: bool,
}

const GENUINE_PEER: SocketAddrV4 = SocketAddrV4::new(Ipv4Addr::new(44, 44, 44, 44), 4444);
const BOGUS_PEER: SocketAddrV4 = SocketAddrV4::new(Ipv4Addr::new(66, 66, 66, 66), 6666);
const BOGUS_VOTE: SocketAddrV4 = SocketAddrV4::new(Ipv4Addr::new(67, 67, 67, 67), 6767);

fn run_once(c: &Case, adversary: bool) -> Observed {
    let mut rng = Rng::new(c.seed);
    let w = World::with_cfg(c.seed, NetCfg { lat_min: 20 * MS, lat_max: 60 * MS, random_ties: false }, TraceLevel::Off);
    let net = build_net(&w, c.servers, 0, IpPlan::PublicSecure, false, &mut rng);
    let info_hash: [u8; 20] = rng.array();
    // exactly one honest server holds a peer for the info-hash: written directly by a raw client
    let holder_addr = net.nodes[rng.usize(net.nodes.len())].addr;
    {
        let raw = w.raw(GENUINE_PEER);
        let id: [u8; 20] = rng.array();
        w.raw_send(raw, &q_get_peers(&[0, 1], &id, &info_hash, false), holder_addr);
        let mut token = vec![];
        w.run_until(2 * SEC, |w| {
            while let Some((_, d)) = w.raw_recv(raw) {
                if let Some(k) = Krpc::parse(&d.bytes) {
                    if let Some(t) = k.res_bytes("token") {
                        token = t.to_vec();
                        return true;
                    }
                }
            }
            false
        });
        w.raw_send(raw, &q_announce_peer(&[0, 2], &id, &info_hash, 0, Some(1), &token), holder_addr);
        w.run_for(SEC);
        w.close_raw(raw);
    }
    let x = w.spawn(NodeSpec::client(Ipv4Addr::new(33, 3, 3, 3), &[net.boot])).expect("x");
    w.block_on(x.adht.bootstrapped(), 60 * SEC);
    w.run_for(2 * SEC);
    let xaddr = x.addr;
    let mut net = net;
    let mut dead_addr: Option<SocketAddrV4> = None;
    if c.dead_target && net.nodes.len() >= 2 {
        if let Some(i) = (0..net.nodes.len()).find(|i| net.nodes[*i].addr != holder_addr && net.nodes[*i].addr != net.boot) {
            let n = net.nodes.remove(i);
            dead_addr = Some(n.addr);
            w.crash(n);
        }
    }
    // call 3: the holder also stores a NEWER mutable item, so it answers X's put_mutable with 302
    let msigner = dht::SigningKey::from_bytes(&rng.array::<32>());
    if c.call == 3 {
        let raw = w.raw(SocketAddrV4::new(Ipv4Addr::new(45, 45, 45, 45), 4545));
        let id: [u8; 20] = rng.array();
        let sg = super::srv::sign_mutable(&msigner, 9, b"newer", None);
        let target = crate::sha1::mutable_target(&sg.k, None);
        w.raw_send(raw, &q_get(&[0, 3], &id, &target, None), holder_addr);
        let mut token = vec![];
        w.run_until(2 * SEC, |w| {
            while let Some((_, d)) = w.raw_recv(raw) {
                if let Some(k) = Krpc::parse(&d.bytes) {
                    if let Some(t) = k.res_bytes("token") {
                        token = t.to_vec();
                        return true;
                    }
                }
            }
            false
        });
        w.raw_send(raw, &q_put_mutable(&[0, 4], &id, &token, &target, b"newer", &sg.k, &sg.sig, 9, None, None), holder_addr);
        w.run_for(SEC);
        w.close_raw(raw);
    }
    // adversary endpoints
    let z_other = w.raw(SocketAddrV4::new(Ipv4Addr::new(99, 9, 9, 9), 6881));
    let sybils: Vec<([u8; 20], SocketAddrV4)> = (0..8).map(|i| ({ let mut id = info_hash; id[19] ^= 1 + i as u8; id }, SocketAddrV4::new(Ipv4Addr::new(99, 9, 9, 10 + i as u8), 6881))).collect();
    // record X's requests of the call under test (time, to, tid bytes, query name) and the genuine replies
    let log: Arc<Mutex<Vec<(u64, SocketAddrV4, Vec<u8>, String)>>> = Arc::new(Mutex::new(vec![]));
    let replies: Arc<Mutex<Vec<(SocketAddrV4, Vec<u8>, Vec<u8>)>>> = Arc::new(Mutex::new(vec![]));
    let (log2, replies2) = (log.clone(), replies.clone());
    w.set_fault(Some(Box::new(move |info: &SendInfo| {
        if info.from == xaddr {
            if let Some(k) = Krpc::parse(info.bytes) {
                if k.y == b'q' {
                    log2.lock().unwrap_or_else(|e| e.into_inner()).push((info.now, info.to, k.t.clone(), k.q.clone().unwrap_or_default()));
                }
            }
        } else if info.to == xaddr && !info.raw {
            if let Some(k) = Krpc::parse(info.bytes) {
                if k.y == b'r' || k.y == b'e' {
                    replies2.lock().unwrap_or_else(|e| e.into_inner()).push((info.from, k.t.clone(), info.bytes.to_vec()));
                }
            }
        }
        None
    })));
    let mut obs = Observed { peers: vec![], put_ok: None, found_nodes: vec![], table_addrs: HashSet::new(), public_address: None, injected: 0, injected_matching_outstanding: 0, completed: false };
    let a = x.adht.clone();
    let ih = Id::from(info_hash);
    let now = w.now();
    enum Out {
        Peers(Vec<Vec<SocketAddrV4>>),
        Put(bool),
        Nodes(Vec<SocketAddrV4>),
    }
    let mut task: Task<Out> = match c.call {
        0 => Task::new(now, async move { Out::Peers(a.get_peers(ih).collect::<Vec<_>>().await) }),
        1 => Task::new(now, async move { Out::Put(a.announce_peer(ih, Some(7777)).await.is_ok()) }),
        3 => {
            let item = dht::MutableItem::new(&msigner, b"older", 3, None);
            Task::new(now, async move { Out::Put(a.put_mutable(item, None).await.is_ok()) })
        }
        _ => Task::new(now, async move { Out::Nodes(a.find_node(ih).await.iter().map(|n| n.address()).collect()) }),
    };
    let mut handled = 0usize;
    let mut dup_done: HashSet<(SocketAddrV4, Vec<u8>)> = HashSet::new();
    let mut side_socks: Vec<SockId> = vec![];
    let end = w.now() + 120 * SEC;
    let mut consumed: Vec<(SocketAddrV4, Vec<u8>)> = vec![];
    loop {
        if task.poll(w.now()) {
            break;
        }
        if adversary {
            let entries: Vec<(u64, SocketAddrV4, Vec<u8>, String)> = log.lock().unwrap_or_else(|e| e.into_inner()).clone();
            for (t_sent, to, tid, qname) in entries.iter().skip(handled) {
                handled += 1;
                if c.dead_target && Some(*to) != dead_addr {
                    consumed.push((*to, tid.clone()));
                    continue;
                }
                if !c.dead_target && c.only_holder && *to != holder_addr {
                    consumed.push((*to, tid.clone()));
                    continue;
                }
                let tid_num = tid.iter().fold(0u32, |a, b| (a << 8) | *b as u32);
                let use_tid: Vec<u8> = match c.tid {
                    Tid::Outstanding => tid.clone(),
                    Tid::Plus1 => tid_num.wrapping_add(1).to_be_bytes().to_vec(),
                    Tid::Minus1 => tid_num.wrapping_sub(1).to_be_bytes().to_vec(),
                    Tid::Consumed => consumed.first().map(|c| c.1.clone()).unwrap_or_else(|| tid_num.wrapping_sub(7).to_be_bytes().to_vec()),
                };
                let mut spoof_from: Option<SocketAddrV4> = None;
                let from_sock = match c.source {
                    Source::OtherIp => z_other,
                    Source::SameIpOtherPort => {
                        let s = w.raw(SocketAddrV4::new(*to.ip(), 1000 + side_socks.len() as u16));
                        side_socks.push(s);
                        s
                    }
                    Source::ExactAddress => continue, // handled below from the genuine replies
                    Source::OtherQueriedServer => {
                        // the most recently addressed other server
                        match entries.iter().rev().find(|e| e.1 != *to && Some(e.1) != dead_addr) {
                            Some(e) => spoof_from = Some(e.1),
                            None => continue,
                        }
                        z_other
                    }
                };
                let me: [u8; 20] = [0x5a; 20];
                let bytes = match c.payload {
                    Payload::SybilNodes => response(&use_tid, B::dict(vec![("id", B::bytes(&me)), ("nodes", B::Bytes(nodes_bytes(&sybils))), ("token", B::bytes(b"evil"))]), Some(&xaddr), Some(&VERSION_RS6)).encode(),
                    Payload::BogusPeers => response(&use_tid, B::dict(vec![("id", B::bytes(&me)), ("token", B::bytes(b"evil")), ("values", B::List(vec![B::Bytes(addr_bytes(&BOGUS_PEER))]))]), Some(&xaddr), Some(&VERSION_RS6)).encode(),
                    Payload::BogusIpVote => response(&use_tid, B::dict(vec![("id", B::bytes(&me))]), Some(&BOGUS_VOTE), Some(&VERSION_RS6)).encode(),
                    Payload::Error301 => error(&use_tid, 301, "no").encode(),
                    Payload::Error203 => error(&use_tid, 203, "no").encode(),
                    Payload::PingShaped => response(&use_tid, B::dict(vec![("id", B::bytes(&me))]), Some(&xaddr), Some(&VERSION_RS6)).encode(),
                    Payload::Duplicate(_) => continue,
                };
                // genuine replies need 40..120 ms round trip
                let elapsed = w.now() - *t_sent;
                let delay = match c.point {
                    Point::Before => MS,
                    Point::After => (200 * MS).saturating_sub(elapsed),
                    Point::AfterExpiry => 3 * SEC,
                };
                match spoof_from {
                    Some(from) => w.inject(from, &bytes, xaddr, delay),
                    None => w.raw_send_exact(from_sock, &bytes, xaddr, delay),
                }
                obs.injected += 1;
                if c.tid == Tid::Outstanding && c.point != Point::AfterExpiry {
                    obs.injected_matching_outstanding += 1;
                }
                let _ = qname;
                consumed.push((*to, tid.clone()));
            }
            if c.source == Source::ExactAddress {
                if let Payload::Duplicate(k) = c.payload {
                    let reps: Vec<(SocketAddrV4, Vec<u8>, Vec<u8>)> = replies.lock().unwrap_or_else(|e| e.into_inner()).clone();
                    for (from, tid, bytes) in reps {
                        if c.only_holder && from != holder_addr {
                            continue;
                        }
                        if !dup_done.insert((from, tid.clone())) {
                            continue;
                        }
                        // on-path duplicate: the same bytes again from the exact address
                        for j in 0..k {
                            let delay = match c.point {
                                Point::Before => MS,
                                Point::After => 130 * MS + j as u64 * 5 * MS,
                                Point::AfterExpiry => 3 * SEC,
                            };
                            w.inject(from, &bytes, xaddr, delay);
                            obs.injected += 1;
                            obs.injected_matching_outstanding += 1;
                        }
                    }
                }
            }
        }
        match w.step_until(end) {
            Step::Idle | Step::Stuck => {
                task.poll(w.now());
                break;
            }
            _ => {}
        }
    }
    obs.completed = task.done();
    match task.result.take() {
        Some(Out::Peers(p)) => obs.peers = p,
        Some(Out::Put(ok)) => obs.put_ok = Some(ok),
        Some(Out::Nodes(n)) => obs.found_nodes = n,
        None => {}
    }
    w.run_for(4 * SEC);
    if let Some(s) = snapshot(&w, &x) {
        obs.table_addrs = s.table.nodes.iter().chain(s.signed_table.nodes.iter()).map(|n| n.1).collect();
        obs.public_address = s.public_address;
    }
    w.set_fault(None);
    drop(x);
    drop(net);
    obs
}

pub fn scenario(r: &mut Report, c: &Case) {
    r.eval();
    let twin = run_once(c, false);
    let adv = run_once(c, true);
    let case = case_json(c);
    let detail = |extra: Value| json!({"injected": adv.injected, "matching_outstanding": adv.injected_matching_outstanding, "twin_peers": twin.peers.iter().flatten().map(|a| a.to_string()).collect::<Vec<_>>(), "peers": adv.peers.iter().flatten().map(|a| a.to_string()).collect::<Vec<_>>(), "extra": extra});
    let tag = format!("{:?}/{:?}/{:?}", c.source, c.tid, c.point);
    if !twin.completed {
        r.inconclusive("twin run did not complete");
        return;
    }
    if !adv.completed {
        r.violation(&format!("call-did-not-complete/{tag}"), "the call did not complete in the run with the adversary", case.clone(), detail(json!({})));
        return;
    }
    let adversarial_addrs: HashSet<Ipv4Addr> = [Ipv4Addr::new(99, 9, 9, 9)].into_iter().chain((0..8).map(|i| Ipv4Addr::new(99, 9, 9, 10 + i))).collect();
    let exact = c.source == Source::ExactAddress;
    if !exact {
        // no effect on query results
        match c.call {
            0 => {
                let got: HashSet<SocketAddrV4> = adv.peers.iter().flatten().copied().collect();
                let want: HashSet<SocketAddrV4> = twin.peers.iter().flatten().copied().collect();
                if got.contains(&BOGUS_PEER) {
                    r.violation(&format!("effect/bogus-value-yielded/{tag}"), "a peer list injected by a third party surfaced through get_peers", case.clone(), detail(json!({})));
                }
                if want.contains(&GENUINE_PEER) && !got.contains(&GENUINE_PEER) {
                    r.violation(&format!("effect/genuine-reply-lost/{tag}"), "the value held only by the honest server was not yielded in the run with the adversary (the injection displaced the genuine reply)", case.clone(), detail(json!({})));
                }
            }
            1 | 3 => {
                if twin.put_ok == Some(true) && adv.put_ok != Some(true) {
                    r.violation(&format!("effect/put-result-changed/{tag}"), "the put failed only in the run with the adversary", case.clone(), detail(json!({"twin": twin.put_ok, "adv": adv.put_ok})));
                }
            }
            _ => {
                if adv.found_nodes.iter().any(|a| adversarial_addrs.contains(a.ip())) {
                    r.violation(&format!("effect/sybil-in-result/{tag}"), "find_node returned nodes supplied by the injected message", case.clone(), detail(json!({})));
                }
            }
        }
        // routing table and address votes
        if adv.table_addrs.iter().any(|a| adversarial_addrs.contains(a.ip()) || (a.port() >= 1000 && a.port() < 1100)) {
            r.violation(&format!("effect/adversary-in-routing-table/{tag}"), "the injecting endpoint or its sybils entered the routing table", case.clone(), detail(json!({})));
        }
        if adv.public_address == Some(BOGUS_VOTE) {
            r.violation(&format!("effect/bogus-address-vote/{tag}"), "an injected `ip` vote changed the node's public address", case.clone(), detail(json!({})));
        }
    } else if let Payload::Duplicate(_) = c.payload {
        // at most once: the genuine responder's value is yielded once
        let lists_with_genuine = adv.peers.iter().filter(|l| l.contains(&GENUINE_PEER)).count();
        if c.call == 0 && lists_with_genuine > 1 {
            r.violation(&format!("duplicate/consumed-twice/{:?}", c.point), "a duplicated genuine reply was consumed more than once (the value was yielded twice)", case.clone(), detail(json!({"lists_with_genuine_peer": lists_with_genuine})));
        }
        if c.call == 0 && twin.peers.iter().flatten().any(|p| *p == GENUINE_PEER) && lists_with_genuine == 0 {
            r.violation(&format!("duplicate/genuine-lost/{:?}", c.point), "with duplicates of the genuine reply in flight the value was not yielded at all", case.clone(), detail(json!({})));
        }
        if (c.call == 1 || c.call == 3) && twin.put_ok == Some(true) && adv.put_ok != Some(true) {
            r.violation(&format!("duplicate/put-result-changed/{:?}", c.point), "duplicated replies changed the put result", case.clone(), detail(json!({})));
        }
    }
    // the genuine server is still known afterwards
    if twin.table_addrs.len() > adv.table_addrs.len() + 1 && !exact {
        r.violation(&format!("effect/routing-table-shrank/{tag}"), "honest responders are missing from the routing table only in the run with the adversary", case.clone(), detail(json!({"twin": twin.table_addrs.len(), "adv": adv.table_addrs.len()})));
    }
    r.add("injections", adv.injected);
    r.add("injections_matching_outstanding_request", adv.injected_matching_outstanding);
    if adv.injected_matching_outstanding > 0 {
        r.nontrivial(mix(c.seed, crate::rng::fnv(format!("{c:?}").as_bytes())));
    }
    if twin.peers.iter().flatten().any(|p| *p == GENUINE_PEER) || twin.put_ok == Some(true) {
        r.count("twin_runs_with_genuine_outcome");
    }
    if r.want_sample() && adv.injected_matching_outstanding > 0 {
        r.sample(json!({"case": case, "injected": adv.injected, "peers_yielded": adv.peers.iter().flatten().map(|a| a.to_string()).collect::<Vec<_>>() }));
    }
    for (thread, loc, msg) in crate::take_panics() {
        r.violation(&format!("panic/{loc}"), &format!("thread {thread} panicked: {msg}"), case.clone(), json!({}));
    }
}

/// Transaction-id hygiene across lookups. One real node looks up several info-hashes, one after the other
/// and two at a time, among scripted endpoints that hold a distinct peer per (info-hash, endpoint). Every
/// genuine reply is sent again from the exact address after 50 ms .. 20 s (late duplicates reach the node while
/// later lookups to the same endpoints are outstanding), and the referral lists name unsendable contacts
/// (port 0, the broadcast address) next to the real ones. A lookup of h may only yield peers stored under h,
/// each endpoint's list at most once, and it must yield the genuine ones.
pub fn hygiene(r: &mut Report, seed: u64) {
    r.eval();
    let mut rng = Rng::new(seed);
    let w = World::with_cfg(seed, NetCfg { lat_min: MS, lat_max: 40 * MS, random_ties: true }, TraceLevel::Off);
    let n = 2 + rng.usize(12);
    let hostile = rng.usize(3); // 0 none, 1 port-0 contact, 2 port-0 and broadcast contacts
    let case = json!({"class":"tid-hygiene","seed":seed.to_string(),"endpoints":n,"hostile_referrals":hostile});
    let ends: Vec<([u8; 20], SocketAddrV4)> = (0..n).map(|i| (rng.array(), SocketAddrV4::new(Ipv4Addr::new(10, 9, 0, 1 + i as u8), 6881))).collect();
    let socks: Vec<SockId> = ends.iter().map(|e| w.raw(e.1)).collect();
    let hashes: Vec<[u8; 20]> = (0..6).map(|k| { let mut h: [u8; 20] = rng.array(); h[0] = k as u8; h }).collect();
    let peer = |k: usize, i: usize| SocketAddrV4::new(Ipv4Addr::new(99, k as u8, i as u8, 1), 7000 + k as u16);
    // sparse referrals (a chain plus a few random edges) make lookups take several rounds; slow endpoints
    // keep a lookup alive while other lookups send their next requests
    let knows: Vec<Vec<usize>> = (0..n).map(|i| { let mut v = vec![(i + 1) % n]; for _ in 0..rng.usize(4) { v.push(rng.usize(n)); } v }).collect();
    // get_peers requests received per (info-hash index, endpoint): a node that sits in the routing table and in
    // the bootstrap list is asked twice in the first tick, and answers twice
    let asked: Arc<Mutex<std::collections::HashMap<(usize, usize), usize>>> = Arc::new(Mutex::new(Default::default()));
    let silent: Vec<bool> = (0..n).map(|i| i >= 2 && rng.chance(1, 5)).collect();
    let slow: Vec<u64> = (0..n).map(|_| *rng.pick(&[0u64, 0, 100 * MS, 200 * MS, 300 * MS])).collect();
    {
        let (ends2, socks2, hashes2, knows2, slow2, asked2) = (ends.clone(), socks.clone(), hashes.clone(), knows.clone(), slow.clone(), asked.clone());
        let silent2 = silent.clone();
        let mut rr = Rng::new(mix(seed, 0xd0b1e));
        w.set_responder(Some(Box::new(move |w, sock, d| {
            let Some(i) = socks2.iter().position(|s| *s == sock) else { return false };
            let Some(q) = Krpc::parse(&d.bytes) else { return true };
            if q.y != b'q' {
                return true;
            }
            if silent2[i] && q.is_query("get_peers") {
                return true;
            }
            // nobody acknowledges a write: a put of this node stays in its store phase until its requests expire
            if q.is_query("announce_peer") {
                return true;
            }
            let mut rd = vec![("id", B::bytes(&ends2[i].0))];
            if let Some(t) = q.target() {
                let mut list: Vec<([u8; 20], SocketAddrV4)> = knows2[i].iter().map(|j| ends2[*j]).collect();
                // unsendable contacts anywhere in the visiting order: next to the target, far from it, random
                let place = |rr: &mut Rng, salt: u8| -> [u8; 20] {
                    let mut id = t;
                    match rr.usize(3) {
                        0 => id[19] ^= 1 + salt,
                        1 => {
                            for b in id.iter_mut() {
                                *b = !*b;
                            }
                            id[19] ^= salt;
                        }
                        _ => id = rr.array(),
                    }
                    id
                };
                if hostile >= 1 {
                    let id = place(&mut rr, i as u8);
                    list.insert(rr.usize(list.len() + 1), (id, SocketAddrV4::new(Ipv4Addr::new(61, 2, 3, 4 + i as u8), 0)));
                }
                if hostile >= 2 {
                    let id = place(&mut rr, 0x40 + i as u8);
                    list.insert(rr.usize(list.len() + 1), (id, SocketAddrV4::new(Ipv4Addr::BROADCAST, 6881)));
                }
                rd.push(("nodes", B::Bytes(nodes_bytes(&list))));
                if q.is_query("get_peers") {
                    rd.push(("token", B::bytes(b"tokn")));
                    if let Some(k) = hashes2.iter().position(|h| *h == t) {
                        *asked2.lock().unwrap_or_else(|e| e.into_inner()).entry((k, i)).or_insert(0) += 1;
                        rd.push(("values", B::List(vec![B::Bytes(addr_bytes(&SocketAddrV4::new(Ipv4Addr::new(99, k as u8, i as u8, 1), 7000 + k as u16)))])));
                    }
                }
            }
            let bytes = response(&q.t, B::dict(rd), Some(&d.from), Some(&VERSION_RS6)).encode();
            w.raw_send_delayed(sock, &bytes, d.from, slow2[i]);
            // the same datagram again, later, from the same address
            for _ in 0..1 + rr.usize(2) {
                let delay = *rr.pick(&[50 * MS, 400 * MS, 2 * SEC, 6 * SEC, 20 * SEC]) + rr.below(300) * MS;
                w.raw_send_delayed(sock, &bytes, d.from, delay);
            }
            true
        })));
    }
    let boots: Vec<SocketAddrV4> = ends.iter().take(2).map(|e| e.1).collect();
    let x = w.spawn(NodeSpec::client(Ipv4Addr::new(10, 9, 9, 9), &boots)).expect("x");
    w.block_on(x.adht.bootstrapped(), 120 * SEC);
    // lookups start staggered (0 .. 10 s apart), so that a lookup's first request leaves while earlier
    // lookups are still waiting for slow or silent endpoints
    let mut starts: Vec<u64> = vec![];
    let mut t = w.now();
    for _ in 0..hashes.len() {
        starts.push(t);
        t += *rng.pick(&[0u64, 30 * MS, 150 * MS, 400 * MS, 900 * MS, 3 * SEC, 10 * SEC]);
    }
    // in half of the worlds the application also announces (1..3 times, other info hashes) while the lookups run:
    // the store requests of those puts are never acknowledged, so each put waits - with requests of its own in
    // flight - while the lookups send theirs; a put must not claim an answer that belongs to a lookup
    let n_puts = if rng.bool() { 1 + rng.usize(3) } else { 0 };
    let put_starts: Vec<u64> = (0..n_puts).map(|_| starts[0] + rng.below((t - starts[0]).max(SEC) + 2 * SEC)).collect();
    let mut put_tasks: Vec<Option<Task<bool>>> = (0..n_puts).map(|_| None).collect();
    type Fut = std::pin::Pin<Box<dyn std::future::Future<Output = Vec<Vec<SocketAddrV4>>>>>;
    let mut tasks: Vec<Option<Task<Vec<Vec<SocketAddrV4>>>>> = (0..hashes.len()).map(|_| None).collect();
    let end_all = t + 120 * SEC;
    if std::env::var("MLV_DEBUG").is_ok() {
        w.set_trace(TraceLevel::Full);
        w.clear_trace();
    }
    loop {
        let now = w.now();
        for j in 0..hashes.len() {
            if tasks[j].is_none() && now >= starts[j] {
                let a = x.adht.clone();
                let h = Id::from(hashes[j]);
                let f: Fut = Box::pin(async move { a.get_peers(h).collect::<Vec<_>>().await });
                tasks[j] = Some(Task::new(now, f));
            }
        }
        for k in 0..n_puts {
            if put_tasks[k].is_none() && now >= put_starts[k] {
                let a = x.adht.clone();
                let mut h: [u8; 20] = [0xee; 20];
                h[0] = 0x80 + k as u8;
                h[5] = seed as u8;
                put_tasks[k] = Some(Task::new(now, async move { a.announce_peer(Id::from(h), Some(6000 + k as u16)).await.is_ok() }));
            }
        }
        let mut all = true;
        for tk in tasks.iter_mut() {
            match tk {
                Some(tk) => {
                    if !tk.poll(now) {
                        all = false;
                    }
                }
                None => all = false,
            }
        }
        for tk in put_tasks.iter_mut() {
            match tk {
                Some(tk) => {
                    if !tk.poll(now) {
                        all = false;
                    }
                }
                None => all = false,
            }
        }
        if all || now >= end_all {
            break;
        }
        let next_start = (0..hashes.len()).filter(|j| tasks[*j].is_none()).map(|j| starts[j]).chain((0..n_puts).filter(|k| put_tasks[*k].is_none()).map(|k| put_starts[k])).min().unwrap_or(end_all);
        match w.step_until(next_start.max(now + 1).min(end_all)) {
            Step::Stuck => break,
            Step::Idle => {
                w.run_to(next_start.min(end_all));
            }
            _ => {}
        }
    }
    if std::env::var("MLV_DEBUG").is_ok() {
        let (sends, delivers) = sends_and_delivers(&w.trace_from(0));
        for m in sends.iter().filter(|m| m.from == x.addr) {
            eprintln!("  send t={}ms -> {} q={:?} tid={:?} ih={:?}", m.t / 1_000_000, m.to, m.k.q, m.k.t, m.k.target().map(|t| t[0]));
        }
        for m in delivers.iter().filter(|m| m.to == x.addr) {
            eprintln!("  dlvr t={}ms {} tid={:?} values={}", m.t / 1_000_000, m.from, m.k.t, m.k.res("values").is_some());
        }
    }
    let mut lookups = 0u64;
    let silent_all = (0..n).all(|i| silent[i]);
    for (j, tk) in tasks.into_iter().enumerate() {
        lookups += 1;
        let res = tk.and_then(|t| t.result);
        let Some(lists) = res else {
            r.violation("hygiene/lookup-did-not-complete", "get_peers did not complete within 120 virtual seconds", case.clone(), json!({"lookup": j}));
            continue;
        };
        let own: HashSet<SocketAddrV4> = (0..n).map(|i| peer(j, i)).collect();
        let flat: Vec<SocketAddrV4> = lists.iter().flatten().copied().collect();
        let foreign: Vec<String> = flat.iter().filter(|p| !own.contains(p)).map(|p| p.to_string()).collect();
        if !foreign.is_empty() {
            r.violation("hygiene/peers-of-another-lookup", "a lookup yielded peers that were sent in reply to another lookup's request", case.clone(), json!({"lookup": j, "foreign": foreign}));
        }
        let asked_now = asked.lock().unwrap_or_else(|e| e.into_inner()).clone();
        let too_often = (0..n).any(|i| flat.iter().filter(|p| **p == peer(j, i)).count() > asked_now.get(&(j, i)).copied().unwrap_or(0));
        if too_often {
            r.violation("hygiene/reply-consumed-twice", "an endpoint's peers were delivered to the caller more often than it was asked", case.clone(), json!({"lookup": j, "lists": lists.len()}));
        }
        // every endpoint that was asked and answers in time must be heard
        let missing: Vec<usize> = (0..n).filter(|i| !silent[*i] && asked_now.get(&(j, *i)).copied().unwrap_or(0) > 0 && !flat.contains(&peer(j, *i))).collect();
        if !missing.is_empty() && !silent_all {
            r.violation("hygiene/genuine-replies-lost", "an endpoint answered a lookup's request in time, but its peers were not yielded", case.clone(), json!({"lookup": j, "endpoints": missing}));
        }
    }
    for (k, tk) in put_tasks.into_iter().enumerate() {
        r.count("hygiene_puts_never_acknowledged");
        match tk.and_then(|t| t.result) {
            None => r.violation("hygiene/put-did-not-complete", "announce_peer did not complete within 120 virtual seconds", case.clone(), json!({"put": k})),
            Some(true) => r.violation("hygiene/put-ok-without-any-acknowledgement", "no endpoint ever acknowledges a write in this world, yet announce_peer returned Ok (an answer to another request was taken for an acknowledgement)", case.clone(), json!({"put": k})),
            Some(false) => {}
        }
    }
    if n_puts > 0 {
        r.count("hygiene_worlds_with_puts_in_flight");
    }
    r.add("hygiene_lookups", lookups);
    r.add("hygiene_unsendable_requests", w.send_errors());
    r.nontrivial(mix(seed, w.order_hash()));
    drop(x);
    w.shutdown();
    for (thread, loc, msg) in crate::take_panics() {
        r.violation(&format!("panic/{loc}"), &format!("thread {thread} panicked: {msg}"), case.clone(), json!({}));
    }
}

/// A request sent to the unspecified address: a responder refers the lookup to a contact at 0.0.0.0:P
/// (nothing filters such referrals). Nobody answers there; a third party injects a reply carrying that
/// request's (sequential) transaction id from its own IP - from another port, and from port P.
/// Neither comes from the address the request was sent to, so neither may have any effect.
pub fn unspecified_destination(r: &mut Report, seed: u64) {
    r.eval();
    let mut rng = Rng::new(seed);
    let w = World::with_cfg(seed, NetCfg { lat_min: MS, lat_max: 30 * MS, random_ties: true }, TraceLevel::Off);
    w.set_local_delivery(true);
    // the third party: its own IP on another port, its own IP on port P, or a process on the node's own host
    // (loopback) on another port. A request sent to 0.0.0.0:P is delivered to port P of the sending host, so
    // only loopback:P is "the address the request was sent to".
    // a fourth kind: the contact is listed at 127.0.0.1:P (this host) and the third party sits on ANOTHER loopback
    // address, port P
    let spoofer = rng.usize(4);
    let same_port = spoofer == 1 || spoofer == 3;
    let spoofer_name = ["other-ip-other-port", "other-ip-same-port", "loopback-other-port", "loopback-destination/other-loopback-ip-same-port"][spoofer];
    let call = rng.usize(3);
    let rp = 4000 + rng.usize(1000) as u16;
    let p_port: u16 = *rng.pick(&[6881u16, 1, 65535, rp]);
    let payload = rng.usize(3);
    let case = json!({"class":"unspecified-destination","seed":seed.to_string(),"spoofer":spoofer_name,"call":call,"port":p_port,"payload":payload});
    let h_addr = SocketAddrV4::new(Ipv4Addr::new(50, 0, 0, 1), 6881);
    let h_id: [u8; 20] = rng.array();
    let h = w.raw(h_addr);
    let target: [u8; 20] = rng.array();
    let mut ghost_id = target;
    ghost_id[19] ^= 1;
    let ghost = SocketAddrV4::new(if spoofer == 3 { Ipv4Addr::LOCALHOST } else { Ipv4Addr::UNSPECIFIED }, p_port);
    w.set_responder(Some(Box::new(move |w, sock, d| {
        if sock != h {
            return false;
        }
        let Some(q) = Krpc::parse(&d.bytes) else { return true };
        if q.y != b'q' {
            return true;
        }
        let mut rd = vec![("id", B::bytes(&h_id))];
        if q.target().is_some() {
            rd.push(("nodes", B::Bytes(nodes_bytes(&[(ghost_id, ghost)]))));
            if !q.is_query("find_node") {
                rd.push(("token", B::bytes(b"tokn")));
            }
        }
        let bytes = response(&q.t, B::dict(rd), Some(&d.from), Some(&VERSION_RS6)).encode();
        w.raw_send(sock, &bytes, d.from);
        true
    })));
    let x = w.spawn(NodeSpec::client(Ipv4Addr::new(33, 3, 3, 3), &[h_addr])).expect("x");
    w.block_on(x.adht.bootstrapped(), 60 * SEC);
    w.run_for(2 * SEC);
    let xaddr = x.addr;
    // X's requests to the ghost contact, as they leave
    let log: Arc<Mutex<Vec<Vec<u8>>>> = Arc::new(Mutex::new(vec![]));
    let log2 = log.clone();
    w.set_fault(Some(Box::new(move |info: &SendInfo| {
        if info.from == xaddr && info.to == ghost {
            if let Some(k) = Krpc::parse(info.bytes) {
                if k.y == b'q' {
                    log2.lock().unwrap_or_else(|e| e.into_inner()).push(k.t.clone());
                }
            }
        }
        None
    })));
    let z_ip = match spoofer { 2 => Ipv4Addr::LOCALHOST, 3 => Ipv4Addr::new(127, 0, 0, 2), _ => Ipv4Addr::new(99, 9, 9, 9) };
    let z_addr = SocketAddrV4::new(z_ip, if same_port { p_port } else if p_port == 7777 { 7778 } else { 7777 });
    let z = w.raw(z_addr);
    let a = x.adht.clone();
    let t = Id::from(target);
    enum Out {
        Peers(Vec<Vec<SocketAddrV4>>),
        Put(bool),
        Nodes(Vec<SocketAddrV4>),
    }
    let now = w.now();
    let mut task: Task<Out> = match call {
        0 => Task::new(now, async move { Out::Peers(a.get_peers(t).collect::<Vec<_>>().await) }),
        1 => Task::new(now, async move { Out::Put(a.announce_peer(t, Some(7777)).await.is_ok()) }),
        _ => Task::new(now, async move { Out::Nodes(a.find_node(t).await.iter().map(|n| n.address()).collect()) }),
    };
    let mut handled = 0usize;
    let mut injected = 0u64;
    let end = w.now() + 120 * SEC;
    let me: [u8; 20] = [0x5a; 20];
    let sybil = SocketAddrV4::new(Ipv4Addr::new(99, 9, 9, 10), 6881);
    loop {
        if task.poll(w.now()) {
            break;
        }
        let tids: Vec<Vec<u8>> = log.lock().unwrap_or_else(|e| e.into_inner()).clone();
        for tid in tids.iter().skip(handled) {
            handled += 1;
            let bytes = match payload {
                0 => response(tid, B::dict(vec![("id", B::bytes(&me)), ("token", B::bytes(b"evil")), ("values", B::List(vec![B::Bytes(addr_bytes(&BOGUS_PEER))]))]), Some(&BOGUS_VOTE), Some(&VERSION_RS6)).encode(),
                1 => response(tid, B::dict(vec![("id", B::bytes(&me)), ("token", B::bytes(b"evil")), ("nodes", B::Bytes(nodes_bytes(&[({ let mut i = target; i[19] ^= 2; i }, sybil)])))]), Some(&BOGUS_VOTE), Some(&VERSION_RS6)).encode(),
                _ => response(tid, B::dict(vec![("id", B::bytes(&me))]), Some(&BOGUS_VOTE), Some(&VERSION_RS6)).encode(),
            };
            w.raw_send_exact(z, &bytes, xaddr, (1 + rng.below(200)) * MS);
            injected += 1;
        }
        match w.step_until(end) {
            Step::Idle | Step::Stuck => {
                task.poll(w.now());
                break;
            }
            _ => {}
        }
    }
    let mut sybil_asked = false;
    w.run_for(4 * SEC);
    while let Some((_, d)) = w.raw_recv(z) {
        if Krpc::parse(&d.bytes).map(|k| k.y == b'q').unwrap_or(false) {
            sybil_asked = true;
        }
    }
    let snap = snapshot(&w, &x);
    w.set_fault(None);
    let kind = spoofer_name;
    let fail = |r: &mut Report, what: &str, text: &str| r.violation(&format!("effect/unspecified-destination/{kind}/{what}"), text, case.clone(), json!({"injected": injected}));
    if injected == 0 {
        r.count("unspecified_destination/request-to-0.0.0.0-never-seen");
    } else {
        r.count(&format!("unspecified_destination/injected/{kind}"));
        r.nontrivial(mix(seed, w.order_hash()));
        match task.result.take() {
            None => fail(r, "call-did-not-complete", "the call did not complete"),
            Some(Out::Peers(p)) => {
                if p.iter().flatten().any(|a| *a == BOGUS_PEER) {
                    fail(r, "bogus-peers-yielded", "a reply from a third party's address to a request sent to 0.0.0.0:P surfaced its peers through get_peers");
                }
            }
            Some(Out::Put(ok)) => {
                if ok && payload != 2 {
                    fail(r, "put-ok", "announce_peer returned Ok although no addressed node exists: the third party's reply was taken as a token-bearing answer");
                }
            }
            Some(Out::Nodes(n)) => {
                if n.iter().any(|a| *a == z_addr || *a == sybil) {
                    fail(r, "adversary-among-found-nodes", "find_node returned the third party or its sybil");
                }
            }
        }
        if let Some(sn) = snap {
            if sn.table.nodes.iter().chain(sn.signed_table.nodes.iter()).any(|n| n.1 == z_addr || n.1 == sybil) {
                fail(r, "adversary-in-routing-table", "the third party (or its sybil) entered the routing table");
            }
            if sn.public_address == Some(BOGUS_VOTE) {
                fail(r, "address-vote-counted", "the third party's ip vote was counted");
            }
        }
        if sybil_asked && payload == 1 {
            fail(r, "sybil-followed", "the lookup followed the third party's referral");
        }
    }
    drop(x);
    for (thread, loc, msg) in crate::take_panics() {
        r.violation(&format!("panic/{loc}"), &format!("thread {thread} panicked: {msg}"), case.clone(), json!({}));
    }
}

pub fn run(a: &Args) -> Report {
    let mut r = Report::new("C09");
    if let Some(path) = &a.replay {
        let v: Value = serde_json::from_str(&std::fs::read_to_string(path).unwrap_or_default()).unwrap_or_default();
        let c = &v["case"];
        let s = |k: &str| c[k].as_str().unwrap_or("").to_string();
        if c["class"].as_str() == Some("unspecified-destination") {
            let seed = s("seed").parse().unwrap_or(1);
            super::guarded(&mut r, c.clone(), |r| unspecified_destination(r, seed));
            return r;
        }
        if c["class"].as_str() == Some("tid-hygiene") {
            let seed = s("seed").parse().unwrap_or(1);
            super::guarded(&mut r, c.clone(), |r| hygiene(r, seed));
            return r;
        }
        let case = Case {
            seed: s("seed").parse().unwrap_or(1),
            servers: c["servers"].as_u64().unwrap_or(2) as usize,
            source: match s("source").as_str() { "SameIpOtherPort" => Source::SameIpOtherPort, "ExactAddress" => Source::ExactAddress, "OtherQueriedServer" => Source::OtherQueriedServer, _ => Source::OtherIp },
            tid: match s("tid").as_str() { "Plus1" => Tid::Plus1, "Minus1" => Tid::Minus1, "Consumed" => Tid::Consumed, _ => Tid::Outstanding },
            point: match s("point").as_str() { "After" => Point::After, "AfterExpiry" => Point::AfterExpiry, _ => Point::Before },
            payload: match s("payload").as_str() { "BogusPeers" => Payload::BogusPeers, "BogusIpVote" => Payload::BogusIpVote, "Error301" => Payload::Error301, "Error203" => Payload::Error203, "PingShaped" => Payload::PingShaped, p if p.starts_with("Duplicate") => Payload::Duplicate(p.chars().filter(|c| c.is_ascii_digit()).collect::<String>().parse().unwrap_or(2)), _ => Payload::SybilNodes },
            call: c["call"].as_u64().unwrap_or(0) as usize,
            only_holder: c["only_holder"].as_bool().unwrap_or(true),
            dead_target: c["dead_target"].as_bool().unwrap_or(false),
        };
        super::guarded(&mut r, case_json(&case), |r| scenario(r, &case));
        return r;
    }
    let mut rng = Rng::new(mix(a.seed, 0xc09 + a.shard));
    // enumeration of the injection space per base scenario
    let mut cases: Vec<Case> = vec![];
    let bases = if a.quick() { 8 } else { 64 };
    for b in 0..bases {
        let seed = mix(a.seed, 0xba5e + b as u64);
        let servers = 1 + (b % 4);
        for call in 0..3 {
            for source in [Source::OtherIp, Source::SameIpOtherPort, Source::OtherQueriedServer] {
                if source == Source::OtherQueriedServer && servers < 2 {
                    continue;
                }
                for tid in [Tid::Outstanding, Tid::Plus1, Tid::Minus1, Tid::Consumed] {
                    // (a neighbouring or consumed id may be the very id of the request this node sent to that other
                    // server: then the message is a forgery from the exact address, which nothing can tell apart)
                    if source == Source::OtherQueriedServer && tid != Tid::Outstanding {
                        continue;
                    }
                    for point in [Point::Before, Point::After, Point::AfterExpiry] {
                        for payload in [Payload::SybilNodes, Payload::BogusPeers, Payload::BogusIpVote, Payload::Error301, Payload::Error203] {
                            cases.push(Case { seed, servers, source, tid, point, payload, call, only_holder: b % 2 == 0, dead_target: false });
                        }
                    }
                }
            }
            for point in [Point::Before, Point::After, Point::AfterExpiry] {
                for k in [1usize, 2, 5] {
                    cases.push(Case { seed, servers, source: Source::ExactAddress, tid: Tid::Outstanding, point, payload: Payload::Duplicate(k), call, only_holder: b % 2 == 0, dead_target: false });
                }
            }
        }
    }
    // an unanswered request (its server just crashed): late messages with its id from a wrong address
    // must stay without effect even after the request expired
    for b in 0..bases {
        let seed = mix(a.seed, 0xdead + b as u64);
        for call in [0usize, 2] {
            for source in [Source::OtherIp, Source::SameIpOtherPort, Source::OtherQueriedServer] {
                for point in [Point::Before, Point::After, Point::AfterExpiry] {
                    for payload in [Payload::PingShaped, Payload::BogusPeers, Payload::SybilNodes] {
                        cases.push(Case { seed, servers: 3 + b % 3, source, tid: Tid::Outstanding, point, payload, call, only_holder: false, dead_target: true });
                    }
                }
            }
        }
        // duplicated genuine ERROR replies: one of two storing nodes answers 302, the other acks
        for point in [Point::Before, Point::After] {
            for k in [1usize, 2, 3] {
                cases.push(Case { seed, servers: 2, source: Source::ExactAddress, tid: Tid::Outstanding, point, payload: Payload::Duplicate(k), call: 3, only_holder: true, dead_target: false });
            }
        }
    }
    rng.shuffle(&mut cases);
    let budget = usize::MAX;
    for (i, c) in cases.iter().enumerate() {
        if i as u64 % a.nshards.max(1) != a.shard || i >= budget.saturating_mul(1) {
            continue;
        }
        super::guarded(&mut r, case_json(c), |r| scenario(r, c));
        r.count("scenarios");
    }
    for _ in 0..(if a.quick() { 320 } else { 6400 }) / a.nshards.max(1) {
        let seed = rng.u64();
        super::guarded(&mut r, json!({"class":"tid-hygiene","seed":seed.to_string()}), |r| hygiene(r, seed));
        r.count("hygiene_worlds");
    }
    for _ in 0..(if a.quick() { 320 } else { 6400 }) / a.nshards.max(1) {
        let seed = rng.u64();
        super::guarded(&mut r, json!({"class":"unspecified-destination","seed":seed.to_string()}), |r| unspecified_destination(r, seed));
        r.count("unspecified_destination_worlds");
    }
    r.notes.insert("injection_space".into(), json!(format!("{} cases = bases x 3 calls x (2 sources x 4 tids x 3 points x 5 payloads + 9 exact-address duplicate cases)", cases.len())));
    r
}

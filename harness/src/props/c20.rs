//! C20 — bounded state: no residue at quiescence, caps respected (LRU), stats = aggregate of the cache.
use super::net::*;
use super::srv::*;
use crate::krpc::*;
use crate::report::Report;
use crate::rng::{mix, Rng};
use crate::sha1::{immutable_target, mutable_target};
use crate::simnet::*;
use crate::Args;
use dht::verif::Snapshot;
use dht::{Id, MutableItem, ServerSettings, SigningKey};
use futures_lite::StreamExt;
use serde_json::{json, Value};
use std::collections::VecDeque;
use std::net::{Ipv4Addr, SocketAddrV4};

fn close(a: f64, b: f64) -> bool {
    (a - b).abs() <= 1e-9 * a.abs().max(b.abs()).max(1.0)
}

/// stats of both tables vs. the aggregate over the cached lookups
fn check_stats(r: &mut Report, s: &Snapshot, info_estimate: Option<(usize, f64)>, case: &Value, when: &str) -> bool {
    let mut ok = true;
    if s.cache_len > 1000 || s.cache.len() != s.cache_len {
        r.violation("cache/over-capacity", "the lookup cache holds more than 1000 entries", case.clone(), json!({"len": s.cache_len, "when": when}));
        ok = false;
    }
    for (name, table, signed) in [("main", &s.table, false), ("signed", &s.signed_table, true)] {
        let entries: Vec<&(Id, bool, bool, f64, f64, u8)> = s.cache.iter().filter(|e| e.2 == signed).collect();
        let n = entries.len();
        let dht_sum: f64 = entries.iter().map(|e| e.3).sum();
        let nonfind: Vec<&&(Id, bool, bool, f64, f64, u8)> = entries.iter().filter(|e| !e.1).collect();
        let a = (n, entries.iter().map(|e| e.4).sum::<f64>(), entries.iter().map(|e| e.5 as usize).sum::<usize>());
        let b = (nonfind.len(), nonfind.iter().map(|e| e.4).sum::<f64>(), nonfind.iter().map(|e| e.5 as usize).sum::<usize>());
        let st = table.stats;
        let detail = || json!({"when": when, "table": name, "stats": [st.0 as f64, st.1, st.2 as f64, st.3, st.4 as f64], "cached_lookups": n, "cached_find_node": n - nonfind.len(), "aggregate_dht": [n as f64, dht_sum], "aggregate_responders_all": [a.0 as f64, a.1, a.2 as f64], "aggregate_responders_without_find_node": [b.0 as f64, b.1, b.2 as f64]});
        if st.0 != n || !close(st.1, dht_sum) {
            r.violation(&format!("stats/{name}/dht-size-estimate-drift"), "dht size statistics differ from the aggregate over the cached lookups", case.clone(), detail());
            ok = false;
        }
        let match_a = st.2 == a.0 && close(st.3, a.1) && st.4 == a.2;
        let match_b = st.2 == b.0 && close(st.3, b.1) && st.4 == b.2;
        if !match_a && !match_b {
            let dir = if st.2 > a.0 { "above" } else if st.2 < b.0 { "below" } else { "between" };
            r.violation(&format!("stats/{name}/responders-drift/{dir}"), "responders statistics equal neither the aggregate over all cached lookups nor over the cached non-find_node lookups", case.clone(), detail());
            ok = false;
        }
        if st.0 > s.cache_len || st.2 > s.cache_len {
            r.violation(&format!("stats/{name}/count-exceeds-cache"), "a sample counter exceeds the number of cached lookups (wrap-around?)", case.clone(), detail());
            ok = false;
        }
    }
    if let Some((est, _)) = info_estimate {
        let st = s.table.stats;
        let want = st.1 as usize / st.0.max(1);
        if est != want {
            r.violation("stats/info-estimate", "Info::dht_size_estimate differs from sum/count", case.clone(), json!({"info": est, "sum": st.1, "count": st.0}));
            ok = false;
        }
    }
    r.count("stats_snapshots_checked");
    ok
}

fn check_residue(r: &mut Report, s: &Snapshot, case: &Value) {
    let dirty = !s.iterative_queries.is_empty() || !s.put_queries.is_empty() || s.put_senders.0 != 0 || s.get_senders.0 != 0 || s.inflight.1 != 0;
    if dirty {
        let what = if !s.put_queries.is_empty() { "put_queries" } else if !s.iterative_queries.is_empty() { "iterative_queries" } else if s.put_senders.0 != 0 { "put_senders" } else if s.get_senders.0 != 0 { "get_senders" } else { "inflight" };
        r.violation(&format!("residue/{what}"), "per-call state retained at quiescence", case.clone(), json!({"iterative_queries": s.iterative_queries.len(), "put_queries": s.put_queries.len(), "put_senders": [s.put_senders.0, s.put_senders.1], "get_senders": [s.get_senders.0, s.get_senders.1], "inflight_unexpired": s.inflight.1, "inflight_vector_len": s.inflight.0}));
    }
    r.count("quiescence_snapshots");
}

/// S1: mixed overlapping API calls under loss, then quiet.
pub fn workload_scenario(r: &mut Report, seed: u64) {
    r.eval();
    let mut rng = Rng::new(seed);
    let w = World::with_cfg(seed, NetCfg { lat_min: 2 * MS, lat_max: 150 * MS, random_ties: true }, TraceLevel::Off);
    let case = json!({"class":"workload","seed":seed.to_string()});
    let net = build_net(&w, 2 + rng.usize(5), 0, IpPlan::Public, false, &mut rng);
    let x = w.spawn(if rng.bool() { NodeSpec::server(Ipv4Addr::new(81, 0, 0, 1), &[net.boot]) } else { NodeSpec::client(Ipv4Addr::new(81, 0, 0, 1), &[net.boot]) }).expect("x");
    w.block_on(x.adht.bootstrapped(), 60 * SEC);
    // one value is already stored on the network: lookups of its target get value-carrying answers from
    // several nodes (a reader such as get_immutable hangs up after the first one, while puts of the same value
    // and other readers share the lookup)
    let v0 = rng.blob(3, 30);
    let t0 = Id::from(crate::sha1::immutable_target(&v0));
    let pre_stored = w.block_on(net.nodes[0].adht.put_immutable(&v0), 120 * SEC).map(|x| x.is_ok()).unwrap_or(false);
    if pre_stored {
        r.count("workloads_with_a_value_already_stored_on_the_network");
    }
    // loss
    let loss = *rng.pick(&[0u64, 0, 5, 15, 30]);
    let mut frng = rng.fork(3);
    w.set_fault(Some(Box::new(move |_info: &SendInfo| if frng.below(100) < loss { Some(vec![]) } else { None })));
    let signer = SigningKey::from_bytes(&rng.array::<32>());
    let mut targets: Vec<Id> = (0..3).map(|_| Id::from(rng.array::<20>())).collect();
    targets[0] = t0;
    let n_calls = 8 + rng.usize(25);
    let mut tasks: Vec<Task<()>> = vec![];
    for i in 0..n_calls {
        let a = x.adht.clone();
        let t = *rng.pick(&targets);
        let s2 = signer.clone();
        let val = if rng.bool() { v0.clone() } else { rng.blob(3, 30) };
        let seq = i as i64;
        let now = w.now();
        tasks.push(match rng.usize(10) {
            0 => Task::new(now, async move { drop(a.find_node(t).await) }),
            1 => Task::new(now, async move { drop(a.get_closest_nodes(t).await) }),
            2 => Task::new(now, async move { drop(a.get_immutable(t).await) }),
            3 => Task::new(now, async move { drop(a.get_peers(t).count().await) }),
            4 => Task::new(now, async move { drop(a.get_signed_peers(t).await.count().await) }),
            5 => Task::new(now, async move { drop(a.put_immutable(&val).await) }),
            6 => Task::new(now, async move { drop(a.put_mutable(MutableItem::new(&s2, &val, seq, None), None).await) }),
            7 => Task::new(now, async move { drop(a.announce_peer(t, None).await) }),
            8 => Task::new(now, async move { drop(a.announce_signed_peer(t, &s2).await) }),
            _ => {
                let k = s2.verifying_key().to_bytes();
                Task::new(now, async move { drop(a.get_mutable(&k, None, None).count().await) })
            }
        });
        let d = rng.below(300) * MS;
        w.run_for(d);
        for t in tasks.iter_mut() {
            t.poll(w.now());
        }
    }
    let end = w.now() + 600 * SEC;
    while tasks.iter_mut().any(|t| !t.poll(w.now())) {
        if !matches!(w.step_until(end), Step::Node(_) | Step::Raw(_)) {
            break;
        }
    }
    if tasks.iter().any(|t| !t.done()) {
        r.count("workload_calls_not_completed");
    }
    w.set_fault(None);
    // quiescence: all calls returned, the largest request timeout + 1 s passed with the network quiet
    w.run_for(6 * SEC);
    let Some(s) = snapshot(&w, &x) else {
        r.inconclusive("snapshot hook did not answer");
        return;
    };
    check_residue(r, &s, &case);
    let est = w.block_on(x.adht.info(), 3 * SEC).map(|i| i.dht_size_estimate());
    check_stats(r, &s, est, &case, "after-workload");
    r.nontrivial(mix(seed, n_calls as u64));
    if r.want_sample() {
        r.sample(json!({"case": case, "calls": n_calls, "loss_percent": loss, "cache_len": s.cache_len, "stats_main": [s.table.stats.0, s.table.stats.2]}));
    }
    drop(tasks);
    drop(x);
    drop(net);
    w.shutdown();
    for (thread, loc, msg) in crate::take_panics() {
        r.violation(&format!("panic/{loc}"), &format!("thread {thread} panicked: {msg}"), case.clone(), json!({}));
    }
}

/// S2/S3: roll the lookup cache past 1000 targets, repeat lookups of one target, refresh cycles.
fn cache_scenario(r: &mut Report, seed: u64, lookups: usize, refresh_cycles: usize) {
    r.eval();
    let mut rng = Rng::new(seed);
    let w = World::with_cfg(seed, NetCfg { lat_min: MS, lat_max: 10 * MS, random_ties: true }, TraceLevel::Off);
    let case = json!({"class":"cache","seed":seed.to_string(),"lookups":lookups,"refresh_cycles":refresh_cycles});
    let net = build_net(&w, 1 + rng.usize(3), 0, IpPlan::Private, false, &mut rng);
    let x = w.spawn(NodeSpec::server(Ipv4Addr::new(10, 9, 0, 1), &[net.boot])).expect("x");
    w.block_on(x.adht.bootstrapped(), 60 * SEC);
    let fixed = Id::from(rng.array::<20>());
    let signer = SigningKey::from_bytes(&rng.array::<32>());
    let mut ok = true;
    for i in 0..lookups {
        let a = x.adht.clone();
        let t = if i % 23 == 0 { fixed } else { Id::from(rng.array::<20>()) };
        match (i + rng.usize(2)) % 7 {
            0 => drop(w.block_on(async move { a.find_node(t).await }, 60 * SEC)),
            1 => drop(w.block_on(async move { a.get_signed_peers(t).await.count().await }, 60 * SEC)),
            2 => drop(w.block_on(async move { a.get_peers(t).count().await }, 60 * SEC)),
            3 if i % 50 == 3 => {
                // the same target looked up with two kinds (peers and signed peers)
                let a2 = a.clone();
                drop(w.block_on(async move { a.announce_peer(fixed, None).await }, 60 * SEC));
                let s2 = signer.clone();
                drop(w.block_on(async move { a2.announce_signed_peer(fixed, &s2).await }, 60 * SEC));
            }
            _ => drop(w.block_on(async move { a.get_closest_nodes(t).await }, 60 * SEC)),
        }
        if ok && (i % 97 == 96 || i + 1 == lookups) {
            if let Some(s) = snapshot(&w, &x) {
                let est = w.block_on(x.adht.info(), 3 * SEC).map(|i| i.dht_size_estimate());
                ok = check_stats(r, &s, est, &case, &format!("after {} lookups", i + 1));
                if s.cache_len >= 1000 {
                    r.count("cache_rolled_over");
                }
            }
        }
    }
    for c in 0..refresh_cycles {
        w.run_for(15 * MIN + 10 * SEC);
        let a = x.adht.clone();
        let t = Id::from(rng.array::<20>());
        drop(w.block_on(async move { a.get_closest_nodes(t).await }, 60 * SEC));
        if ok {
            if let Some(s) = snapshot(&w, &x) {
                ok = check_stats(r, &s, None, &case, &format!("after refresh cycle {}", c + 1));
                r.count("refresh_cycles_checked");
            }
        }
    }
    w.run_for(6 * SEC);
    if let Some(s) = snapshot(&w, &x) {
        check_residue(r, &s, &case);
    }
    r.nontrivial(mix(seed, lookups as u64));
    drop(x);
    drop(net);
    w.shutdown();
    for (thread, loc, msg) in crate::take_panics() {
        r.violation(&format!("panic/{loc}"), &format!("thread {thread} panicked: {msg}"), case.clone(), json!({}));
    }
}

/// S4: stores with capacities 1..3 under write churn; sizes from the snapshot hook after every write,
/// survivors judged against an LRU model through probe reads.
pub fn store_scenario(r: &mut Report, seed: u64) {
    r.eval();
    let mut rng = Rng::new(seed);
    let caps = (1 + rng.usize(3), 1 + rng.usize(3), 1 + rng.usize(3), 1 + rng.usize(3));
    let settings = ServerSettings { max_immutable_values: caps.0, max_mutable_values: caps.1, max_info_hashes: caps.2, max_peers_per_info_hash: caps.3, ..Default::default() };
    let fx = Fixture::new(seed, Some(settings));
    let case = json!({"class":"stores","seed":seed.to_string(),"caps":{"immutable":caps.0,"mutable":caps.1,"info_hashes":caps.2,"peers_per_hash":caps.3}});
    let mut clients: Vec<Client> = (0..6).map(|i| fx.client(SocketAddrV4::new(Ipv4Addr::new(91, 0, 0, 1 + i as u8), 7000 + i as u16), rng.array())).collect();
    for c in clients.iter_mut() {
        let id = c.id;
        fx.rpc(c, |t| q_get_peers(t, &id, &[1; 20], false));
    }
    let signers: Vec<SigningKey> = (0..5).map(|_| SigningKey::from_bytes(&rng.array::<32>())).collect();
    let values: Vec<Vec<u8>> = (0..6).map(|i| format!("value-{i}-{seed}").into_bytes()).collect();
    let hashes: Vec<[u8; 20]> = (0..5).map(|_| rng.array()).collect();
    // LRU models: front = least recently used
    let mut lru_imm: VecDeque<[u8; 20]> = VecDeque::new();
    let mut lru_mut: VecDeque<[u8; 20]> = VecDeque::new();
    let mut lru_ih: VecDeque<[u8; 20]> = VecDeque::new();
    let mut lru_sih: VecDeque<[u8; 20]> = VecDeque::new();
    let touch = |q: &mut VecDeque<[u8; 20]>, t: [u8; 20], cap: usize, insert: bool| {
        if let Some(p) = q.iter().position(|x| *x == t) {
            q.remove(p);
            q.push_back(t);
        } else if insert {
            if q.len() >= cap {
                q.pop_front();
            }
            q.push_back(t);
        }
    };
    let mut evictions = 0;
    // a burst on one info hash first: every client (six node ids) announces on it, and five keys sign for it -
    // more distinct announcers than any configured per-hash limit (1..3)
    {
        let ih = hashes[0];
        for ci in 0..clients.len() {
            let token = clients[ci].token.clone().map(|t| t.0).unwrap_or_default();
            let id = clients[ci].id;
            if fx.rpc(&mut clients[ci], |tid| q_announce_peer(tid, &id, &ih, 900 + ci as u16, None, &token)).is_ack() {
                touch(&mut lru_ih, ih, caps.2, true);
            }
        }
        for sk in &signers {
            let token = clients[0].token.clone().map(|t| t.0).unwrap_or_default();
            let id = clients[0].id;
            let ts = fx.w.unix_micros() + 1000;
            let sg = sign_announce(sk, &ih, ts);
            if fx.rpc(&mut clients[0], |tid| q_announce_signed_peer(tid, &id, &ih, &sg.k, &sg.sig, ts, &token)).is_ack() {
                touch(&mut lru_sih, ih, caps.2, true);
            }
        }
        if let Some(sn) = fx.server.as_ref().and_then(|server| snapshot(&fx.w, server)) {
            let z = &sn.stores;
            if z.peers.1 > caps.3 || z.signed_peers.1 > caps.3 {
                r.violation("store/over-capacity/peers-per-hash", "a store holds more entries than its configured capacity", case.clone(), json!({"sizes": format!("{z:?}"), "step": "burst of 6 announcers / 5 signing keys on one info hash"}));
            }
            r.count("announcer_bursts_checked");
        }
    }
    let ops = 30 + rng.usize(60);
    for step in 0..ops {
        let ci = rng.usize(clients.len());
        let token = clients[ci].token.clone().map(|t| t.0).unwrap_or_default();
        let id = clients[ci].id;
        match rng.usize(7) {
            0 | 1 => {
                let v = rng.pick(&values).clone();
                let t = immutable_target(&v);
                if fx.rpc(&mut clients[ci], |tid| q_put_immutable(tid, &id, &token, &t, &v)).is_ack() {
                    if !lru_imm.contains(&t) && lru_imm.len() >= caps.0 {
                        evictions += 1;
                    }
                    touch(&mut lru_imm, t, caps.0, true);
                }
            }
            2 => {
                let v = rng.pick(&values).clone();
                let t = immutable_target(&v);
                if let Reply::Resp(k) = fx.rpc(&mut clients[ci], |tid| q_get(tid, &id, &t, None)) {
                    let served = k.res_bytes("v").is_some();
                    let want = lru_imm.contains(&t);
                    if served != want {
                        r.violation(if served { "store/immutable/evicted-value-still-served" } else { "store/immutable/lru-survivor-missing" }, "immutable store survivors differ from the LRU model", case.clone(), json!({"step": step, "model": lru_imm.len()}));
                        break;
                    }
                    touch(&mut lru_imm, t, caps.0, false);
                }
            }
            3 | 4 => {
                let s = rng.pick(&signers);
                let seq = step as i64;
                let sg = sign_mutable(s, seq, b"m", None);
                let t = mutable_target(&sg.k, None);
                if fx.rpc(&mut clients[ci], |tid| q_put_mutable(tid, &id, &token, &t, b"m", &sg.k, &sg.sig, seq, None, None)).is_ack() {
                    if !lru_mut.contains(&t) && lru_mut.len() >= caps.1 {
                        evictions += 1;
                    }
                    touch(&mut lru_mut, t, caps.1, true);
                }
            }
            5 => {
                let s = rng.pick(&signers);
                let t = mutable_target(&s.verifying_key().to_bytes(), None);
                if let Reply::Resp(k) = fx.rpc(&mut clients[ci], |tid| q_get(tid, &id, &t, None)) {
                    let served = k.res_bytes("v").is_some();
                    let want = lru_mut.contains(&t);
                    if served != want {
                        r.violation(if served { "store/mutable/evicted-item-still-served" } else { "store/mutable/lru-survivor-missing" }, "mutable store survivors differ from the LRU model", case.clone(), json!({"step": step, "model": lru_mut.len()}));
                        break;
                    }
                    touch(&mut lru_mut, t, caps.1, false);
                }
            }
            _ => {
                // announcements and peer lookups: the info hashes of each peer store are LRU entries too - an
                // announcement on a stored hash and a lookup that finds it both count as a use (the token in
                // hand was issued for another hash: tokens bind the address, not the hash)
                let ih = *rng.pick(&hashes);
                let signed = rng.bool();
                let (lru, cap) = if signed { (&mut lru_sih, caps.2) } else { (&mut lru_ih, caps.2) };
                if rng.chance(2, 3) {
                    let reply = if !signed {
                        fx.rpc(&mut clients[ci], |tid| q_announce_peer(tid, &id, &ih, 1000 + step as u16, None, &token))
                    } else {
                        let ts = fx.w.unix_micros() + 1000;
                        let sg = sign_announce(rng.pick(&signers), &ih, ts);
                        fx.rpc(&mut clients[ci], |tid| q_announce_signed_peer(tid, &id, &ih, &sg.k, &sg.sig, ts, &token))
                    };
                    if reply.is_ack() {
                        if !lru.contains(&ih) && lru.len() >= cap {
                            evictions += 1;
                            r.count("info_hash_evictions_modelled");
                        }
                        touch(lru, ih, cap, true);
                    }
                } else if let Reply::Resp(k) = fx.rpc(&mut clients[ci], |tid| q_get_peers(tid, &id, &ih, signed)) {
                    let served = if signed { k.res("peers").is_some() } else { k.res("values").is_some() };
                    let want = lru.contains(&ih);
                    if served != want {
                        let which = if signed { "signed-peers" } else { "peers" };
                        r.violation(&format!("store/{which}/{}", if served { "evicted-info-hash-still-served" } else { "lru-survivor-missing" }), "the info hashes a peer store still holds differ from the LRU model (uses = announcements and lookups that found the hash)", case.clone(), json!({"step": step, "model": lru.len(), "capacity": cap}));
                        break;
                    }
                    touch(lru, ih, cap, false);
                    r.count("info_hash_survivor_checks");
                }
            }
        }
        // caps at every step
        if let Some(server) = fx.server.as_ref() {
            if let Some(s) = snapshot(&fx.w, server) {
                let z = &s.stores;
                let over = z.immutable_values > caps.0 || z.mutable_values > caps.1 || z.peers.0 > caps.2 || z.peers.1 > caps.3 || z.signed_peers.0 > caps.2 || z.signed_peers.1 > caps.3;
                if over {
                    let which = if z.immutable_values > caps.0 { "immutable" } else if z.mutable_values > caps.1 { "mutable" } else if z.peers.0 > caps.2 { "info-hashes" } else if z.peers.1 > caps.3 { "peers-per-hash" } else if z.signed_peers.0 > caps.2 { "signed-info-hashes" } else { "signed-peers-per-hash" };
                    r.violation(&format!("store/over-capacity/{which}"), "a store holds more entries than its configured capacity", case.clone(), json!({"sizes": format!("{z:?}"), "step": step}));
                    break;
                }
                r.count("store_snapshots_checked");
            }
        }
    }
    r.add("store_evictions_modelled", evictions);
    if evictions > 0 {
        r.nontrivial(mix(seed, evictions));
    }
    for (thread, loc, msg) in fx.finish() {
        r.violation(&format!("panic/{loc}"), &format!("thread {thread} panicked: {msg}"), case.clone(), json!({}));
    }
}

pub fn run(a: &Args) -> Report {
    let mut r = Report::new("C20");
    if let Some(path) = &a.replay {
        let v: Value = serde_json::from_str(&std::fs::read_to_string(path).unwrap_or_default()).unwrap_or_default();
        let c = &v["case"];
        let seed = c["seed"].as_str().and_then(|s| s.parse().ok()).unwrap_or(1);
        match c["class"].as_str() {
            Some("cache") => cache_scenario(&mut r, seed, c["lookups"].as_u64().unwrap_or(100) as usize, c["refresh_cycles"].as_u64().unwrap_or(0) as usize),
            Some("stores") => store_scenario(&mut r, seed),
            _ => workload_scenario(&mut r, seed),
        }
        return r;
    }
    let mut rng = Rng::new(mix(a.seed, 0xc20 + a.shard));
    let per = |q: u64, t: u64| ((if a.quick() { q } else { t }) / a.nshards.max(1)).max(1);
    for _ in 0..per(480, 8000) {
        let s = rng.u64();
        super::guarded(&mut r, json!({"class":"workload","seed":s.to_string()}), |r| workload_scenario(r, s));
        r.count("workload_scenarios");
    }
    for _ in 0..per(960, 16000) {
        let s = rng.u64();
        super::guarded(&mut r, json!({"class":"stores","seed":s.to_string()}), |r| store_scenario(r, s));
        r.count("store_scenarios");
    }
    for i in 0..per(48, 320) {
        // one cache roll-over per shard in quick, more in thorough; refresh-cycle worlds in between
        if i == 0 {
            let s = rng.u64();
            super::guarded(&mut r, json!({"class":"cache","seed":s.to_string(),"lookups":1150,"refresh_cycles":1}), |r| cache_scenario(r, s, 1150, 1));
        } else {
            let s = rng.u64();
            super::guarded(&mut r, json!({"class":"cache","seed":s.to_string(),"lookups":120,"refresh_cycles":4}), |r| cache_scenario(r, s, 120, 4));
        }
        r.count("cache_scenarios");
    }
    r
}

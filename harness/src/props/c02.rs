//! C02 — lookups only return authentic data, whatever responders send.
//! A reader whose peers are Byzantine raw endpoints (optionally mixed with honest servers); every
//! item yielded by get_immutable / get_mutable / get_mutable_most_recent / get_signed_peers is
//! re-verified by the harness from the yielded fields and the request only.
use super::srv::{sign_announce, sign_mutable, verify};
use crate::bencode::B;
use crate::krpc::*;
use crate::report::Report;
use crate::rng::{mix, Rng};
use crate::sha1::{immutable_target, mutable_signable, mutable_target};
use crate::simnet::*;
use crate::Args;
use dht::{Id, SigningKey};
use futures_lite::StreamExt;
use serde_json::{json, Value};
use std::cell::RefCell;
use std::net::{Ipv4Addr, SocketAddrV4};
use std::rc::Rc;

const IMM_FORGERIES: [&str; 7] = ["authentic", "other-value", "bit-flip", "empty", "over-long", "mutable-shaped", "truncated"];
const MUT_FORGERIES: [&str; 16] = ["authentic", "authentic-older-seq", "authentic-same-seq-other-value", "negated-seq", "seq-plus-2-pow-32", "other-key", "other-salt", "no-salt-sig", "altered-seq", "altered-value", "flip-k", "flip-sig", "over-long-v", "ro-flagged", "short-k", "immutable-shaped"];
const SIG_FORGERIES: [&str; 13] = ["authentic", "authentic-older", "authentic-newer", "other-infohash", "other-timestamp", "other-key", "flip-sig", "mixed-valid-invalid", "empty-entry", "short-entry", "double-entry", "undecodable-key-first", "undecodable-key-between"];

#[derive(Clone)]
struct Truth {
    imm_value: Vec<u8>,
    imm_target: [u8; 20],
    signer: SigningKey,
    other: SigningKey,
    salt: Option<Vec<u8>>,
    mut_target: [u8; 20],
    seq: i64,
    mut_value: Vec<u8>,
    ih: [u8; 20],
    ts: u64,
}

fn mutable_reply(tr: &Truth, forgery: &str, rng: &mut Rng) -> (B, bool) {
    // returns the `r` dict additions and whether the message is flagged ro
    let salt = tr.salt.as_deref();
    let mut v = tr.mut_value.clone();
    let mut seq = tr.seq;
    let mut sg = sign_mutable(&tr.signer, seq, &v, salt);
    let mut k = sg.k.to_vec();
    let mut ro = false;
    match forgery {
        // genuine items of the same key from replicas that are behind / that hold a conflicting write:
        // validly signed, so they may be yielded - but only as they were signed
        "authentic-older-seq" => {
            seq -= 1;
            v = b"an older genuine value".to_vec();
            sg = sign_mutable(&tr.signer, seq, &v, salt);
        }
        "authentic-same-seq-other-value" => {
            v = b"zz a conflicting genuine value".to_vec();
            sg = sign_mutable(&tr.signer, seq, &v, salt);
        }
        "other-key" => {
            sg = sign_mutable(&tr.other, seq, &v, salt);
            k = sg.k.to_vec();
        }
        "other-salt" => sg = sign_mutable(&tr.signer, seq, &v, Some(b"another salt")),
        "no-salt-sig" => sg = sign_mutable(&tr.signer, seq, &v, if salt.is_some() { None } else { Some(b"x") }),
        "altered-seq" => seq += 1,
        // the genuine signature replayed under a seq that differs only in sign / only above bit 31
        "negated-seq" => seq = -seq,
        "seq-plus-2-pow-32" => seq = seq.wrapping_add(1 << 32),
        "altered-value" => v.push(b'!'),
        "flip-k" => k[rng.usize(32)] ^= 1 << rng.usize(8),
        "flip-sig" => sg.sig[rng.usize(64)] ^= 1 << rng.usize(8),
        "over-long-v" => {
            v = vec![b'L'; 1200];
            sg = sign_mutable(&tr.signer, seq, &v, salt);
        }
        "ro-flagged" => ro = true,
        "short-k" => {
            k.truncate(31);
        }
        _ => {}
    }
    (B::dict(vec![("v", B::Bytes(v)), ("k", B::Bytes(k)), ("sig", B::bytes(&sg.sig)), ("seq", B::Int(seq as i128))]), ro)
}

fn signed_entries(tr: &Truth, forgery: &str, rng: &mut Rng) -> Vec<Vec<u8>> {
    let entry = |signer: &SigningKey, ih: &[u8; 20], ts_signed: u64, ts_sent: u64| -> Vec<u8> {
        let sg = sign_announce(signer, ih, ts_signed);
        let mut e = sg.k.to_vec();
        e.extend_from_slice(&ts_sent.to_be_bytes());
        e.extend_from_slice(&sg.sig);
        e
    };
    let good = entry(&tr.signer, &tr.ih, tr.ts, tr.ts);
    match forgery {
        "authentic" => vec![good, entry(&tr.other, &tr.ih, tr.ts + 5, tr.ts + 5)],
        // the same announcer's genuine announcement as a stale / a fresher replica holds it
        "authentic-older" => vec![entry(&tr.signer, &tr.ih, tr.ts - 3_600_000_000, tr.ts - 3_600_000_000)],
        "authentic-newer" => vec![entry(&tr.signer, &tr.ih, tr.ts + 40_000_000, tr.ts + 40_000_000), entry(&tr.other, &tr.ih, tr.ts + 41_000_000, tr.ts + 41_000_000)],
        "other-infohash" => vec![entry(&tr.signer, &[0x77; 20], tr.ts, tr.ts)],
        "other-timestamp" => vec![entry(&tr.signer, &tr.ih, tr.ts, tr.ts + 1)],
        "other-key" => {
            let mut e = entry(&tr.signer, &tr.ih, tr.ts, tr.ts);
            e[..32].copy_from_slice(&tr.other.verifying_key().to_bytes());
            vec![e]
        }
        "flip-sig" => {
            let mut e = good;
            e[40 + rng.usize(64)] ^= 1 << rng.usize(8);
            vec![e]
        }
        "mixed-valid-invalid" => vec![good, entry(&tr.signer, &[0x66; 20], tr.ts, tr.ts), entry(&tr.other, &tr.ih, tr.ts, tr.ts)],
        // an entry whose 32 key bytes are not a point of the curve, carrying the genuine entry's timestamp and
        // signature, listed before (or between) genuine entries: whatever is yielded must verify under ITS key
        "undecodable-key-first" | "undecodable-key-between" => {
            let bad_key = loop {
                let k: [u8; 32] = rng.array();
                if ed25519_dalek::VerifyingKey::from_bytes(&k).is_err() {
                    break k;
                }
            };
            let mut e = good.clone();
            e[..32].copy_from_slice(&bad_key);
            if forgery == "undecodable-key-first" {
                vec![e, good]
            } else {
                vec![entry(&tr.other, &tr.ih, tr.ts + 5, tr.ts + 5), e, good]
            }
        }
        "empty-entry" => vec![good, vec![]],
        "short-entry" => vec![good[..103].to_vec()],
        _ => {
            let mut e = good.clone();
            e.extend_from_slice(&good);
            vec![e]
        }
    }
}

struct Obs {
    forged_sent: u64,
    authentic_sent: u64,
    log: Vec<String>,
}

pub fn scenario(r: &mut Report, seed: u64) {
    r.eval();
    let mut rng = Rng::new(seed);
    let w = World::with_cfg(seed, NetCfg { lat_min: MS, lat_max: 60 * MS, random_ties: true }, TraceLevel::Off);
    let n_raw = 1 + rng.usize(4);
    let ends: Vec<([u8; 20], SocketAddrV4)> = (0..n_raw).map(|i| (rng.array(), SocketAddrV4::new(Ipv4Addr::new(52, 0, 0, 1 + i as u8), 6881))).collect();
    let socks: Vec<SockId> = ends.iter().map(|e| w.raw(e.1)).collect();
    let signer = SigningKey::from_bytes(&rng.array::<32>());
    let other = SigningKey::from_bytes(&rng.array::<32>());
    // no salt, a short salt, or one of exactly 64 bytes (the BEP44 maximum)
    let salt: Option<Vec<u8>> = match rng.usize(4) {
        0 | 1 => None,
        2 => Some(rng.blob(1, 20)),
        _ => Some(rng.bytes(64)),
    };
    let imm_value = rng.blob(1, 80);
    let tr = Truth {
        imm_target: immutable_target(&imm_value),
        imm_value,
        mut_target: mutable_target(&signer.verifying_key().to_bytes(), salt.as_deref()),
        signer,
        other,
        salt,
        seq: 1 + rng.below(50) as i64,
        mut_value: rng.blob(0, 60),
        ih: rng.array(),
        ts: 1_790_000_000_000_000 + rng.below(1_000_000),
    };
    let ih2: [u8; 20] = rng.array();
    // the last endpoint answers lookups late (300-430 ms), which keeps a lookup in flight for callers to join
    let slow_last = rng.chance(2, 3);
    let slow_ns = (300 + rng.below(130)) * MS;
    // which forgeries each endpoint uses (every subset / order arises over scenarios)
    let plans: Vec<Vec<usize>> = (0..n_raw).map(|_| (0..1 + rng.usize(3)).map(|_| rng.usize(12)).collect()).collect();
    let include_authentic = rng.chance(1, 2);
    let obs = Rc::new(RefCell::new(Obs { forged_sent: 0, authentic_sent: 0, log: vec![] }));
    let (obs2, ends2, socks2, tr2, plans2) = (obs.clone(), ends.clone(), socks.clone(), tr.clone(), plans.clone());
    let mut rrng = rng.fork(2);
    w.set_responder(Some(Box::new(move |w, sock, d| {
        let Some(q) = Krpc::parse(&d.bytes) else { return true };
        if q.y != b'q' {
            return true;
        }
        let idx = socks2.iter().position(|s| *s == sock).unwrap_or(0);
        let me = ends2[idx].0;
        let mut rd = vec![("id", B::bytes(&me)), ("nodes", B::Bytes(nodes_bytes(&ends2))), ("token", B::bytes(b"tokn"))];
        let name = q.q.clone().unwrap_or_default();
        let target = q.target();
        let mut ro = false;
        let mut label = String::new();
        let pick = plans2[idx][rrng.usize(plans2[idx].len())];
        let use_authentic = include_authentic && idx == 0;
        match name.as_str() {
            "get" if target == Some(tr2.imm_target) => {
                let f = if use_authentic { "authentic" } else { IMM_FORGERIES[pick % IMM_FORGERIES.len()] };
                label = format!("immutable/{f}");
                let v = match f {
                    "authentic" => tr2.imm_value.clone(),
                    "other-value" => rrng.blob(1, 80),
                    "bit-flip" => {
                        let mut v = tr2.imm_value.clone();
                        let i = rrng.usize(v.len());
                        v[i] ^= 1 << rrng.usize(8);
                        v
                    }
                    "empty" => vec![],
                    "over-long" => vec![b'x'; 1100],
                    "truncated" => tr2.imm_value[..tr2.imm_value.len() - 1].to_vec(),
                    _ => vec![],
                };
                if f == "mutable-shaped" {
                    let (extra, _) = mutable_reply(&tr2, "authentic", &mut rrng);
                    if let B::Dict(d) = extra {
                        for (k, v) in d {
                            rd.push((Box::leak(String::from_utf8_lossy(&k).into_owned().into_boxed_str()), v));
                        }
                    }
                } else {
                    rd.push(("v", B::Bytes(v)));
                }
            }
            "get" if target == Some(tr2.mut_target) => {
                let f = if use_authentic { "authentic" } else { MUT_FORGERIES[pick % MUT_FORGERIES.len()] };
                label = format!("mutable/{f}");
                if f == "immutable-shaped" {
                    rd.push(("v", B::Bytes(tr2.mut_value.clone())));
                } else {
                    let (extra, is_ro) = mutable_reply(&tr2, f, &mut rrng);
                    ro = is_ro;
                    if let B::Dict(d) = extra {
                        for (k, v) in d {
                            rd.push((Box::leak(String::from_utf8_lossy(&k).into_owned().into_boxed_str()), v));
                        }
                    }
                }
            }
            "get_signed_peers" if target == Some(ih2) && use_authentic => {
                // announcements that really are for the second info-hash (so that one response is accepted)
                label = "signed-second/authentic".to_string();
                let tr3 = Truth { ih: ih2, ..tr2.clone() };
                rd.push(("peers", B::List(signed_entries(&tr3, "authentic", &mut rrng).into_iter().map(B::Bytes).collect())));
            }
            "get_signed_peers" if target != Some(tr2.ih) => {
                label = "signed/replayed-authentic-of-other-infohash".to_string();
                rd.push(("peers", B::List(signed_entries(&tr2, "authentic", &mut rrng).into_iter().map(B::Bytes).collect())));
            }
            "get_signed_peers" => {
                let f = if use_authentic { "authentic" } else { SIG_FORGERIES[pick % SIG_FORGERIES.len()] };
                label = format!("signed/{f}");
                rd.push(("peers", B::List(signed_entries(&tr2, f, &mut rrng).into_iter().map(B::Bytes).collect())));
            }
            _ => {}
        }
        let mut msg = response(&q.t, B::dict(rd), Some(&d.from), Some(&VERSION_RS6));
        if ro {
            msg.set("ro", B::Int(1));
        }
        let mut o = obs2.borrow_mut();
        if label.ends_with("/authentic") {
            o.authentic_sent += 1;
        } else if !label.is_empty() {
            o.forged_sent += 1;
        }
        if !label.is_empty() && o.log.len() < 30 {
            o.log.push(format!("{} -> {}", ends2[idx].1, label));
        }
        drop(o);
        let late = if slow_last && idx + 1 == ends2.len() && name != "ping" && name != "find_node" { slow_ns } else { 0 };
        w.raw_send_delayed(sock, &msg.encode(), d.from, late);
        true
    })));
    let boots: Vec<SocketAddrV4> = ends.iter().map(|e| e.1).collect();
    let reader = w.spawn(NodeSpec::client(Ipv4Addr::new(52, 0, 9, 9), &boots)).expect("reader");
    let a = reader.adht.clone();
    let case = json!({"class":"byzantine","seed":seed.to_string()});
    let bound = 120 * SEC;
    let pk = tr.signer.verifying_key().to_bytes();
    let sync_flavour = rng.chance(1, 4);
    // --- immutable ---
    let got_imm = if sync_flavour {
        let d = reader.dht.clone();
        let t = Id::from(tr.imm_target);
        let h = std::thread::spawn(move || d.get_immutable(t));
        super::net::wait_until_call_registered(&w, &reader, || 1, || h.is_finished());
        w.run_until(bound, |_| h.is_finished());
        if h.is_finished() { h.join().ok() } else { None }
    } else {
        w.block_on(a.get_immutable(Id::from(tr.imm_target)), bound)
    };
    match &got_imm {
        None => r.count("immutable_lookup_did_not_end"),
        Some(None) => r.count("immutable_none"),
        Some(Some(v)) => {
            r.count("immutable_yielded");
            if immutable_target(v) != tr.imm_target {
                r.violation("yield/immutable-hash-mismatch", "get_immutable yielded a value whose BEP44 hash is not the requested target", case.clone(), json!({"value_hex": crate::bencode::hex(v), "replies": obs.borrow().log}));
            }
        }
    }
    // --- callers that join the lookups while they are in flight (they are handed the responses seen so far) ---
    {
        use std::future::Future;
        use std::pin::Pin;
        let delays = [0u64, 40 * MS + rng.below(120) * MS, 150 * MS + rng.below(200) * MS];
        let starts: Vec<u64> = delays.iter().map(|d| w.now() + d).collect();
        let t = Id::from(tr.imm_target);
        let got = super::net::staggered(&w, &starts, |_| { let a = a.clone(); Box::pin(async move { a.get_immutable(t).await }) as Pin<Box<dyn Future<Output = Option<Box<[u8]>>>>> }, bound);
        for (i, g) in got.into_iter().enumerate() {
            if let Some(Some(v)) = g {
                r.count("immutable_yielded_to_joined_or_first_caller");
                if immutable_target(&v) != tr.imm_target {
                    r.violation("yield/immutable-hash-mismatch/joined-caller", "get_immutable yielded a value whose BEP44 hash is not the requested target (caller joined a running lookup)", case.clone(), json!({"caller": i, "value_hex": crate::bencode::hex(&v), "replies": obs.borrow().log}));
                }
            }
        }
        // the same key under the requested salt (three callers) and under neighbouring salts (longer by a
        // suffix, shorter by a byte, absent / present): each caller may only see items for ITS salt
        let salt_j = tr.salt.clone();
        let mut salts: Vec<Option<Vec<u8>>> = vec![salt_j.clone(), salt_j.clone(), salt_j.clone()];
        match &salt_j {
            Some(sv) => {
                let mut longer = sv.clone();
                longer.extend_from_slice(b"draft");
                salts.push(Some(longer));
                if sv.len() > 1 {
                    salts.push(Some(sv[..sv.len() - 1].to_vec()));
                }
                salts.push(None);
            }
            None => salts.push(Some(b"x".to_vec())),
        }
        // half of the time a lookup of the same 20-byte target that knows neither key nor salt (get_closest_nodes /
        // find_node) is already running when these callers arrive: they join it
        let mut keyless: Option<Task<usize>> = None;
        if rng.bool() {
            let (a0, t0) = (a.clone(), Id::from(tr.mut_target));
            let now = w.now();
            keyless = Some(if rng.bool() { Task::new(now, async move { a0.get_closest_nodes(t0).await.len() }) } else { Task::new(now, async move { a0.find_node(t0).await.len() }) });
            r.count("mutable_callers_joining_a_keyless_lookup");
        }
        let starts: Vec<u64> = (0..salts.len()).map(|i| w.now() + delays[i % 3] + (i as u64 / 3) * 25 * MS).collect();
        let got = super::net::staggered(&w, &starts, |i| { let (a, s) = (a.clone(), salts[i].clone()); Box::pin(async move { a.get_mutable(&pk, s.as_deref(), None).collect::<Vec<dht::MutableItem>>().await }) as Pin<Box<dyn Future<Output = Vec<dht::MutableItem>>>> }, bound);
        for (i, g) in got.into_iter().enumerate() {
            let want_salt = salts[i].as_deref();
            for it in g.unwrap_or_default() {
                r.count("mutable_yielded_to_joined_or_first_caller");
                let ok = it.key() == &pk && it.salt() == want_salt && verify(&pk, &mutable_signable(it.seq(), it.value(), want_salt), it.signature());
                if !ok {
                    let which = if i < 3 { "joined-caller" } else { "caller-with-a-neighbouring-salt" };
                    r.violation(&format!("yield/mutable-not-authentic/{which}"), "get_mutable yielded an item that is not authentic for the key and salt this caller asked for", case.clone(), json!({"caller": i, "seq": it.seq(), "requested_salt_len": want_salt.map(|s| s.len()), "item_salt_len": it.salt().map(|s| s.len()), "replies": obs.borrow().log}));
                }
            }
            if i >= 3 {
                r.count("mutable_callers_with_neighbouring_salt");
            }
        }
        if let Some(mut k) = keyless.take() {
            let end = w.now() + 60 * SEC;
            while !k.poll(w.now()) && w.now() < end {
                if !matches!(w.step_until(end), Step::Node(_) | Step::Raw(_)) {
                    break;
                }
            }
        }
        let ihj = Id::from(tr.ih);
        let starts: Vec<u64> = delays.iter().map(|d| w.now() + d).collect();
        let got = super::net::staggered(&w, &starts, |_| { let a = a.clone(); Box::pin(async move { a.get_signed_peers(ihj).await.collect::<Vec<_>>().await.iter().flatten().map(|sa| (sa.key().to_vec(), sa.timestamp(), sa.signature().to_vec())).collect::<Vec<(Vec<u8>, u64, Vec<u8>)>>() }) as Pin<Box<dyn Future<Output = Vec<(Vec<u8>, u64, Vec<u8>)>>>> }, bound);
        for (i, g) in got.into_iter().enumerate() {
            for (key, ts, sig) in g.unwrap_or_default().iter() {
                r.count("signed_yielded_to_joined_or_first_caller");
                if !verify(key, &announce_signable(&tr.ih, *ts), sig) {
                    r.violation("yield/signed-peer-bad-signature/joined-caller", "get_signed_peers yielded an announcement whose signature does not verify (caller joined a running lookup)", case.clone(), json!({"caller": i, "replies": obs.borrow().log}));
                }
            }
        }
        r.count("joined_caller_rounds");
    }
    // --- mutable (stream, with and without more_recent_than) and most_recent ---
    let salt = tr.salt.clone();
    let mrt = if rng.chance(1, 3) { Some(tr.seq - 1) } else { None };
    let a2 = a.clone();
    let s2 = salt.clone();
    let items = w.block_on(async move { a2.get_mutable(&pk, s2.as_deref(), mrt).collect::<Vec<_>>().await }, bound).unwrap_or_default();
    let a3 = a.clone();
    let s3 = salt.clone();
    let most_recent = w.block_on(async move { a3.get_mutable_most_recent(&pk, s3.as_deref()).await }, bound).flatten();
    for (which, it) in items.iter().map(|i| ("get_mutable", i)).chain(most_recent.iter().map(|i| ("get_mutable_most_recent", i))) {
        r.count("mutable_yielded");
        let ok_key = it.key() == &pk;
        let ok_salt = it.salt() == salt.as_deref();
        let ok_sig = verify(&pk, &mutable_signable(it.seq(), it.value(), salt.as_deref()), it.signature());
        if !(ok_key && ok_salt && ok_sig) {
            let why = if !ok_key { "foreign-key" } else if !ok_salt { "other-salt" } else { "bad-signature" };
            r.violation(
                &format!("yield/mutable-{why}"),
                &format!("{which} yielded an item that is not authentic for the requested key and salt ({why})"),
                case.clone(),
                json!({"item_key": crate::bencode::hex(it.key()), "requested_key": crate::bencode::hex(&pk), "seq": it.seq(), "replies": obs.borrow().log}),
            );
        }
    }
    // --- signed peers ---
    let a4 = a.clone();
    let ih = Id::from(tr.ih);
    let lists = w.block_on(async move { a4.get_signed_peers(ih).await.collect::<Vec<_>>().await }, bound).unwrap_or_default();
    for s in lists.iter().flatten() {
        r.count("signed_yielded");
        if !verify(s.key(), &announce_signable(&tr.ih, s.timestamp()), s.signature()) {
            r.violation("yield/signed-peer-bad-signature", "get_signed_peers yielded an announcement whose signature over (info_hash, timestamp) does not verify under its key", case.clone(), json!({"key": crate::bencode::hex(s.key()), "replies": obs.borrow().log}));
        }
    }
    // --- the same node looks up ANOTHER info-hash: responders replay the announcements that were
    // authentic (and already accepted) for the first one
    let a5 = a.clone();
    let lists2 = w.block_on(async move { a5.get_signed_peers(Id::from(ih2)).await.collect::<Vec<_>>().await }, bound).unwrap_or_default();
    for s in lists2.iter().flatten() {
        r.count("signed_yielded_second_lookup");
        if !verify(s.key(), &announce_signable(&ih2, s.timestamp()), s.signature()) {
            r.violation("yield/signed-peer-replayed-from-other-infohash", "get_signed_peers(B) yielded an announcement that was signed for (and earlier accepted under) another info-hash", case.clone(), json!({"key": crate::bencode::hex(s.key()), "replies": obs.borrow().log}));
        }
    }
    let o = obs.borrow();
    r.add("forged_replies_delivered", o.forged_sent);
    r.add("authentic_replies_delivered", o.authentic_sent);
    if include_authentic {
        // positive control: authentic data must surface, otherwise the monitor would be blind
        if o.authentic_sent > 0 && items.is_empty() && lists.is_empty() && got_imm.as_ref().map(|x| x.is_none()).unwrap_or(true) {
            r.count("authentic_sent_but_nothing_yielded");
        }
    }
    if o.forged_sent > 0 {
        r.nontrivial(mix(seed, o.forged_sent));
    }
    if r.want_sample() && o.forged_sent > 2 {
        r.sample(json!({"seed": seed.to_string(), "responders": n_raw, "replies": o.log.iter().take(8).collect::<Vec<_>>(), "yielded": {"immutable": got_imm.map(|x| x.is_some()), "mutable": items.len(), "signed_lists": lists.len()}}));
    }
    drop(o);
    drop(reader);
    drop(a);
    w.shutdown();
    for (thread, loc, msg) in crate::take_panics() {
        r.violation(&format!("panic/{loc}"), &format!("thread {thread} panicked: {msg}"), case.clone(), json!({}));
    }
}

pub fn run(a: &Args) -> Report {
    let mut r = Report::new("C02");
    if let Some(path) = &a.replay {
        let v: Value = serde_json::from_str(&std::fs::read_to_string(path).unwrap_or_default()).unwrap_or_default();
        scenario(&mut r, v["case"]["seed"].as_str().and_then(|s| s.parse().ok()).unwrap_or(1));
        return r;
    }
    let n = (if a.quick() { 16000 } else { 320_000 }) / a.nshards.max(1);
    let mut rng = Rng::new(mix(a.seed, 0xc02 + a.shard));
    for _ in 0..n {
        let s = rng.u64();
        super::guarded(&mut r, json!({"class":"byzantine","seed":s.to_string()}), |r| scenario(r, s));
        r.count("scenarios");
    }
    r
}

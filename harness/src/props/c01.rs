//! C01 — stored data is found: put-then-get completeness, availability under crashes.
use super::net::*;
use super::srv::verify;
use crate::krpc::announce_signable;
use crate::report::Report;
use crate::rng::{mix, Rng};
use crate::simnet::*;
use crate::Args;
use dht::{Id, MutableItem, SigningKey};
use futures_lite::StreamExt;
use serde_json::{json, Value};
use std::collections::HashSet;
use std::net::SocketAddrV4;

#[derive(Clone, Debug)]
pub struct Params {
    pub seed: u64,
    pub servers: usize,
    pub clients: usize,
    pub plan: usize,
    pub simultaneous: bool,
    pub rounds: usize,
    pub crash_mode: usize,
    pub busy_reader: bool,
}

fn params_json(p: &Params) -> Value {
    json!({"class":"network","seed":p.seed.to_string(),"servers":p.servers,"clients":p.clients,"plan":p.plan,"simultaneous":p.simultaneous,"rounds":p.rounds,"crash_mode":p.crash_mode,"busy_reader":p.busy_reader})
}

const PLANS: [IpPlan; 4] = [IpPlan::Public, IpPlan::Private, IpPlan::Mixed, IpPlan::PublicSecure];

struct Written {
    kind: usize,
    target: Id,
    value: Vec<u8>,
    item: Option<MutableItem>,
    signer: SigningKey,
    port: Option<u16>,
    writer: usize,
    ackers: HashSet<SocketAddrV4>,
}

/// Put one datum from node `wi`; returns what was written and who acknowledged (from the trace).
fn write(w: &World, net: &Net, wi: usize, kind: usize, rng: &mut Rng) -> Result<Written, String> {
    let node = &net.nodes[wi];
    let signer = SigningKey::from_bytes(&rng.array::<32>());
    // a quarter of the values are close to the 1000-byte limit (datagrams of 1.1 - 1.8 kB with 20 nodes listed)
    // (one in twelve values is over the 1000-byte limit, one in twelve salts over 64 bytes: every storing node
    // refuses such a write, so the put must not return Ok - if it does, the readers below will not find it)
    let oversize = rng.chance(1, 12);
    let value = if oversize { rng.blob(1001, 1100) } else if rng.chance(1, 4) { rng.blob(870, 1000) } else { rng.blob(1, 60) };
    w.set_trace(TraceLevel::Full);
    w.clear_trace();
    let mut out = Written { kind, target: Id::from([0; 20]), value: value.clone(), item: None, signer: signer.clone(), port: None, writer: wi, ackers: HashSet::new() };
    let bound = 120 * SEC;
    let res: Option<Result<Id, String>> = match kind {
        0 => w.block_on(node.adht.put_immutable(&value), bound).map(|r| r.map_err(|e| format!("{e:?}"))),
        1 => {
            let salt: Option<Vec<u8>> = if rng.chance(1, 12) { Some(rng.blob(65, 80)) } else if rng.bool() { Some(rng.blob(1, 10)) } else { None };
            let item = MutableItem::new(&signer, &value, rng.below(1000) as i64, salt.as_deref());
            out.item = Some(item.clone());
            w.block_on(node.adht.put_mutable(item, None), bound).map(|r| r.map_err(|e| format!("{e:?}")))
        }
        2 => {
            let ih = Id::from(rng.array::<20>());
            out.port = if rng.bool() { Some(1024 + rng.usize(60000) as u16) } else { None };
            w.block_on(node.adht.announce_peer(ih, out.port), bound).map(|r| r.map_err(|e| format!("{e:?}")))
        }
        _ => {
            let ih = Id::from(rng.array::<20>());
            w.block_on(node.adht.announce_signed_peer(ih, &signer), bound).map(|r| r.map_err(|e| format!("{e:?}")))
        }
    };
    let trace = w.trace_from(0);
    w.set_trace(TraceLevel::Off);
    w.clear_trace();
    match res {
        None => Err("put did not complete within 120 s".into()),
        Some(Err(e)) => Err(format!("put failed: {e}")),
        Some(Ok(target)) => {
            out.target = target;
            let (sends, delivers) = sends_and_delivers(&trace);
            let reqs = requests_of(&sends, node.addr, |k| matches!(k.q.as_deref(), Some("put") | Some("announce_peer") | Some("announce_signed_peer")));
            for d in delivers.iter().filter(|d| d.to == node.addr && d.k.y == b'r') {
                if reqs.contains_key(&(d.from, d.k.t.clone())) {
                    out.ackers.insert(d.from);
                }
            }
            Ok(out)
        }
    }
}

/// Look the datum up on node `ri`; Ok(true) = found as the statement demands.
fn read(w: &World, net: &Net, ri: usize, wr: &Written) -> Result<bool, String> {
    let node = &net.nodes[ri];
    let bound = 180 * SEC;
    let writer_addr = net.nodes.get(wr.writer).map(|n| n.addr);
    match wr.kind {
        0 => match w.block_on(node.adht.get_immutable(wr.target), bound) {
            None => Err("get_immutable did not complete".into()),
            Some(v) => Ok(v.map(|v| v[..] == wr.value[..]).unwrap_or(false)),
        },
        1 => {
            let item = wr.item.as_ref().expect("item");
            let a = node.adht.clone();
            let (key, salt) = (*item.key(), item.salt().map(|s| s.to_vec()));
            match w.block_on(async move { a.get_mutable(&key, salt.as_deref(), None).collect::<Vec<_>>().await }, bound) {
                None => Err("get_mutable did not end".into()),
                Some(items) => {
                    if std::env::var("MLV_DEBUG").is_ok() {
                        eprintln!("want seq={} v={} ; yielded {:?}", item.seq(), crate::bencode::hex(item.value()), items.iter().map(|i| (i.seq(), crate::bencode::hex(i.value()))).collect::<Vec<_>>());
                    }
                    Ok(items.iter().any(|i| i.key() == item.key() && i.seq() == item.seq() && i.value() == item.value()))
                }
            }
        }
        2 => {
            let a = node.adht.clone();
            let t = wr.target;
            match w.block_on(async move { a.get_peers(t).collect::<Vec<_>>().await }, bound) {
                None => Err("get_peers did not end".into()),
                Some(lists) => {
                    let Some(wa) = writer_addr else { return Ok(true) };
                    let want = SocketAddrV4::new(*wa.ip(), wr.port.unwrap_or(wa.port()));
                    Ok(lists.iter().flatten().any(|p| *p == want))
                }
            }
        }
        _ => {
            let a = node.adht.clone();
            let t = wr.target;
            match w.block_on(async move { a.get_signed_peers(t).await.collect::<Vec<_>>().await }, bound) {
                None => Err("get_signed_peers did not end".into()),
                Some(lists) => {
                    let pk = wr.signer.verifying_key().to_bytes();
                    Ok(lists.iter().flatten().any(|s| s.key() == &pk && verify(&pk, &announce_signable(wr.target.as_bytes(), s.timestamp()), s.signature())))
                }
            }
        }
    }
}

pub fn scenario(r: &mut Report, p: &Params) {
    r.eval();
    let mut rng = Rng::new(p.seed);
    let w = World::with_cfg(p.seed, NetCfg::default(), TraceLevel::Off);
    let mut net = build_net(&w, p.servers, p.clients, PLANS[p.plan % 4], p.simultaneous, &mut rng);
    let n = net.nodes.len();
    let case = params_json(p);
    let kinds = ["immutable", "mutable", "announce_peer", "announce_signed_peer"];
    let mut nontrivial = false;
    for round in 0..p.rounds {
        if n < 2 {
            break;
        }
        let wi = rng.usize(n);
        let mut ri = rng.usize(n);
        if ri == wi {
            ri = (ri + 1) % n;
        }
        let kind = (round + p.plan + rng.usize(4)) % 4;
        // optional: the reader already has a lookup for the key in flight when the put returns
        let wr = match write(&w, &net, wi, kind, &mut rng) {
            Ok(x) => x,
            Err(e) => {
                // a failing put is not this property's subject (C06/C08); with one server and a
                // client writer it is legitimate (no storing node besides... ) - count and go on
                r.count("puts_not_ok");
                r.notes.entry("put_not_ok_example").or_insert(json!(e));
                continue;
            }
        };
        r.count(&format!("puts_ok/{}", kinds[kind]));
        let last = round + 1 == p.rounds;
        // variant: the same key and seq is written again with another value (not concurrently);
        // once that put returned Ok, lookups must return an item with the new value
        let mut wr = wr;
        if kind == 1 && rng.chance(1, 3) {
            let old = wr.item.clone().expect("item");
            let nv = rng.blob(1, 40);
            let item2 = MutableItem::new(&wr.signer, &nv, old.seq(), old.salt());
            let w2 = rng.usize(n);
            match w.block_on(net.nodes[w2].adht.put_mutable(item2.clone(), None), 120 * SEC) {
                Some(Ok(_)) => {
                    wr.item = Some(item2);
                    wr.value = nv;
                    r.count("rewrites_same_seq_ok");
                }
                _ => r.count("rewrites_same_seq_not_ok"),
            }
        }
        // variant (reader busy): the reader has its own put for the same key in flight (mutable /
        // signed announce) or an older lookup of the key still running when it asks again
        let mut busy_tasks: Vec<Task<()>> = vec![];
        let mut busy_class = "";
        if p.busy_reader && !(last && p.crash_mode > 0) {
            let a = net.nodes[ri].adht.clone();
            let now = w.now();
            let (t, item, signer) = (wr.target, wr.item.clone(), wr.signer.clone());
            match rng.usize(3) {
                0 if kind == 1 || kind == 3 => {
                    // the reader's own put for the same key: a mutable item with a mismatching cas
                    // (the storing nodes refuse it, so the stored item stays) / its own signed announce
                    busy_class = "reader-busy-own-put";
                    if kind == 1 {
                        let old = item.expect("item");
                        let item2 = MutableItem::new(&signer, b"reader's own newer item", old.seq() + 1, old.salt());
                        let cas = Some(old.seq() + 7);
                        busy_tasks.push(Task::new(now, async move { drop(a.put_mutable(item2, cas).await) }));
                    } else {
                        let own = SigningKey::from_bytes(&[0x42; 32]);
                        busy_tasks.push(Task::new(now, async move { drop(a.announce_signed_peer(t, &own).await) }));
                    }
                }
                1 => {
                    busy_class = "reader-busy-other-kind-lookup";
                    if rng.bool() {
                        busy_tasks.push(Task::new(now, async move { drop(a.find_node(t).await) }));
                    } else {
                        busy_tasks.push(Task::new(now, async move { drop(a.get_closest_nodes(t).await) }));
                    }
                }
                _ => {
                    busy_class = "reader-busy-same-kind-lookup";
                    busy_tasks.push(Task::new(now, async move {
                        match kind {
                            0 => drop(a.get_immutable(t).await),
                            1 => {
                                let i = item.expect("item");
                                drop(a.get_mutable(i.key(), i.salt(), None).collect::<Vec<_>>().await)
                            }
                            2 => drop(a.get_peers(t).collect::<Vec<_>>().await),
                            _ => drop(a.get_signed_peers(t).await.collect::<Vec<_>>().await),
                        }
                    }));
                }
            }
            r.count(&format!("busy/{busy_class}"));
            // let the busy call get going for a random short while
            let d = rng.below(400) * MS;
            w.run_for(d);
        }
        let mut crashed: Vec<usize> = vec![];
        if last && p.crash_mode > 0 {
            // keep one acknowledging node other than the reader, and one node the reader knows
            let ack_idx: Vec<usize> = (0..n).filter(|i| *i != ri && wr.ackers.contains(&net.nodes[*i].addr)).collect();
            if ack_idx.is_empty() {
                r.count("premise_unmet/no-acker-besides-reader");
                continue;
            }
            let keep = *rng.pick(&ack_idx);
            // what the reader's lookup of this kind can start from: the routing table that kind uses
            // (signed-peers table for signed lookups) plus its bootstrap address
            let known: Vec<String> = snapshot(&w, &net.nodes[ri])
                .map(|s| if kind == 3 { s.signed_table.nodes } else { s.table.nodes })
                .unwrap_or_default()
                .iter()
                .map(|n| n.1.to_string())
                .chain(std::iter::once(net.boot.to_string()))
                .collect();
            let mut keep_set: HashSet<usize> = [ri, keep].into_iter().collect();
            if !known.contains(&net.nodes[keep].addr.to_string()) {
                if let Some(c) = (0..n).find(|i| *i != ri && known.contains(&net.nodes[*i].addr.to_string())) {
                    keep_set.insert(c);
                } else {
                    r.count("premise_unmet/reader-knows-nobody");
                    continue;
                }
            }
            for i in 0..n {
                if keep_set.contains(&i) {
                    continue;
                }
                let crash = match p.crash_mode {
                    1 => rng.chance(3, 10),
                    2 => true,
                    _ => wr.ackers.contains(&net.nodes[i].addr) || rng.chance(1, 5),
                };
                if crash {
                    crashed.push(i);
                }
            }
            // crash from the highest index so that indices stay valid
            let mut victims = crashed.clone();
            victims.sort_unstable_by(|a, b| b.cmp(a));
            for i in &victims {
                let sock = net.nodes[*i].sock;
                w.crash_sock(sock);
            }
            // drop handles and let the threads exit
            let mut kept: Vec<Option<Node>> = net.nodes.drain(..).map(Some).collect();
            let mut socks = vec![];
            for i in &victims {
                if let Some(nd) = kept[*i].take() {
                    socks.push(nd.sock);
                    drop(nd);
                }
            }
            for s in socks {
                w.reap(s);
            }
            // rebuild net with placeholders removed; remember the new index of the reader
            let mut new_nodes = vec![];
            let mut new_ri = 0;
            for (i, nd) in kept.into_iter().enumerate() {
                if let Some(nd) = nd {
                    if i == ri {
                        new_ri = new_nodes.len();
                    }
                    new_nodes.push(nd);
                }
            }
            net.nodes = new_nodes;
            ri = new_ri;
            r.add("nodes_crashed", victims.len() as u64);
        }
        // "a lookup started afterwards": a third of the reads start 46 s .. 31 min after the put
        let mut delay_s = 0;
        if busy_tasks.is_empty() && rng.chance(1, 3) {
            delay_s = *rng.pick(&[46u64, 120, 360, 960, 1860]);
            // adaptive ("client") nodes on a confirmed public address turn into servers at their first
            // 15-minute refresh; the network then has more than 20 storing nodes and leaves the
            // deterministic part of the statement, so such worlds stay below 14 virtual minutes
            if p.clients > 0 && w.now() + delay_s * SEC >= 14 * 60 * SEC {
                delay_s = 46;
            }
            if p.clients > 0 && w.now() + delay_s * SEC >= 14 * 60 * SEC {
                delay_s = 0;
            }
        }
        if delay_s > 0 {
            w.run_for(delay_s * SEC);
            r.count("delayed_reads");
            r.add("delayed_reads_virtual_seconds", delay_s);
        }
        // premise: reader has a non-empty routing table
        let info = w.block_on(net.nodes[ri].adht.info(), 5 * SEC);
        let table = info.as_ref().map(|i| if kind == 3 { i.singing_peers_routing_table_size() } else { i.routing_table_size() }).unwrap_or(0);
        if table == 0 {
            r.count("premise_unmet/reader-table-empty");
            continue;
        }
        if wr.ackers.iter().all(|a| *a == net.nodes[ri].addr) {
            r.count("premise_unmet/only-reader-acked");
            continue;
        }
        // after crashes the writer index may be stale: only its address matters for announce_peer
        let wr2 = Written { writer: usize::MAX, ..wr };
        let writer_addr_known = Written { writer: if crashed.is_empty() { wi } else { usize::MAX }, ..wr2 };
        if std::env::var("MLV_DEBUG").is_ok() {
            let rx = dht::verif::snapshot(&net.nodes[ri].dht);
            w.run_for(600 * MS);
            if let Ok(s) = rx.try_recv() {
                eprintln!("reader {} table={:?} signed={:?} iq={:?} pq={:?} cache={}", net.nodes[ri].addr, s.table.nodes.iter().map(|n| (n.1, n.2)).collect::<Vec<_>>(), s.signed_table.nodes.len(), s.iterative_queries, s.put_queries, s.cache_len);
            }
        }
        w.set_trace(TraceLevel::Full);
        w.clear_trace();
        let res = read(&w, &net, ri, &writer_addr_known);
        let rtrace = w.trace_from(0);
        w.set_trace(TraceLevel::Off);
        w.clear_trace();
        let lookup_summary = |net: &Net| -> Value {
            let (sends, delivers) = sends_and_delivers(&rtrace);
            let me = net.nodes[ri].addr;
            let alive: HashSet<SocketAddrV4> = net.nodes.iter().map(|n| n.addr).collect();
            let mut rows = vec![];
            for s in sends.iter().filter(|m| m.from == me && m.k.y == b'q') {
                let reply = delivers.iter().find(|d| d.to == me && d.from == s.to && d.k.t == s.k.t);
                rows.push(json!({"to": s.to.to_string(), "q": s.k.q, "alive": alive.contains(&s.to), "acker": writer_addr_known.ackers.contains(&s.to),
                    "reply": reply.map(|d| if d.k.y == b'e' { format!("error {:?}", d.k.error_code()) } else { format!("r keys={:?}", match &d.k.r { Some(crate::bencode::B::Dict(x)) => x.iter().map(|(k, _)| String::from_utf8_lossy(k).into_owned()).collect::<Vec<_>>(), _ => vec![] }) })}));
            }
            json!(rows)
        };
        let class = if !busy_tasks.is_empty() { busy_class } else if crashed.is_empty() { "plain" } else { "after-crash" };
        // drive the busy call to its end so that it does not leak into the next round
        let end = w.now() + 120 * SEC;
        while busy_tasks.iter_mut().any(|t| !t.poll(w.now())) {
            if !matches!(w.step_until(end), Step::Node(_) | Step::Raw(_)) {
                break;
            }
        }
        match res {
            Err(e) => r.violation(&format!("read/{class}/did-not-complete"), &format!("reader lookup: {e}"), case.clone(), json!({"kind": kinds[kind], "round": round})),
            Ok(true) => {
                r.count(&format!("found/{class}/{}", kinds[kind]));
                if delay_s > 0 {
                    r.count(&format!("found_after_delay/{}", kinds[kind]));
                }
                nontrivial = true;
            }
            Ok(false) => {
                // announce_peer after the writer crashed: the address is still what was stored
                if kind == 2 && !crashed.is_empty() {
                    r.count("skipped/announce-after-crash-address-unknown");
                    continue;
                }
                r.violation(
                    &format!("read/{class}/not-found/{}", kinds[kind]),
                    "a value whose put returned Ok was not returned by a later lookup on another node",
                    case.clone(),
                    json!({"kind": kinds[kind], "round": round, "ackers": writer_addr_known.ackers.len(), "crashed": crashed.len(), "read_delay_s": delay_s, "reader_lookup": lookup_summary(&net)}),
                );
            }
        }
    }
    if nontrivial {
        r.nontrivial(mix(p.seed, w.order_hash()));
    }
    if r.want_sample() {
        r.sample(json!({"params": case, "steps": w.steps(), "delivery_order_hash": format!("{:016x}", w.order_hash())}));
    }
    if w.stuck() {
        r.inconclusive("scheduler watchdog fired");
    }
    let panicked = w.any_panicked();
    drop(net);
    w.shutdown();
    for (thread, loc, msg) in crate::take_panics() {
        r.violation(&format!("panic/{loc}"), &format!("thread {thread} panicked: {msg}"), case.clone(), json!({"dead": panicked.len()}));
    }
}

/// Larger networks (50..300 nodes): Kademlia completeness is probabilistic, so the success rate of
/// write/read pairs is compared with a floor far below the loss-free baseline.
/// Join order and history matter: the reader has already looked the key up (its lookup cache holds the nodes
/// that answered then), a new storing node joins through the reader, the writer publishes again, every node
/// but the reader and the newcomer crashes, and the reader looks the key up once more within the cache's
/// lifetime. The newcomer acknowledged the write, is alive and is in the reader's routing table.
pub fn late_joiner_scenario(r: &mut Report, seed: u64) {
    r.eval();
    let mut rng = Rng::new(seed);
    let w = World::with_cfg(seed, NetCfg::default(), TraceLevel::Off);
    let servers = 2 + rng.usize(9);
    let mut net = build_net(&w, servers, 0, IpPlan::Private, false, &mut rng);
    let kinds = ["immutable", "mutable", "announce_peer", "announce_signed_peer"];
    let kind = *rng.pick(&[0usize, 1, 3]);
    let mut case = json!({"class":"late-joiner","seed":seed.to_string(),"servers":servers,"kind":kinds[kind]});
    let wi = rng.usize(servers);
    // the reader: one of the servers, or (half of the time) a client-mode node - a server also asks itself
    // during its lookups and answers from its own routing table, a client does not
    let reader_is_client = rng.bool();
    let ri = if reader_is_client {
        let c = w.spawn(NodeSpec::client(std::net::Ipv4Addr::new(10, 78, 0, 1), &[net.boot])).expect("reader");
        w.block_on(c.adht.bootstrapped(), 120 * SEC);
        net.nodes.push(c);
        net.nodes.len() - 1
    } else {
        (wi + 1 + rng.usize(servers - 1)) % servers
    };
    case["reader_is_client"] = json!(reader_is_client);
    let wr = match write(&w, &net, wi, kind, &mut rng) {
        Ok(x) => x,
        Err(_) => {
            r.count("puts_not_ok");
            return;
        }
    };
    // A put is served from the writer's own lookup cache while that is younger than 5 minutes, and so is a
    // repeated lookup on the reader: the reader's first lookup happens 4 minutes after the write, the
    // second publication after 5 (fresh lookup on the writer, which now finds the newcomer), the reader's
    // second lookup right after it (its cache entry is a good minute old).
    let t_write = w.now();
    w.run_for(240 * SEC);
    // the reader's first lookup (finds the value and caches who answered)
    match read(&w, &net, ri, &wr) {
        Ok(true) => r.count(&format!("found/late-joiner-first-read/{}", kinds[kind])),
        Ok(false) => {
            r.violation(&format!("read/plain/not-found/{}", kinds[kind]), "a value whose put returned Ok was not returned by a later lookup on another node", case.clone(), json!({"kind": kinds[kind], "phase": "first read"}));
            return;
        }
        Err(e) => {
            r.violation("read/plain/did-not-complete", &format!("reader lookup: {e}"), case.clone(), json!({}));
            return;
        }
    }
    // a new storing node joins through the reader
    let via = if reader_is_client { net.boot } else { net.nodes[ri].addr };
    let s_node = w.spawn(NodeSpec::server(std::net::Ipv4Addr::new(10, 77, 0, 1), &[via])).expect("late server");
    w.block_on(s_node.adht.bootstrapped(), 120 * SEC);
    let s_addr = s_node.addr;
    // the reader gets to know the newcomer through a lookup of an unrelated target
    if let Some(info) = w.block_on(s_node.adht.info(), 5 * SEC) {
        let a = net.nodes[ri].adht.clone();
        let t = *info.id();
        w.block_on(async move { drop(a.find_node(t).await) }, 120 * SEC);
    }
    // the writer publishes the same datum again
    w.run_to(t_write + 310 * SEC);
    w.set_trace(TraceLevel::Full);
    w.clear_trace();
    let node = &net.nodes[wi];
    let bound = 120 * SEC;
    let again: Option<bool> = match kind {
        0 => w.block_on(node.adht.put_immutable(&wr.value), bound).map(|x| x.is_ok()),
        1 => w.block_on(node.adht.put_mutable(wr.item.clone().expect("item"), None), bound).map(|x| x.is_ok()),
        _ => w.block_on(node.adht.announce_signed_peer(wr.target, &wr.signer), bound).map(|x| x.is_ok()),
    };
    let trace = w.trace_from(0);
    w.set_trace(TraceLevel::Off);
    w.clear_trace();
    if again != Some(true) {
        r.count("late_joiner/republish-not-ok");
        return;
    }
    let (sends, delivers) = sends_and_delivers(&trace);
    let reqs = requests_of(&sends, node.addr, |k| matches!(k.q.as_deref(), Some("put") | Some("announce_peer") | Some("announce_signed_peer")));
    let s_acked = delivers.iter().any(|d| d.to == node.addr && d.k.y == b'r' && d.from == s_addr && reqs.contains_key(&(d.from, d.k.t.clone())));
    if !s_acked {
        r.count("premise_unmet/late-joiner-did-not-ack");
        return;
    }
    // everybody but the reader and the newcomer crashes
    let mut kept: Vec<Option<Node>> = net.nodes.drain(..).map(Some).collect();
    let mut socks = vec![];
    for (i, slot) in kept.iter_mut().enumerate() {
        if i != ri {
            if let Some(nd) = slot.take() {
                w.crash_sock(nd.sock);
                socks.push(nd.sock);
                drop(nd);
            }
        }
    }
    for sck in socks {
        w.reap(sck);
    }
    r.add("nodes_crashed", (kept.len() - 1) as u64);
    let reader = kept[ri].take().expect("reader");
    r.count(if reader_is_client { "late_joiner/client-mode-reader" } else { "late_joiner/server-mode-reader" });
    // premise: the reader knows the newcomer
    let knows = snapshot(&w, &reader).map(|sn| if kind == 3 { sn.signed_table.nodes.iter().any(|x| x.1 == s_addr) } else { sn.table.nodes.iter().any(|x| x.1 == s_addr) }).unwrap_or(false);
    if !knows {
        r.count("premise_unmet/reader-does-not-know-the-late-joiner");
        drop(reader);
        drop(s_node);
        w.shutdown();
        let _ = crate::take_panics();
        return;
    }
    net.nodes = vec![reader];
    let wr2 = Written { writer: usize::MAX, ..wr };
    if std::env::var("MLV_DEBUG").is_ok() {
        w.set_trace(TraceLevel::Full);
        w.clear_trace();
    }
    let second = read(&w, &net, 0, &wr2);
    if std::env::var("MLV_DEBUG").is_ok() {
        let (sends, _) = sends_and_delivers(&w.trace_from(0));
        for m in sends.iter() {
            eprintln!("  t={}ms {} -> {} {} q={:?} late_joiner={}", m.t / 1_000_000, m.from, m.to, m.k.y as char, m.k.q, m.to == s_addr || m.from == s_addr);
        }
        w.set_trace(TraceLevel::Off);
    }
    match second {
        Ok(true) => r.count(&format!("found/late-joiner-after-crash/{}", kinds[kind])),
        Ok(false) => r.violation(
            &format!("read/late-joiner-after-crash/not-found/{}", kinds[kind]),
            "the only surviving node that acknowledged the write joined after the reader's first lookup of the key; the reader knows it, but its second lookup did not return the value",
            case.clone(),
            json!({"kind": kinds[kind], "servers": servers}),
        ),
        Err(e) => r.violation("read/late-joiner-after-crash/did-not-complete", &format!("reader lookup: {e}"), case.clone(), json!({})),
    }
    r.nontrivial(mix(seed, w.order_hash()));
    drop(net);
    drop(s_node);
    w.shutdown();
    for (thread, loc, msg) in crate::take_panics() {
        r.violation(&format!("panic/{loc}"), &format!("thread {thread} panicked: {msg}"), case.clone(), json!({}));
    }
}

pub fn large_scenario(r: &mut Report, seed: u64, servers: usize, pairs: usize) {
    r.eval();
    let mut rng = Rng::new(seed);
    let w = World::with_cfg(seed, NetCfg::default(), TraceLevel::Off);
    let case = json!({"class":"large-network","seed":seed.to_string(),"servers":servers,"pairs":pairs});
    let net = build_net(&w, servers, servers / 10, PLANS[rng.usize(4)], true, &mut rng);
    let n = net.nodes.len();
    let mut ok = 0usize;
    let mut failed: Vec<Value> = vec![];
    let mut attempted = 0usize;
    for i in 0..pairs {
        let wi = rng.usize(n);
        let mut ri = rng.usize(n);
        if ri == wi {
            ri = (ri + 1) % n;
        }
        let kind = i % 4;
        let Ok(wr) = write(&w, &net, wi, kind, &mut rng) else {
            r.count("large/puts_not_ok");
            continue;
        };
        attempted += 1;
        match read(&w, &net, ri, &wr) {
            Ok(true) => ok += 1,
            other => failed.push(json!({"pair": i, "kind": kind, "writer": net.nodes[wi].addr.to_string(), "reader": net.nodes[ri].addr.to_string(), "result": format!("{other:?}"), "ackers": wr.ackers.len()})),
        }
    }
    let rate = if attempted == 0 { 0.0 } else { ok as f64 / attempted as f64 };
    r.add("large/pairs_attempted", attempted as u64);
    r.add("large/pairs_found", ok as u64);
    r.notes.insert(format!("large_network_{servers}_success_rate"), json!(format!("{ok}/{attempted} = {rate:.3} (floor 0.90)")));
    if attempted >= 10 && rate < 0.90 {
        r.violation(&format!("large-network/success-rate-below-floor/{servers}"), &format!("put-then-get success rate {rate:.3} in a {servers}-server network is below the floor 0.90"), case.clone(), json!({"failed_pairs": failed.iter().take(20).collect::<Vec<_>>() }));
    }
    if attempted > 0 {
        r.nontrivial(mix(seed, servers as u64));
    }
    r.count("large_networks");
    if w.stuck() {
        r.inconclusive("scheduler watchdog fired");
    }
    drop(net);
    for (thread, loc, msg) in crate::take_panics() {
        r.violation(&format!("panic/{loc}"), &format!("thread {thread} panicked: {msg}"), case.clone(), json!({}));
    }
}

/// Several publishers under one key: announcers on one info hash, two of them behind the same IP address
/// (another port) and one elsewhere, with explicit and implied ports, and several signers announcing on one
/// info hash. Every put returned Ok, so a later lookup on another node must return each announcer's
/// (IP, port) / each signer's announcement - one publisher must not displace another. Then the first
/// announcer announces again with another port, which the next lookup must return.
pub fn shared_key_scenario(r: &mut Report, seed: u64) {
    r.eval();
    let mut rng = Rng::new(seed);
    let w = World::with_cfg(seed, NetCfg::default(), TraceLevel::Off);
    let servers = 2 + rng.usize(9);
    let plan = *rng.pick(&[IpPlan::Public, IpPlan::Private]);
    let mut net = build_net(&w, servers, 0, plan, false, &mut rng);
    let signed = rng.bool();
    let case = json!({"class":"shared-key","seed":seed.to_string(),"servers":servers,"signed":signed,"plan":format!("{plan:?}")});
    // publishers: node wi, a companion sharing wi's IP (client or server mode), and a third node elsewhere
    let wi = rng.usize(servers);
    let w_ip = *net.nodes[wi].addr.ip();
    let mut spec = if rng.bool() { NodeSpec::client(w_ip, &[net.boot]) } else { NodeSpec::server(w_ip, &[net.boot]) };
    spec.port = Some(20_000 + rng.usize(20_000) as u16);
    let Ok(comp) = w.spawn(spec) else {
        r.count("shared_key/companion-not-spawned");
        return;
    };
    w.block_on(comp.adht.bootstrapped(), 120 * SEC);
    net.nodes.push(comp);
    let ci = net.nodes.len() - 1;
    let ti = (wi + 1 + rng.usize(servers - 1)) % servers;
    let ri = loop {
        let x = rng.usize(servers);
        if x != wi && (x != ti || servers == 2) {
            break x;
        }
    };
    let ih = Id::from(rng.array::<20>());
    let pubs = [wi, ci, ti];
    let bound = 120 * SEC;
    let mut expect_peers: Vec<(usize, SocketAddrV4)> = vec![];
    let mut expect_keys: Vec<(usize, [u8; 32])> = vec![];
    for (j, &pi) in pubs.iter().enumerate() {
        if pi == ri {
            continue;
        }
        let node = &net.nodes[pi];
        if signed {
            let signer = SigningKey::from_bytes(&rng.array::<32>());
            match w.block_on(node.adht.announce_signed_peer(ih, &signer), bound) {
                Some(Ok(_)) => expect_keys.push((j, signer.verifying_key().to_bytes())),
                _ => r.count("puts_not_ok"),
            }
        } else {
            let port = if rng.bool() { Some(1024 + rng.usize(60000) as u16) } else { None };
            match w.block_on(node.adht.announce_peer(ih, port), bound) {
                Some(Ok(_)) => expect_peers.push((j, SocketAddrV4::new(*node.addr.ip(), port.unwrap_or(node.addr.port())))),
                _ => r.count("puts_not_ok"),
            }
        }
        if rng.chance(1, 3) {
            w.run_for(rng.below(90) * SEC);
        }
    }
    let who = ["first", "same-ip-companion", "other-ip"];
    let check = |r: &mut Report, round: &str, expect_peers: &[(usize, SocketAddrV4)], expect_keys: &[(usize, [u8; 32])]| {
        let a = net.nodes[ri].adht.clone();
        if signed {
            match w.block_on(async move { a.get_signed_peers(ih).await.collect::<Vec<_>>().await }, 180 * SEC) {
                None => r.violation("read/shared-key/did-not-complete", "get_signed_peers did not end", case.clone(), json!({})),
                Some(lists) => {
                    for (j, pk) in expect_keys {
                        let ok = lists.iter().flatten().any(|s| s.key() == pk && verify(pk, &announce_signable(ih.as_bytes(), s.timestamp()), s.signature()));
                        if ok {
                            r.count(&format!("found/shared-key/{round}/announce_signed_peer"));
                        } else {
                            r.violation(&format!("read/shared-key/{round}/not-found/announce_signed_peer/{}", who[*j]), "several signers announced on one info hash (every call returned Ok); a later lookup on another node misses one of them", case.clone(), json!({"publishers": expect_keys.len()}));
                        }
                    }
                }
            }
        } else {
            match w.block_on(async move { a.get_peers(ih).collect::<Vec<_>>().await }, 180 * SEC) {
                None => r.violation("read/shared-key/did-not-complete", "get_peers did not end", case.clone(), json!({})),
                Some(lists) => {
                    for (j, want) in expect_peers {
                        if lists.iter().flatten().any(|p| p == want) {
                            r.count(&format!("found/shared-key/{round}/announce_peer"));
                        } else {
                            let got: HashSet<String> = lists.iter().flatten().map(|p| p.to_string()).collect();
                            r.violation(&format!("read/shared-key/{round}/not-found/announce_peer/{}", who[*j]), "several nodes (two of them behind one IP address) announced on one info hash (every call returned Ok); a later lookup on another node misses one announcer's (IP, port)", case.clone(), json!({"want": want.to_string(), "got": got}));
                        }
                    }
                }
            }
        }
    };
    if expect_peers.len() + expect_keys.len() >= 2 {
        check(r, "all-publishers", &expect_peers, &expect_keys);
        r.count("shared_key/lookups_with_two_or_more_publishers");
        r.nontrivial(mix(seed, w.order_hash()));
    }
    // the first announcer announces again, with another explicit port: the new port must be found
    // (whether the old one is still listed is not the statement's business)
    if !signed && wi != ri && !expect_peers.is_empty() {
        let np = 2000 + rng.usize(60000) as u16;
        if let Some(Ok(_)) = w.block_on(net.nodes[wi].adht.announce_peer(ih, Some(np)), bound) {
            let mut e2: Vec<(usize, SocketAddrV4)> = expect_peers.iter().filter(|(j, _)| *j != 0).cloned().collect();
            e2.push((0, SocketAddrV4::new(w_ip, np)));
            check(r, "after-re-announce", &e2, &expect_keys);
        }
    }
    if w.stuck() {
        r.inconclusive("scheduler watchdog fired");
    }
    drop(net);
    w.shutdown();
    for (thread, loc, msg) in crate::take_panics() {
        r.violation(&format!("panic/{loc}"), &format!("thread {thread} panicked: {msg}"), case.clone(), json!({}));
    }
}

/// The reader publishes under the key itself (a mutable item with a mismatching cas / its own signed
/// announcement) while one node it knows has just crashed: the put's lookup stays open until the request to
/// the dead node times out (500 ms), whereas every live node has long answered (latencies of a few ms).
/// A read started in that window joins a lookup whose answers all arrived before the read began.
pub fn own_put_window_scenario(r: &mut Report, seed: u64) {
    r.eval();
    let mut rng = Rng::new(seed);
    let w = World::with_cfg(seed, NetCfg::default(), TraceLevel::Off);
    let servers = 3 + rng.usize(8);
    let mut net = build_net(&w, servers, 0, IpPlan::Private, false, &mut rng);
    let kinds = ["immutable", "mutable", "announce_peer", "announce_signed_peer"];
    let kind = if rng.bool() { 1 } else { 3 };
    let case = json!({"class":"own-put-window","seed":seed.to_string(),"servers":servers,"kind":kinds[kind]});
    if std::env::var("MLV_DEBUG").is_ok() {
        eprintln!("net built at t={}ms", w.now() / 1_000_000);
    }
    let wi = rng.usize(servers);
    let mut ri = (wi + 1 + rng.usize(servers - 1)) % servers;
    let wr = match write(&w, &net, wi, kind, &mut rng) {
        Ok(x) => x,
        Err(_) => {
            r.count("puts_not_ok");
            return;
        }
    };
    // crash one node other than the reader that leaves at least one acknowledging node besides the reader
    // premise: afterwards the reader still knows a live node in the routing table this kind of lookup starts from
    let known: Vec<SocketAddrV4> = snapshot(&w, &net.nodes[ri]).map(|sn| if kind == 3 { sn.signed_table.nodes } else { sn.table.nodes }).unwrap_or_default().iter().map(|n| n.1).collect();
    let victims: Vec<usize> = (0..servers)
        .filter(|i| *i != ri && (0..servers).any(|k| k != *i && k != ri && wr.ackers.contains(&net.nodes[k].addr)) && known.iter().any(|a| *a != net.nodes[*i].addr && net.nodes.iter().any(|n| n.addr == *a)))
        .collect();
    if victims.is_empty() {
        r.count("premise_unmet/no-acker-besides-reader-or-reader-knows-nobody-else");
        return;
    }
    let vi = *rng.pick(&victims);
    let nd = net.nodes.remove(vi);
    let sck = nd.sock;
    w.crash_sock(sck);
    drop(nd);
    w.reap(sck);
    if vi < ri {
        ri -= 1;
    }
    w.set_latency(MS, MS + rng.below(25) * MS);
    let a = net.nodes[ri].adht.clone();
    let (t, item, signer) = (wr.target, wr.item.clone(), wr.signer.clone());
    let mut own: Task<()> = if kind == 1 {
        let old = item.expect("item");
        let item2 = MutableItem::new(&signer, b"reader's own newer item", old.seq() + 1, old.salt());
        let cas = Some(old.seq() + 7);
        Task::new(w.now(), async move { drop(a.put_mutable(item2, cas).await) })
    } else {
        let own = SigningKey::from_bytes(&[0x43; 32]);
        Task::new(w.now(), async move { drop(a.announce_signed_peer(t, &own).await) })
    };
    if std::env::var("MLV_DEBUG").is_ok() {
        if let Some(sn) = snapshot(&w, &net.nodes[ri]) {
            eprintln!("t={}ms reader table={:?} signed={:?} crashed index {vi}, writer {wi}, ackers {:?}", w.now() / 1_000_000, sn.table.nodes.iter().map(|n| (n.1, n.2)).collect::<Vec<_>>(), sn.signed_table.nodes.len(), wr.ackers);
        }
        w.set_trace(TraceLevel::Full);
        w.clear_trace();
    }
    own.poll(w.now());
    let d = (60 + rng.below(400)) * MS;
    w.run_for(d);
    own.poll(w.now());
    let in_flight = snapshot(&w, &net.nodes[ri]).map(|sn| sn.iterative_queries.contains(&t)).unwrap_or(false);
    let wr2 = Written { writer: usize::MAX, ..wr };
    let t_read = w.now();
    let res = read(&w, &net, ri, &wr2);
    if std::env::var("MLV_DEBUG").is_ok() {
        let (sends, delivers) = sends_and_delivers(&w.trace_from(0));
        eprintln!("read started at t={}ms reader={}", t_read / 1_000_000, net.nodes[ri].addr);
        for m in sends.iter() {
            eprintln!("  send t={}ms {} -> {} {} q={:?} keys={:?}", m.t / 1_000_000, m.from, m.to, m.k.y as char, m.k.q, match &m.k.r { Some(crate::bencode::B::Dict(x)) => x.iter().map(|(k, _)| String::from_utf8_lossy(k).into_owned()).collect::<Vec<_>>(), _ => vec![] });
        }
        for m in delivers.iter() {
            eprintln!("  dlvr t={}ms {} -> {} {}", m.t / 1_000_000, m.from, m.to, m.k.y as char);
        }
        w.set_trace(TraceLevel::Off);
    }
    let end = w.now() + 120 * SEC;
    while !own.poll(w.now()) {
        if !matches!(w.step_until(end), Step::Node(_) | Step::Raw(_)) {
            break;
        }
    }
    if in_flight {
        r.count("own_put_window/read_started_while_the_puts_lookup_was_open");
        r.nontrivial(mix(seed, w.order_hash()));
    }
    match res {
        Ok(true) => r.count(&format!("found/reader-busy-own-put/{}", kinds[kind])),
        Ok(false) => r.violation(&format!("read/reader-busy-own-put/not-found/{}", kinds[kind]), "a value whose put returned Ok was not returned by a later lookup on another node (the reader had its own put for the key in flight, waiting for a crashed node to time out)", case.clone(), json!({"lookup_open_at_read": in_flight, "delay_ms": d / MS})),
        Err(e) => r.violation("read/reader-busy-own-put/did-not-complete", &format!("reader lookup: {e}"), case.clone(), json!({})),
    }
    if w.stuck() {
        r.inconclusive("scheduler watchdog fired");
    }
    drop(net);
    w.shutdown();
    for (thread, loc, msg) in crate::take_panics() {
        r.violation(&format!("panic/{loc}"), &format!("thread {thread} panicked: {msg}"), case.clone(), json!({}));
    }
}

/// A long-lived reader: a node that has sent more than 2^16 requests (some 3,500 lookups in a 20-node network;
/// days of maintenance traffic on an idle node) looks a freshly written key up. Age must not matter.
pub fn long_lived_reader(r: &mut Report, seed: u64) {
    r.eval();
    let mut rng = Rng::new(seed);
    let w = World::with_cfg(seed, NetCfg { lat_min: MS, lat_max: 20 * MS, random_ties: true }, TraceLevel::Off);
    let servers = 20;
    let mut net = build_net(&w, servers, 0, IpPlan::Private, false, &mut rng);
    let reader = w.spawn(NodeSpec::client(std::net::Ipv4Addr::new(10, 79, 0, 1), &[net.boot])).expect("reader");
    w.block_on(reader.adht.bootstrapped(), 120 * SEC);
    let raddr = reader.addr;
    let sent = std::sync::Arc::new(std::sync::atomic::AtomicU64::new(0));
    let s2 = sent.clone();
    w.set_fault(Some(Box::new(move |info: &SendInfo| {
        if info.from == raddr {
            s2.fetch_add(1, std::sync::atomic::Ordering::Relaxed);
        }
        None
    })));
    let want = 66_000 + rng.below(3_000);
    let mut lookups = 0u64;
    while sent.load(std::sync::atomic::Ordering::Relaxed) < want && lookups < 20_000 {
        let a = reader.adht.clone();
        let t = Id::from(rng.array::<20>());
        if w.block_on(async move { drop(a.find_node(t).await) }, 60 * SEC).is_none() {
            break;
        }
        lookups += 1;
    }
    w.set_fault(None);
    let n_sent = sent.load(std::sync::atomic::Ordering::Relaxed);
    let case = json!({"class":"long-lived-reader","seed":seed.to_string(),"servers":servers,"requests_sent_by_the_reader_before": n_sent, "lookups_before": lookups});
    r.add("long_lived_reader/requests_sent_before_the_read", n_sent);
    r.count("long_lived_reader_worlds");
    net.nodes.push(reader);
    let ri = net.nodes.len() - 1;
    let kinds = ["immutable", "mutable", "announce_peer", "announce_signed_peer"];
    if n_sent >= 65_600 {
        r.nontrivial(mix(seed, n_sent));
        for kind in 0..4 {
            let wi = rng.usize(servers);
            let Ok(wr) = write(&w, &net, wi, kind, &mut rng) else {
                r.count("puts_not_ok");
                continue;
            };
            match read(&w, &net, ri, &wr) {
                Ok(true) => r.count(&format!("found/long-lived-reader/{}", kinds[kind])),
                Ok(false) => r.violation(&format!("read/long-lived-reader/not-found/{}", kinds[kind]), "a value whose put returned Ok was not returned by a later lookup on a node that had sent more than 65536 requests in its lifetime", case.clone(), json!({"kind": kinds[kind]})),
                Err(e) => r.violation("read/long-lived-reader/did-not-complete", &format!("reader lookup: {e}"), case.clone(), json!({})),
            }
        }
    }
    if w.stuck() {
        r.inconclusive("scheduler watchdog fired");
    }
    drop(net);
    w.shutdown();
    for (thread, loc, msg) in crate::take_panics() {
        r.violation(&format!("panic/{loc}"), &format!("thread {thread} panicked: {msg}"), case.clone(), json!({}));
    }
}

/// A slow path to the only holder. One server stores the value; the datagrams it sends to the reader take long:
/// over a second during the reader's first lookups (those answers come after the request timed out - the reads
/// are not judged, but the node's round-trip estimate learns from them), then 0.55 .. 1.1 s. During every judged
/// read the reader's adaptive request timeout is read at every iteration of its loop (snapshot hook) and the
/// request/answer times are taken from the datagrams; if, by that timeline, the holder's answer arrived while its
/// request was younger than the timeout in force, the value was delivered in time and the read must find it.
pub fn slow_holder_scenario(r: &mut Report, seed: u64) {
    use crate::krpc::Krpc;
    use std::sync::atomic::{AtomicU64, Ordering};
    use std::sync::{Arc, Mutex};
    r.eval();
    let mut rng = Rng::new(seed);
    let w = World::with_cfg(seed, NetCfg { lat_min: MS, lat_max: 20 * MS, random_ties: true }, TraceLevel::Off);
    let kind = rng.usize(2);
    let s = w.spawn(NodeSpec::server(std::net::Ipv4Addr::new(10, 60, 0, 1), &[])).expect("server");
    let wr = w.spawn(NodeSpec::client(std::net::Ipv4Addr::new(10, 60, 0, 2), &[s.addr])).expect("writer");
    w.block_on(wr.adht.bootstrapped(), 60 * SEC);
    let rd = w.spawn(if rng.bool() { NodeSpec::client(std::net::Ipv4Addr::new(10, 60, 0, 3), &[s.addr]) } else { NodeSpec::server(std::net::Ipv4Addr::new(10, 60, 0, 3), &[s.addr]) }).expect("reader");
    w.block_on(rd.adht.bootstrapped(), 60 * SEC);
    let kind_name = ["immutable", "mutable"][kind];
    let case = json!({"class":"slow-holder","seed":seed.to_string(),"kind":kind_name});
    let signer = SigningKey::from_bytes(&rng.array::<32>());
    let value = rng.blob(1, 200);
    let item = MutableItem::new(&signer, &value, 7, None);
    let put_ok = match kind {
        0 => w.block_on(wr.adht.put_immutable(&value), 60 * SEC).map(|x| x.is_ok()).unwrap_or(false),
        _ => w.block_on(wr.adht.put_mutable(item.clone(), None), 60 * SEC).map(|x| x.is_ok()).unwrap_or(false),
    };
    r.count("slow_holder_scenarios");
    if !put_ok {
        r.count("puts_not_ok");
        return;
    }
    // the slow path, and the log of the reader's exchanges with the holder
    let delay = Arc::new(AtomicU64::new(0));
    let log: Arc<Mutex<Vec<Exchange>>> = Default::default();
    let (d2, l2, s_addr, r_addr) = (delay.clone(), log.clone(), s.addr, rd.addr);
    w.set_fault(Some(Box::new(move |info: &SendInfo| {
        let k = Krpc::parse(info.bytes)?;
        let mut l = l2.lock().unwrap_or_else(|e| e.into_inner());
        if info.from == r_addr && info.to == s_addr && k.y == b'q' {
            l.push(Exchange { tid: k.t.clone(), to: info.to, name: k.q.clone().unwrap_or_default(), target: k.target(), sent: info.now, answered: None });
            None
        } else if info.from == s_addr && info.to == r_addr && k.y != b'q' {
            let extra = d2.load(Ordering::SeqCst);
            if let Some(e) = l.iter_mut().rev().find(|e| e.tid == k.t && e.answered.is_none()) {
                e.answered = Some(info.now + info.latency + extra);
            }
            Some(vec![(info.bytes.to_vec(), info.latency + extra)])
        } else {
            None
        }
    })));
    let target = if kind == 0 { Id::from(crate::sha1::immutable_target(&value)) } else { *item.target() };
    let key = signer.verifying_key().to_bytes();
    let reads = 3 + rng.usize(6);
    let mut judged = 0u64;
    for k in 0..reads {
        // the first one or two answers come after the request timed out
        let d = if k < 1 + (seed % 2) as usize { (1100 + rng.below(1200)) * MS } else { (550 + rng.below(550)) * MS };
        delay.store(d, Ordering::SeqCst);
        let mark = log.lock().unwrap_or_else(|e| e.into_inner()).len();
        let a = rd.adht.clone();
        let (found, mut line) = if kind == 0 {
            let mut task = Task::new(w.now(), async move { a.get_immutable(target).await });
            let (_, line) = run_until_sampling_timeout(&w, &rd, 120 * SEC, |w| task.poll(w.now()));
            (task.result.take().map(|v| v.map(|v| v[..] == value[..]).unwrap_or(false)), line)
        } else {
            let mut task = Task::new(w.now(), async move { a.get_mutable(&key, None, None).collect::<Vec<_>>().await });
            let (_, line) = run_until_sampling_timeout(&w, &rd, 120 * SEC, |w| task.poll(w.now()));
            (task.result.take().map(|items| items.iter().any(|i| i.seq() == 7 && i.value() == &value[..])), line)
        };
        r.count("slow_holder/reads");
        let ex = log.lock().unwrap_or_else(|e| e.into_inner())[mark..].iter().rev().find(|e| e.name == "get" && e.target == Some(*target.as_bytes())).cloned();
        // (the read may have returned before the holder's answer arrives: the timeline has to cover that moment)
        if let Some(Exchange { answered: Some(t_a), .. }) = &ex {
            extend_sampling_until(&w, &rd, *t_a, &mut line);
        }
        let in_time = match &ex {
            Some(Exchange { sent, answered: Some(t_a), .. }) => alive_until_answered(&line, *sent, *t_a),
            _ => false,
        };
        if in_time {
            judged += 1;
            r.count("slow_holder/reads_with_the_holders_answer_inside_the_adapted_timeout");
            if found != Some(true) {
                let e = ex.expect("exchange");
                r.violation(
                    &format!("read/slow-holder/not-found/{kind_name}"),
                    "the only holder answered the reader within the reader's own (adapted) request timeout - read at every iteration of its loop -, yet the read did not find the value a put had returned Ok for",
                    case.clone(),
                    json!({"read": k, "completed": found.is_some(), "round_trip_ms": (e.answered.unwrap_or(0) - e.sent) / MS, "smallest_request_timeout_meanwhile_ms": line.iter().filter(|(t, _)| *t >= e.sent && *t <= e.answered.unwrap_or(0)).map(|(_, to)| to / MS).min()}),
                );
                break;
            }
        }
        // let the late answer arrive before the next read
        w.run_for(3 * SEC);
    }
    if judged > 0 {
        r.nontrivial(mix(seed, judged));
    }
    w.set_fault(None);
    drop((s, wr, rd));
    w.shutdown();
    for (thread, loc, msg) in crate::take_panics() {
        r.violation(&format!("panic/{loc}"), &format!("thread {thread} panicked: {msg}"), case.clone(), json!({}));
    }
}

fn gen_params(rng: &mut Rng, quick: bool) -> Params {
    let servers = *rng.pick(&[1usize, 2, 3, 4, 5, 6, 8, 10, 12, 16, 20]);
    let clients = *rng.pick(&[0usize, 0, 1, 2, 5, 10, if quick { 12 } else { 30 }]);
    Params { seed: rng.u64(), servers, clients, plan: rng.usize(4), simultaneous: rng.chance(1, 3), rounds: 2 + rng.usize(4), crash_mode: rng.usize(4), busy_reader: rng.chance(1, 3) }
}

pub fn run(a: &Args) -> Report {
    let mut r = Report::new("C01");
    if let Some(path) = &a.replay {
        let v: Value = serde_json::from_str(&std::fs::read_to_string(path).unwrap_or_default()).unwrap_or_default();
        let c = &v["case"];
        if c["class"] == "slow-holder" {
            slow_holder_scenario(&mut r, c["seed"].as_str().and_then(|s| s.parse().ok()).unwrap_or(1));
            return r;
        }
        if c["class"] == "late-joiner" {
            late_joiner_scenario(&mut r, c["seed"].as_str().and_then(|s| s.parse().ok()).unwrap_or(1));
            return r;
        }
        if c["class"] == "long-lived-reader" {
            long_lived_reader(&mut r, c["seed"].as_str().and_then(|s| s.parse().ok()).unwrap_or(1));
            return r;
        }
        if c["class"] == "shared-key" {
            shared_key_scenario(&mut r, c["seed"].as_str().and_then(|s| s.parse().ok()).unwrap_or(1));
            return r;
        }
        if c["class"] == "own-put-window" {
            own_put_window_scenario(&mut r, c["seed"].as_str().and_then(|s| s.parse().ok()).unwrap_or(1));
            return r;
        }
        if c["class"] == "large-network" {
            large_scenario(&mut r, c["seed"].as_str().and_then(|s| s.parse().ok()).unwrap_or(1), c["servers"].as_u64().unwrap_or(50) as usize, c["pairs"].as_u64().unwrap_or(40) as usize);
            return r;
        }
        let p = Params {
            seed: c["seed"].as_str().and_then(|s| s.parse().ok()).unwrap_or(1),
            servers: c["servers"].as_u64().unwrap_or(3) as usize,
            clients: c["clients"].as_u64().unwrap_or(0) as usize,
            plan: c["plan"].as_u64().unwrap_or(0) as usize,
            simultaneous: c["simultaneous"].as_bool().unwrap_or(false),
            rounds: c["rounds"].as_u64().unwrap_or(2) as usize,
            crash_mode: c["crash_mode"].as_u64().unwrap_or(0) as usize,
            busy_reader: c["busy_reader"].as_bool().unwrap_or(false),
        };
        scenario(&mut r, &p);
        return r;
    }
    // large networks: one 50-node world in the quick tier, 50/100/300 in the thorough tier
    let large: Vec<(usize, usize)> = if a.quick() { vec![(50, 40)] } else { vec![(50, 200), (100, 200), (300, 200), (100, 200), (50, 200), (300, 200)] };
    for (i, (servers, pairs)) in large.into_iter().enumerate() {
        if i as u64 % a.nshards.max(1) == a.shard {
            let s = mix(a.seed, 0x1a46e + i as u64);
            super::guarded(&mut r, json!({"class":"large-network","seed":s.to_string(),"servers":servers,"pairs":pairs}), |r| large_scenario(r, s, servers, pairs));
        }
    }
    // one long-lived reader in the quick tier (on a shard that has no large network), one per shard in the thorough tier
    if !a.quick() || a.shard == 1 % a.nshards.max(1) {
        let s = mix(a.seed, 0x10e6 + a.shard);
        super::guarded(&mut r, json!({"class":"long-lived-reader","seed":s.to_string()}), |r| long_lived_reader(r, s));
    }
    let n = (if a.quick() { 1600 } else { 32000 }) / a.nshards.max(1);
    let mut rng = Rng::new(mix(a.seed, 0xc01 + a.shard));
    for _ in 0..n {
        let p = gen_params(&mut rng, a.quick());
        super::guarded(&mut r, params_json(&p), |r| scenario(r, &p));
        r.count("networks");
    }
    for _ in 0..(if a.quick() { 160 } else { 3200 }) / a.nshards.max(1) {
        let s = rng.u64();
        super::guarded(&mut r, json!({"class":"late-joiner","seed":s.to_string()}), |r| late_joiner_scenario(r, s));
        r.count("late_joiner_scenarios");
    }
    for _ in 0..(if a.quick() { 320 } else { 6400 }) / a.nshards.max(1) {
        let s = rng.u64();
        super::guarded(&mut r, json!({"class":"shared-key","seed":s.to_string()}), |r| shared_key_scenario(r, s));
        r.count("shared_key_scenarios");
        let s = rng.u64();
        super::guarded(&mut r, json!({"class":"own-put-window","seed":s.to_string()}), |r| own_put_window_scenario(r, s));
        r.count("own_put_window_scenarios");
        let s = rng.u64();
        super::guarded(&mut r, json!({"class":"slow-holder","seed":s.to_string()}), |r| slow_holder_scenario(r, s));
    }
    r
}

//! C13 — joining works: bootstrap populates tables and connects the network.
use super::net::*;
use crate::report::Report;
use crate::rng::{mix, Rng};
use crate::simnet::*;
use crate::Args;
use dht::Id;
use serde_json::{json, Value};
use std::collections::{HashMap, HashSet};
use std::future::Future;
use std::net::{Ipv4Addr, SocketAddrV4};
use std::pin::Pin;

#[derive(Clone, Debug)]
pub struct Params {
    pub seed: u64,
    pub servers: usize,
    pub clients: usize,
    pub plan: usize,
    /// 0 sequential, 1 simultaneous, 2 waves, 3 late joiner (+20 min), 4 server comes up after the joiner
    pub order: usize,
    /// 0 live only, 1 live + dead addresses, 2 dead + live (dead first)
    pub boots: usize,
}

fn case_json(p: &Params) -> Value {
    json!({"class":"join","seed":p.seed.to_string(),"servers":p.servers,"clients":p.clients,"plan":p.plan,"order":p.order,"boots":p.boots})
}

fn strongly_connected(nodes: &[SocketAddrV4], edges: &HashMap<SocketAddrV4, HashSet<SocketAddrV4>>) -> Option<(SocketAddrV4, SocketAddrV4)> {
    // returns a pair (a, b) such that b is not reachable from a, if any
    for a in nodes {
        let mut seen: HashSet<SocketAddrV4> = HashSet::new();
        let mut stack = vec![*a];
        while let Some(x) = stack.pop() {
            if !seen.insert(x) {
                continue;
            }
            if let Some(out) = edges.get(&x) {
                for y in out {
                    if nodes.contains(y) && !seen.contains(y) {
                        stack.push(*y);
                    }
                }
            }
        }
        if let Some(b) = nodes.iter().find(|b| !seen.contains(*b)) {
            return Some((*a, *b));
        }
    }
    None
}

pub fn scenario(r: &mut Report, p: &Params) {
    r.eval();
    let mut rng = Rng::new(p.seed);
    let w = World::with_cfg(p.seed, NetCfg::default(), TraceLevel::Off);
    // plan 4: public addresses without hairpinning - a node's datagrams to its own address are lost, so no
    // address is ever confirmed and every node keeps its random (not BEP42-valid) id
    let plans = [IpPlan::Public, IpPlan::Private, IpPlan::Mixed, IpPlan::PublicSecure, IpPlan::Public];
    if p.plan % 5 == 4 {
        w.set_fault(Some(Box::new(|s: &SendInfo| if s.from == s.to { Some(vec![]) } else { None })));
    }
    let case = case_json(p);
    let dead1 = SocketAddrV4::new(Ipv4Addr::new(203, 0, 113, 1), 6881);
    let dead2 = SocketAddrV4::new(Ipv4Addr::new(203, 0, 113, 2), 7000);
    let total = p.servers + p.clients;
    let mut nodes: Vec<Node> = vec![];
    let mut is_server: Vec<bool> = vec![];
    let mut boot = SocketAddrV4::new(Ipv4Addr::UNSPECIFIED, 0);
    let mut pending: Vec<(usize, Pin<Box<dyn Future<Output = bool>>>)> = vec![];
    let bound = 120 * SEC;
    let mut joined_ok = 0u64;
    let mut check_join = |r: &mut Report, i: usize, res: Option<bool>, node: &Node, w: &World| {
        match res {
            None => r.violation("join/bootstrapped-did-not-return", "bootstrapped() did not return within 120 virtual seconds", case.clone(), json!({"node": i, "addr": node.addr.to_string()})),
            Some(false) => r.violation("join/not-bootstrapped-with-live-server", "bootstrapped() = false although a live server was in the bootstrap list", case.clone(), json!({"node": i, "addr": node.addr.to_string()})),
            Some(true) => {
                let size = w.block_on(node.adht.info(), 5 * SEC).map(|i| i.routing_table_size()).unwrap_or(0);
                if size == 0 {
                    r.violation("join/bootstrapped-true-but-empty-table", "bootstrapped() = true but the routing table is empty", case.clone(), json!({"node": i}));
                } else {
                    joined_ok += 1;
                }
            }
        }
    };
    for i in 0..total {
        let (ip, public_ip) = plan_ip(plans[p.plan % 5], i, &mut rng);
        let server = i < p.servers;
        let bs: Vec<SocketAddrV4> = if i == 0 {
            vec![]
        } else {
            match p.boots {
                1 => vec![boot, dead1, dead2],
                2 => vec![dead1, boot],
                _ => vec![boot],
            }
        };
        let mut spec = if server { NodeSpec::server(ip, &bs) } else { NodeSpec::client(ip, &bs) };
        spec.public_ip = public_ip;
        if p.boots == 3 && i > 0 {
            // entries that do not resolve, listed before the live address
            spec.bootstrap_names = vec!["no-such-router.invalid:6881".to_string(), "not an address".to_string()];
        }
        if p.order == 3 && i == total - 1 && i > 0 {
            // late joiner: 20 virtual minutes after the others
            w.run_for(20 * MIN);
        }
        let n = w.spawn(spec).expect("spawn");
        if i == 0 {
            boot = n.addr;
        }
        let a = n.adht.clone();
        if i > 0 {
            match p.order {
                1 => pending.push((i, Box::pin(async move { a.bootstrapped().await }))),
                2 => {
                    pending.push((i, Box::pin(async move { a.bootstrapped().await })));
                    if pending.len() >= 4 {
                        let (idx, futs): (Vec<usize>, Vec<_>) = pending.drain(..).unzip();
                        let res = join_all(&w, futs, bound);
                        nodes.push(n);
                        is_server.push(server);
                        for (k, res) in idx.into_iter().zip(res) {
                            check_join(r, k, res, &nodes[k], &w);
                        }
                        continue;
                    }
                }
                _ => {
                    let res = w.block_on(async move { a.bootstrapped().await }, bound);
                    check_join(r, i, res, &n, &w);
                }
            }
        }
        nodes.push(n);
        is_server.push(server);
    }
    if !pending.is_empty() {
        let (idx, futs): (Vec<usize>, Vec<_>) = pending.drain(..).unzip();
        let res = join_all(&w, futs, bound);
        for (k, res) in idx.into_iter().zip(res) {
            check_join(r, k, res, &nodes[k], &w);
        }
    }
    r.add("joins_ok", joined_ok);
    // let in-flight maintenance settle
    w.run_for(5 * SEC);
    // (b) the first node learnt every server that bootstrapped through it
    // adaptive-mode nodes on a reachable address turn into servers after their first refresh:
    // ask every node what it is now
    for (i, n) in nodes.iter().enumerate() {
        if let Some(info) = w.block_on(n.adht.info(), 5 * SEC) {
            is_server[i] = info.server_mode();
        }
    }
    let servers: Vec<SocketAddrV4> = nodes.iter().zip(&is_server).filter(|(_, s)| **s).map(|(n, _)| n.addr).collect();
    // (bucket capacity - 20 per distance - cannot bind with at most 20 other servers)
    if p.servers >= 2 && servers.len() <= 21 {
        let known0: HashSet<String> = w.block_on(nodes[0].adht.to_bootstrap(), 5 * SEC).unwrap_or_default().into_iter().collect();
        let missing: Vec<String> = nodes.iter().take(p.servers).skip(1).map(|n| n.addr.to_string()).filter(|a| !known0.contains(a)).collect();
        if !missing.is_empty() {
            r.violation("first-node/did-not-learn-joiner", "the first node (no bootstrap list) does not know a server that bootstrapped from it", case.clone(), json!({"missing": missing, "known": known0.len()}));
        }
    }
    // (c) knows-graph among live servers is strongly connected
    let mut edges: HashMap<SocketAddrV4, HashSet<SocketAddrV4>> = HashMap::new();
    for (n, s) in nodes.iter().zip(&is_server) {
        if !*s {
            continue;
        }
        let out: HashSet<SocketAddrV4> = w.block_on(n.adht.to_bootstrap(), 5 * SEC).unwrap_or_default().iter().filter_map(|a| a.parse().ok()).collect();
        edges.insert(n.addr, out);
    }
    if let Some((a, b)) = strongly_connected(&servers, &edges) {
        r.violation("graph/not-strongly-connected", "the knows-graph of the live servers is not strongly connected after all joins", case.clone(), json!({"from": a.to_string(), "unreachable": b.to_string()}));
    }
    r.count("graphs_checked");
    // (d) up to 20 servers: a lookup from any node sends a request to every other server
    if servers.len() <= 20 {
        let k = nodes.len().min(4);
        for _ in 0..k {
            let oi = rng.usize(nodes.len());
            let origin = &nodes[oi];
            let mut target: [u8; 20] = rng.array();
            // every other lookup asks for the id of a joined server itself (a server is discoverable by its id)
            if rng.bool() && nodes.len() >= 2 {
                let ti = (oi + 1 + rng.usize(nodes.len() - 1)) % nodes.len();
                if let Some(info) = w.block_on(nodes[ti].adht.info(), 5 * SEC) {
                    if info.server_mode() {
                        target = *info.id().as_bytes();
                        r.count("every_server_lookups_for_the_id_of_a_server");
                    }
                }
            }
            w.set_trace(TraceLevel::Full);
            w.clear_trace();
            let a = origin.adht.clone();
            let done = w.block_on(async move { a.get_closest_nodes(Id::from(target)).await }, bound);
            let trace = w.trace_from(0);
            w.set_trace(TraceLevel::Off);
            w.clear_trace();
            if done.is_none() {
                r.violation("lookup/did-not-complete", "lookup did not complete", case.clone(), json!({"origin": origin.addr.to_string()}));
                continue;
            }
            let (sends, _) = sends_and_delivers(&trace);
            let asked: HashSet<SocketAddrV4> = sends.iter().filter(|m| m.from == origin.addr && m.k.is_query("get") && m.k.target() == Some(target)).map(|m| m.to).collect();
            let missed: Vec<String> = servers.iter().filter(|s| **s != origin.addr && !asked.contains(s)).map(|s| s.to_string()).collect();
            if !missed.is_empty() && std::env::var("MLV_DEBUG").is_ok() {
                eprintln!("origin {} asked {:?}", origin.addr, asked);
                for m in sends.iter().filter(|m| m.to == origin.addr && m.k.y == b'r') {
                    eprintln!("  answer from {} lists {:?}", m.from, m.k.nodes().iter().map(|n| n.1.to_string()).collect::<Vec<_>>());
                }
                if let Some(s) = snapshot(&w, origin) {
                    eprintln!("  origin table {:?}", s.table.nodes.iter().map(|n| n.1.to_string()).collect::<Vec<_>>());
                }
                if let Some(s) = snapshot(&w, &nodes[0]) {
                    eprintln!("  node0 table {:?}", s.table.nodes.iter().map(|n| (n.1.to_string(), crate::bencode::hex(&n.0.as_bytes()[..3]))).collect::<Vec<_>>());
                }
            }
            // cause analysis: entries for one address under two ids (a peer re-keyed to a BEP42 id after
            // confirming its address; stale ids still circulate) occupy several of the 20 candidate slots
            let mut ids_per_addr: HashMap<SocketAddrV4, HashSet<[u8; 20]>> = HashMap::new();
            for m in sends.iter().filter(|m| m.to == origin.addr && m.k.y == b'r') {
                for (id, addr) in m.k.nodes() {
                    ids_per_addr.entry(addr).or_default().insert(id);
                }
                if let Some(id) = m.k.id() {
                    ids_per_addr.entry(m.from).or_default().insert(id);
                }
            }
            let stale_dups = ids_per_addr.values().filter(|v| v.len() > 1).count();
            if !missed.is_empty() && stale_dups > 0 {
                r.violation("lookup/server-not-queried/stale-id-duplicates", "with at most 20 servers a lookup did not query every server: candidates listed one address under two ids (stale pre-re-key id), filling the 20 slots", case.clone(), json!({"origin": origin.addr.to_string(), "missed": missed, "asked": asked.len(), "addresses_with_two_ids": stale_dups}));
            } else if !missed.is_empty() {
                r.violation("lookup/server-not-queried", "with at most 20 servers a lookup did not query every server", case.clone(), json!({"origin": origin.addr.to_string(), "origin_index": oi, "missed": missed, "asked": asked.len()}));
            }
            r.count("every_server_lookups");
        }
    }
    if p.servers >= 3 || p.boots > 0 || p.order == 1 || p.order == 2 {
        r.nontrivial(mix(p.seed, w.order_hash()));
    }
    if r.want_sample() {
        r.sample(json!({"params": case, "joins_ok": joined_ok, "servers": servers.len(), "delivery_order_hash": format!("{:016x}", w.order_hash())}));
    }
    if w.stuck() {
        r.inconclusive("scheduler watchdog fired");
    }
    drop(nodes);
    w.shutdown();
    for (thread, loc, msg) in crate::take_panics() {
        r.violation(&format!("panic/{loc}"), &format!("thread {thread} panicked: {msg}"), case.clone(), json!({}));
    }
}

/// Bootstrap lists without any live server; and servers that come up after the joiner.
pub fn dead_and_late(r: &mut Report, seed: u64, mode: usize) {
    r.eval();
    let mut rng = Rng::new(seed);
    let w = World::with_cfg(seed, NetCfg::default(), TraceLevel::Off);
    let case = json!({"class":"dead-or-late","seed":seed.to_string(),"mode":mode});
    let a1 = SocketAddrV4::new(Ipv4Addr::new(198, 51, 100, 1), 6881);
    let a2 = SocketAddrV4::new(Ipv4Addr::new(198, 51, 100, 2), 6881);
    let joiner_server = rng.bool();
    let bs = if mode == 0 { vec![a1, a2] } else { vec![a1] };
    let spec = if joiner_server { NodeSpec::server(Ipv4Addr::new(30, 0, 0, 5), &bs) } else { NodeSpec::client(Ipv4Addr::new(30, 0, 0, 5), &bs) };
    let j = w.spawn(spec).expect("joiner");
    if mode == 0 {
        // only dead addresses: must report not bootstrapped, within the bound
        match w.block_on(j.adht.bootstrapped(), 120 * SEC) {
            None => r.violation("dead-list/bootstrapped-hangs", "bootstrapped() did not return with an unreachable bootstrap list", case.clone(), json!({})),
            Some(true) => r.violation("dead-list/bootstrapped-true", "bootstrapped() = true with an unreachable bootstrap list", case.clone(), json!({})),
            Some(false) => r.count("dead_list_reported_false"),
        }
    } else {
        // the server at the bootstrap address only comes up later
        let delay = *rng.pick(&[SEC, 3 * SEC, 10 * SEC, 40 * SEC, 3 * MIN]);
        if rng.bool() {
            // a first bootstrapped() call during the outage must return false, not hang
            match w.block_on(j.adht.bootstrapped(), 120 * SEC) {
                None => r.violation("late-server/bootstrapped-hangs", "bootstrapped() did not return while the server was down", case.clone(), json!({})),
                Some(_) => {}
            }
        }
        w.run_for(delay);
        let s = w.spawn(NodeSpec::server(*a1.ip(), &[])).expect("late server");
        w.run_for(10 * SEC);
        match w.block_on(j.adht.bootstrapped(), 120 * SEC) {
            None => r.violation("late-server/bootstrapped-hangs", "bootstrapped() did not return", case.clone(), json!({"delay_ns": delay})),
            Some(false) => r.violation("late-server/never-joins", "the bootstrap server has been live for 10 s but the node still reports not bootstrapped", case.clone(), json!({"delay_ns": delay, "joiner_server": joiner_server})),
            Some(true) => r.count("late_server_joined"),
        }
        if joiner_server {
            // the first node learns the joiner
            let known: Vec<String> = w.block_on(s.adht.to_bootstrap(), 5 * SEC).unwrap_or_default();
            if !known.contains(&j.addr.to_string()) {
                r.violation("first-node/did-not-learn-joiner", "the late first node does not know the server that bootstrapped from it", case.clone(), json!({"delay_ns": delay}));
            }
        }
        drop(s);
    }
    r.nontrivial(mix(seed, mode as u64));
    drop(j);
    w.shutdown();
    for (thread, loc, msg) in crate::take_panics() {
        r.violation(&format!("panic/{loc}"), &format!("thread {thread} panicked: {msg}"), case.clone(), json!({}));
    }
}

/// Servers that start after the joiner: server X is given three bootstrap addresses where nothing listens
/// yet; another server Z joins through X meanwhile, so X's tables are not empty; then two of X's bootstrap
/// addresses come alive (a first node B and a server C that joins through B; the third stays dead). X's
/// next bootstrap - its list now has live servers - must connect the two groups: B learns X, and the
/// knows-graph of {X, Z, B, C} is strongly connected.
pub fn islands(r: &mut Report, seed: u64) {
    r.eval();
    let mut rng = Rng::new(seed);
    let w = World::with_cfg(seed, NetCfg::default(), TraceLevel::Off);
    let case = json!({"class":"islands","seed":seed.to_string()});
    let b_addr = SocketAddrV4::new(Ipv4Addr::new(10, 51, 100, 1), 6881);
    let c_addr = SocketAddrV4::new(Ipv4Addr::new(10, 51, 100, 2), 6881);
    let d_addr = SocketAddrV4::new(Ipv4Addr::new(10, 51, 100, 3), 6881);
    let mut list = vec![b_addr, c_addr, d_addr];
    rng.shuffle(&mut list);
    let x = w.spawn(NodeSpec::server(Ipv4Addr::new(10, 51, 0, 5), &list)).expect("x");
    w.run_for(rng.range(1, 20) * SEC);
    let z = w.spawn(NodeSpec::server(Ipv4Addr::new(10, 51, 0, 6), &[x.addr])).expect("z");
    w.block_on(z.adht.bootstrapped(), 120 * SEC);
    w.run_for(*rng.pick(&[5 * SEC, 40 * SEC, 3 * MIN, 8 * MIN]));
    let mut bspec = NodeSpec::server(*b_addr.ip(), &[]);
    bspec.port = Some(6881);
    let b = w.spawn(bspec).expect("b");
    let mut cspec = NodeSpec::server(*c_addr.ip(), &[b_addr]);
    cspec.port = Some(6881);
    let c = w.spawn(cspec).expect("c");
    w.block_on(c.adht.bootstrapped(), 120 * SEC);
    w.run_for(5 * SEC);
    // X bootstraps again: explicitly, or by its own 15-minute refresh
    let explicit = rng.bool();
    if explicit {
        match w.block_on(x.adht.bootstrapped(), 120 * SEC) {
            None => r.violation("islands/bootstrapped-hangs", "bootstrapped() did not return", case.clone(), json!({})),
            Some(false) => r.violation("islands/not-bootstrapped", "bootstrapped() = false next to live bootstrap servers", case.clone(), json!({})),
            Some(true) => {}
        }
        w.run_for(10 * SEC);
    } else {
        w.run_for(17 * MIN);
    }
    let nodes = [&x, &z, &b, &c];
    let addrs: Vec<SocketAddrV4> = nodes.iter().map(|n| n.addr).collect();
    let mut edges: HashMap<SocketAddrV4, HashSet<SocketAddrV4>> = HashMap::new();
    for n in nodes.iter() {
        let known: HashSet<SocketAddrV4> = w.block_on(n.adht.to_bootstrap(), 5 * SEC).unwrap_or_default().iter().filter_map(|a| a.parse().ok()).collect();
        edges.insert(n.addr, known);
    }
    r.count("island_scenarios");
    r.nontrivial(mix(seed, explicit as u64));
    let detail = json!({"explicit_bootstrapped_call": explicit, "x_knows": edges[&x.addr].iter().map(|a| a.to_string()).collect::<Vec<_>>(), "b_knows": edges[&b.addr].iter().map(|a| a.to_string()).collect::<Vec<_>>()});
    if !edges[&b.addr].contains(&x.addr) {
        r.violation("first-node/did-not-learn-joiner/servers-started-after-the-joiner", "a first node listed in a server's bootstrap list came up later; after that server bootstrapped again the first node still does not know it", case.clone(), detail.clone());
    }
    if let Some((from, to)) = strongly_connected(&addrs, &edges) {
        r.violation("graph/not-strongly-connected/servers-started-after-the-joiner", "two groups of servers (one formed while the bootstrap servers were down) never merged although the bootstrap servers are live", case.clone(), json!({"from": from.to_string(), "unreachable": to.to_string(), "detail": detail}));
    }
    drop(x);
    drop(z);
    drop(b);
    drop(c);
    w.shutdown();
    for (thread, loc, msg) in crate::take_panics() {
        r.violation(&format!("panic/{loc}"), &format!("thread {thread} panicked: {msg}"), case.clone(), json!({}));
    }
}

/// A slow peer in the bootstrap list: next to a quick live server the node is given a peer whose first answer
/// takes seconds (long after the request timed out) and whose later answers take 550..900 ms - slower than the
/// 500 ms floor of the request timeout, quicker than the estimate the first answer produced. Joining must keep
/// working: every bootstrapped() call returns true and the node stays alive.
pub fn slow_peer(r: &mut Report, seed: u64) {
    use crate::bencode::B;
    use crate::krpc::*;
    r.eval();
    let mut rng = Rng::new(seed);
    let w = World::with_cfg(seed, NetCfg { lat_min: MS, lat_max: 40 * MS, random_ties: true }, TraceLevel::Off);
    let case = json!({"class":"slow-peer","seed":seed.to_string()});
    let s = w.spawn(NodeSpec::server(Ipv4Addr::new(10, 52, 0, 1), &[])).expect("server");
    let p_addr = SocketAddrV4::new(Ipv4Addr::new(10, 52, 0, 2), 6881);
    let p = w.raw(p_addr);
    let p_id: [u8; 20] = rng.array();
    let first_delay = (2 + rng.below(8)) * SEC;
    let later = (550 + rng.below(350)) * MS;
    let answered = std::rc::Rc::new(std::cell::Cell::new(0u32));
    {
        let a2 = answered.clone();
        let s_addr = s.addr;
        w.set_responder(Some(Box::new(move |w, sock, d| {
            if sock != p {
                return false;
            }
            let Some(q) = Krpc::parse(&d.bytes) else { return true };
            if q.y != b'q' {
                return true;
            }
            let mut rd = vec![("id", B::bytes(&p_id))];
            if q.target().is_some() {
                rd.push(("nodes", B::Bytes(nodes_bytes(&[([0x11; 20], s_addr)]))));
            }
            let k = a2.get();
            a2.set(k + 1);
            let delay = if k == 0 { first_delay } else { later };
            w.raw_send_delayed(sock, &response(&q.t, B::dict(rd), Some(&d.from), Some(&VERSION_RS6)).encode(), d.from, delay);
            true
        })));
    }
    let spec = if rng.bool() { NodeSpec::server(Ipv4Addr::new(10, 52, 0, 5), &[s.addr, p_addr]) } else { NodeSpec::client(Ipv4Addr::new(10, 52, 0, 5), &[s.addr, p_addr]) };
    let x = w.spawn(spec).expect("x");
    let mut results = vec![];
    for k in 0..5 {
        let res = w.block_on(x.adht.bootstrapped(), 120 * SEC);
        results.push(res);
        if res != Some(true) {
            break;
        }
        // lookups that contact the slow peer again
        let a = x.adht.clone();
        let t = Id::from(rng.array::<20>());
        w.block_on(async move { drop(a.find_node(t).await) }, 60 * SEC);
        w.run_for(if k == 0 { first_delay + SEC } else { 2 * SEC });
    }
    let alive = w.block_on(x.adht.info(), 5 * SEC).is_some();
    r.count("slow_peer_scenarios");
    r.add("slow_peer/answers_of_the_slow_peer", answered.get() as u64);
    if answered.get() >= 2 {
        r.nontrivial(mix(seed, later));
    }
    if results.iter().any(|x| *x != Some(true)) || !alive {
        r.violation("join/slow-peer/not-bootstrapped-or-dead", "next to a quick live server the node was given a slow peer (first answer after seconds, later ones after 550..900 ms): bootstrapped() stopped returning true or the node died", case.clone(), json!({"bootstrapped_results": format!("{results:?}"), "node_answers_info": alive, "first_delay_ms": first_delay / MS, "later_delay_ms": later / MS}));
    }
    drop(x);
    drop(s);
    w.shutdown();
    for (thread, loc, msg) in crate::take_panics() {
        r.violation(&format!("panic/{loc}"), &format!("thread {thread} panicked: {msg}"), case.clone(), json!({}));
    }
}

/// "This host" as a bootstrap address: a first node listens on port P of the host; a second node on the same
/// host is given `0.0.0.0:P` (which Linux delivers to the local socket on that port; the answer then comes
/// from 127.0.0.1:P), `127.0.0.1:P`, or the host's own address, possibly next to dead entries. It is a live
/// server's address in every spelling, so the node must join, and the first node must learn it.
pub fn this_host(r: &mut Report, seed: u64) {
    r.eval();
    let mut rng = Rng::new(seed);
    let w = World::with_cfg(seed, NetCfg { lat_min: MS, lat_max: 20 * MS, random_ties: true }, TraceLevel::Off);
    w.set_local_delivery(true);
    let host = Ipv4Addr::new(10, 53, 0, 1 + rng.usize(200) as u8);
    let port = *rng.pick(&[6881u16, 1024, 40000, 65535]);
    let mut spec = NodeSpec::server(host, &[]);
    spec.port = Some(port);
    let s = w.spawn(spec).expect("first node");
    let spelling = rng.usize(3);
    let name = ["unspecified", "loopback", "own-address"][spelling];
    let entry = SocketAddrV4::new([Ipv4Addr::UNSPECIFIED, Ipv4Addr::LOCALHOST, host][spelling], port);
    let mut boots = vec![entry];
    for i in 0..rng.usize(3) {
        boots.insert(rng.usize(boots.len() + 1), SocketAddrV4::new(Ipv4Addr::new(10, 53, 1, 1 + i as u8), 6881));
    }
    let case = json!({"class":"this-host","seed":seed.to_string(),"spelling":name});
    let server_mode = rng.bool();
    let mut spec = if server_mode { NodeSpec::server(host, &boots) } else { NodeSpec::client(host, &boots) };
    spec.port = Some(if port == 7000 { 7001 } else { 7000 });
    w.run_for(rng.below(3 * SEC));
    let x = w.spawn(spec).expect("x");
    let res = w.block_on(x.adht.bootstrapped(), 120 * SEC);
    let table = w.block_on(x.adht.to_bootstrap(), 5 * SEC).unwrap_or_default();
    r.count("this_host_scenarios");
    r.count(&format!("this_host/{name}"));
    r.nontrivial(mix(seed, spelling as u64));
    if res != Some(true) || table.is_empty() {
        r.violation(
            &format!("join/this-host/{name}/not-bootstrapped"),
            "a live server listens on this host; the node was given its address (as 0.0.0.0:port, 127.0.0.1:port or the host's own address) and did not end its bootstrap with bootstrapped() = true and a non-empty table",
            case.clone(),
            json!({"bootstrap": boots.iter().map(|b| b.to_string()).collect::<Vec<_>>(), "bootstrapped": format!("{res:?}"), "table": table, "server_mode": server_mode}),
        );
    } else if server_mode {
        // the first node learns the joiner (under the loopback address it saw, or the host's own)
        w.run_for(5 * SEC);
        let st = w.block_on(s.adht.to_bootstrap(), 5 * SEC).unwrap_or_default();
        r.count("this_host/first_node_checked_for_the_joiner");
        if st.is_empty() {
            r.violation(&format!("join/this-host/{name}/first-node-did-not-learn-joiner"), "the first node's table is empty after a server-mode node on the same host bootstrapped from it", case.clone(), json!({"bootstrap": boots.iter().map(|b| b.to_string()).collect::<Vec<_>>()}));
        }
    }
    drop(x);
    drop(s);
    w.shutdown();
    for (thread, loc, msg) in crate::take_panics() {
        r.violation(&format!("panic/{loc}"), &format!("thread {thread} panicked: {msg}"), case.clone(), json!({}));
    }
}

pub fn run(a: &Args) -> Report {
    let mut r = Report::new("C13");
    if let Some(path) = &a.replay {
        let v: Value = serde_json::from_str(&std::fs::read_to_string(path).unwrap_or_default()).unwrap_or_default();
        let c = &v["case"];
        let seed = c["seed"].as_str().and_then(|s| s.parse().ok()).unwrap_or(1);
        if c["class"] == "slow-peer" {
            slow_peer(&mut r, seed);
        } else if c["class"] == "this-host" {
            this_host(&mut r, seed);
        } else if c["class"] == "islands" {
            islands(&mut r, seed);
        } else if c["class"] == "dead-or-late" {
            dead_and_late(&mut r, seed, c["mode"].as_u64().unwrap_or(0) as usize);
        } else {
            let g = |k: &str| c[k].as_u64().unwrap_or(0) as usize;
            scenario(&mut r, &Params { seed, servers: g("servers"), clients: g("clients"), plan: g("plan"), order: g("order"), boots: g("boots") });
        }
        return r;
    }
    let n = (if a.quick() { 640 } else { 12_800 }) / a.nshards.max(1);
    let mut rng = Rng::new(mix(a.seed, 0xc13 + a.shard));
    for i in 0..n {
        if i % 5 == 4 {
            let (s, m) = (rng.u64(), (i / 5 % 2) as usize);
            super::guarded(&mut r, json!({"class":"dead-or-late","seed":s.to_string(),"mode":m}), |r| dead_and_late(r, s, m));
            r.count("dead_or_late_scenarios");
            let s = rng.u64();
            super::guarded(&mut r, json!({"class":"islands","seed":s.to_string()}), |r| islands(r, s));
            let s = rng.u64();
            super::guarded(&mut r, json!({"class":"slow-peer","seed":s.to_string()}), |r| slow_peer(r, s));
            let s = rng.u64();
            super::guarded(&mut r, json!({"class":"this-host","seed":s.to_string()}), |r| this_host(r, s));
            continue;
        }
        let servers = *rng.pick(&[1usize, 2, 3, 4, 5, 7, 10, 14, 19, 20, 20]);
        let p = Params { seed: rng.u64(), servers, clients: *rng.pick(&[0usize, 0, 1, 3, 6]), plan: rng.usize(5), order: rng.usize(4), boots: rng.usize(4) };
        super::guarded(&mut r, case_json(&p), |r| scenario(r, &p));
        r.count("join_scenarios");
        r.count(["join_plan/public-rekeying", "join_plan/private", "join_plan/mixed", "join_plan/public-secure-from-start", "join_plan/public-no-hairpin"][p.plan % 5]);
    }
    // larger networks: connectivity verdict only
    if !a.quick() || a.shard == 0 {
        let sizes: Vec<usize> = if a.quick() { vec![100] } else { vec![50, 100, 300] };
        for s in sizes {
            if a.quick() || (s as u64 / 50) % a.nshards.max(1) == a.shard % 4 || a.nshards == 1 {
                scenario(&mut r, &Params { seed: rng.u64(), servers: s, clients: 0, plan: rng.usize(5), order: rng.usize(2), boots: 0 });
                r.count("large_networks");
            }
        }
    }
    r
}

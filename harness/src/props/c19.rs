//! C19 — node-id arithmetic: XOR metric, hex parsing, BEP42 secure ids.
//! Oracle: independent bit arithmetic + bitwise CRC32C; parser totality under catch_unwind.
use crate::crc32c::*;
use crate::report::Report;
use crate::rng::{fnv, Rng};
use crate::Args;
use dht::Id;
use serde_json::json;
use std::net::Ipv4Addr;
use std::panic::{catch_unwind, AssertUnwindSafe};
use std::str::FromStr;

fn common_prefix_bits(a: &[u8; 20], b: &[u8; 20]) -> u32 {
    let mut n = 0;
    for i in 0..160 {
        let ba = (a[i / 8] >> (7 - i % 8)) & 1;
        let bb = (b[i / 8] >> (7 - i % 8)) & 1;
        if ba != bb {
            break;
        }
        n += 1;
    }
    n
}

fn xor_cmp(a: &[u8; 20], b: &[u8; 20], t: &[u8; 20]) -> std::cmp::Ordering {
    for i in 0..20 {
        let x = a[i] ^ t[i];
        let y = b[i] ^ t[i];
        if x != y {
            return x.cmp(&y);
        }
    }
    std::cmp::Ordering::Equal
}

pub fn metric(r: &mut Report, rng: &mut Rng, per_class: usize) {
    for class in 0..=160usize {
        for _ in 0..per_class {
            r.eval();
            let a: [u8; 20] = rng.array();
            // b agrees with a on the first `class` bits and differs at bit `class` (class=160: equal)
            let mut b: [u8; 20] = rng.array();
            for i in 0..160 {
                let bit = (a[i / 8] >> (7 - i % 8)) & 1;
                let want = if i < class { bit } else if i == class { bit ^ 1 } else { continue };
                b[i / 8] = (b[i / 8] & !(1 << (7 - i % 8))) | (want << (7 - i % 8));
            }
            let (ia, ib) = (Id::from(a), Id::from(b));
            let d = match catch_unwind(AssertUnwindSafe(|| ia.distance(&ib) as u32)) {
                Ok(d) => d,
                Err(_) => {
                    let _ = crate::take_panics();
                    r.violation("metric/panic", "Id::distance panicked", json!({"class":"metric","a":crate::bencode::hex(&a),"b":crate::bencode::hex(&b),"first_differing_bit":class}), json!({}));
                    continue;
                }
            };
            let want = 160 - common_prefix_bits(&a, &b);
            let case = json!({"class":"metric","a":crate::bencode::hex(&a),"b":crate::bencode::hex(&b)});
            if d != want {
                r.violation("metric/distance-ne-160-minus-prefix", &format!("distance={d} expected {want}"), case.clone(), json!({}));
            }
            if ib.distance(&ia) as u32 != d {
                r.violation("metric/asymmetric", "distance(a,b) != distance(b,a)", case.clone(), json!({}));
            }
            if (d == 0) != (a == b) {
                r.violation("metric/zero-iff-equal", "distance zero for different ids or non-zero for equal", case.clone(), json!({}));
            }
            // XOR-order consistency with a third id
            let t: [u8; 20] = if rng.bool() { rng.array() } else { let mut t = a; t[rng.usize(20)] ^= 1 << rng.usize(8); t };
            let it = Id::from(t);
            let (da, db) = match catch_unwind(AssertUnwindSafe(|| (ia.distance(&it), ib.distance(&it)))) {
                Ok(x) => x,
                Err(_) => {
                    let _ = crate::take_panics();
                    r.violation("metric/panic", "Id::distance panicked", json!({"class":"metric","a":crate::bencode::hex(&a),"t":crate::bencode::hex(&t)}), json!({}));
                    continue;
                }
            };
            if da < db && xor_cmp(&a, &b, &t) != std::cmp::Ordering::Less {
                r.violation("metric/xor-order", "distance(a,t)<distance(b,t) but a^t >= b^t", json!({"class":"metric","a":crate::bencode::hex(&a),"b":crate::bencode::hex(&b),"t":crate::bencode::hex(&t)}), json!({}));
            }
            // the crate's xor must agree with byte-wise xor
            let x = ia.xor(&ib);
            for i in 0..20 {
                if x.as_bytes()[i] != a[i] ^ b[i] {
                    r.violation("metric/xor-bytes", "Id::xor differs from byte-wise xor", case.clone(), json!({}));
                    break;
                }
            }
            r.nontrivial(crate::rng::mix(class as u64, fnv(&a) ^ fnv(&b)));
            r.count("metric_pairs");
            if r.want_sample() && class % 53 == 7 {
                r.sample(json!({"kind":"metric","first_differing_bit":class,"a":crate::bencode::hex(&a),"b":crate::bencode::hex(&b),"distance":d}));
            }
        }
    }
}

pub fn check_str(r: &mut Report, s: &str) {
    r.eval();
    let res = catch_unwind(AssertUnwindSafe(|| Id::from_str(s)));
    let want_ok = s.len() == 40 && s.bytes().all(|c| c.is_ascii_hexdigit());
    let case = json!({"class":"from_str","input": s, "input_hex": crate::bencode::hex(s.as_bytes())});
    match res {
        Err(_) => {
            let _ = crate::take_panics();
            let kind = if s.is_ascii() { "ascii" } else { "non-ascii" };
            r.violation(&format!("from_str/panic/{kind}"), "Id::from_str panicked", case, json!({}));
            r.count("parser_panics");
        }
        Ok(Ok(id)) => {
            if !want_ok {
                let kind = if s.bytes().any(|c| c == b'+' || c == b'-') { "sign" } else { "other" };
                r.violation(&format!("from_str/accepts-non-hex/{kind}"), "Id::from_str accepted a string that is not 40 hex digits", case, json!({"parsed": id.to_string()}));
            } else if id.to_string() != s.to_ascii_lowercase() {
                r.violation("from_str/display-roundtrip", "Display(from_str(s)) != lowercase(s)", case, json!({"parsed": id.to_string()}));
            }
            r.count("parser_ok");
        }
        Ok(Err(_)) => {
            if want_ok {
                r.violation("from_str/rejects-valid", "Id::from_str rejected 40 hex digits", case, json!({}));
            }
            r.count("parser_err");
        }
    }
    r.nontrivial(fnv(s.as_bytes()));
}

fn parser(r: &mut Report, rng: &mut Rng, random_n: usize) {
    let hexl = "0123456789abcdef";
    let hexu = "0123456789ABCDEF";
    let specials: Vec<&str> = vec!["+", "-", " ", "\t", "\n", "\0", "g", "G", "x", "z", ":", "/", "@", "`", "é", "ß", "€", "あ", "😀", "𝔸", "\u{7f}", "\u{80}", "\u{ff}"];
    // all lengths 0..=45 of pure hex (lower, upper, mixed)
    for len in 0..=45usize {
        for variant in 0..3 {
            let s: String = (0..len)
                .map(|i| {
                    let c = rng.usize(16);
                    let src = match variant { 0 => hexl, 1 => hexu, _ => if i % 2 == 0 { hexl } else { hexu } };
                    src.as_bytes()[c] as char
                })
                .collect();
            check_str(r, &s);
        }
    }
    // a special character at every offset of an otherwise valid 40-digit string,
    // replacing 1, 2, 3 or 4 hex digits so that byte lengths 37..44 incl. exactly 40 occur
    for sp in &specials {
        for off in 0..=40usize {
            for replaced in 0..=4usize {
                if off + replaced > 40 {
                    continue;
                }
                let mut s = String::new();
                for _ in 0..off {
                    s.push(hexl.as_bytes()[rng.usize(16)] as char);
                }
                s.push_str(sp);
                for _ in off + replaced..40 {
                    s.push(hexl.as_bytes()[rng.usize(16)] as char);
                }
                check_str(r, &s);
            }
        }
    }
    // every code point U+0000..U+00FF (all of ASCII incl. the control characters, and Latin-1), and digit
    // look-alikes from other scripts, at every position of an otherwise valid id; for multi-byte characters
    // also with as many digits removed as keeps the byte length at 40
    let lookalikes = ['\u{ff10}', '\u{ff19}', '\u{ff21}', '\u{ff41}', '\u{0660}', '\u{0669}', '\u{06f0}', '\u{0966}', '\u{1d7ce}', '\u{2170}', '\u{00b2}', '\u{2460}'];
    let sweep: Vec<char> = (0u32..=0xff).filter_map(char::from_u32).chain(lookalikes).collect();
    for pos in 0..40usize {
        for &ch in &sweep {
            let base: Vec<char> = (0..40).map(|_| hexl.as_bytes()[rng.usize(16)] as char).collect();
            let mut one = base.clone();
            one[pos] = ch;
            check_str(r, &one.iter().collect::<String>());
            if ch.len_utf8() > 1 && pos + ch.len_utf8() <= 40 {
                let mut same_len: Vec<char> = base[..pos].to_vec();
                same_len.push(ch);
                same_len.extend_from_slice(&base[pos + ch.len_utf8()..]);
                check_str(r, &same_len.iter().collect::<String>());
            }
            r.count("parser_single_character_sweep");
        }
    }
    // strings made only of specials with total byte length 40
    for sp in &specials {
        let n = 40 / sp.len();
        if n * sp.len() == 40 {
            check_str(r, &sp.repeat(n));
        }
        let mixed: String = std::iter::repeat(format!("{sp}f")).take(40).collect::<String>();
        let cut: String = mixed.chars().scan(0usize, |acc, c| { *acc += c.len_utf8(); if *acc <= 40 { Some(c) } else { None } }).collect();
        check_str(r, &cut);
    }
    // random strings over a mixed alphabet
    let alphabet: Vec<&str> = specials.iter().copied().chain(["0", "1", "9", "a", "f", "A", "F", "c", "7", "e"]).collect();
    for _ in 0..random_n {
        let target_len = *rng.pick(&[38usize, 39, 40, 40, 40, 41, 42, 20, 80]);
        let mut s = String::new();
        while s.len() < target_len {
            if rng.chance(3, 4) {
                s.push(hexl.as_bytes()[rng.usize(16)] as char);
            } else {
                let pick: &str = alphabet[rng.usize(alphabet.len())];
                s.push_str(pick);
            }
        }
        check_str(r, &s);
    }
    // from_bytes: Ok iff 20 bytes
    for len in 0..=64usize {
        r.eval();
        let b = rng.bytes(len);
        let res = catch_unwind(AssertUnwindSafe(|| Id::from_bytes(&b)));
        match res {
            Err(_) => r.violation("from_bytes/panic", "Id::from_bytes panicked", json!({"class":"from_bytes","len":len}), json!({})),
            Ok(x) => {
                if x.is_ok() != (len == 20) {
                    r.violation("from_bytes/len", "Id::from_bytes Ok for len != 20 or Err for 20", json!({"class":"from_bytes","len":len}), json!({}));
                } else if let Ok(id) = x {
                    if id.as_bytes()[..] != b[..] {
                        r.violation("from_bytes/content", "Id::from_bytes changed the bytes", json!({"class":"from_bytes","len":len}), json!({}));
                    }
                }
            }
        }
        r.nontrivial(crate::rng::mix(0xb17e5, len as u64));
    }
}

const MASK: u32 = 0x030f3fff;

fn unmask(i: u32) -> u32 {
    // spread 20 bits over the mask positions (pdep)
    let mut out = 0u32;
    let mut src = i;
    for bit in 0..32 {
        if MASK >> bit & 1 == 1 {
            out |= (src & 1) << bit;
            src >>= 1;
        }
    }
    out
}

fn bep42_point(r: &mut Report, ip_masked: u32, rbyte: u8, rng: &mut Rng, sample: bool) {
    // choose the bits outside the mask at random; keep one fully public variant
    let outside = rng.u32() & !MASK;
    let ip_pub = Ipv4Addr::from(ip_masked | (outside & 0x7c_f0_c0_00) | 0x40_00_00_00); // 64.x..127.x minus handled below
    let ip_pub = if ip_exempt(ip_pub) { Ipv4Addr::from((u32::from(ip_pub) & !0xff00_0000) | (u32::from(ip_pub) & 0x0300_0000) | 0x5000_0000) } else { ip_pub };
    let filler: [u8; 20] = rng.array();
    let id = bep42_mint(ip_pub, rbyte, filler);
    let iid = Id::from(id);
    r.eval();
    let case = || json!({"class":"bep42","ip": ip_pub.to_string(), "r": rbyte, "id": crate::bencode::hex(&id)});
    if !iid.is_valid_for_ip(ip_pub) {
        r.violation("bep42/reference-id-rejected", "id minted by the reference CRC32C is not valid for its ip", case(), json!({}));
    }
    // flip one of the 21 prefix bits -> must be invalid
    let bit = rng.usize(21);
    let mut bad = id;
    bad[bit / 8] ^= 1 << (7 - bit % 8);
    if Id::from(bad).is_valid_for_ip(ip_pub) {
        r.violation("bep42/flipped-prefix-accepted", "id with a flipped prefix bit is still valid", case(), json!({"bit": bit}));
    }
    // bits outside the mask must not matter (unless the address becomes exempt)
    let ip2 = Ipv4Addr::from((u32::from(ip_pub) & MASK) | (rng.u32() & !MASK));
    let want = bep42_valid(&id, ip2);
    if iid.is_valid_for_ip(ip2) != want {
        r.violation("bep42/mask", "verdict depends on ip bits outside the BEP42 mask (or exemption differs)", json!({"class":"bep42","ip": ip2.to_string(), "r": rbyte, "id": crate::bencode::hex(&id)}), json!({"expected": want}));
    }
    // agreement on a random id (almost always invalid) and on bits 21.. of the id
    let rid: [u8; 20] = rng.array();
    if Id::from(rid).is_valid_for_ip(ip_pub) != bep42_valid(&rid, ip_pub) {
        r.violation("bep42/disagree-random-id", "is_valid_for_ip disagrees with the reference on a random id", json!({"class":"bep42","ip": ip_pub.to_string(), "id": crate::bencode::hex(&rid)}), json!({}));
    }
    r.nontrivial_extra += 1;
    if sample && r.want_sample() {
        r.sample(json!({"kind":"bep42","ip":ip_pub.to_string(),"r":rbyte,"reference_prefix21": format!("{:06x}", bep42_prefix21(ip_pub, rbyte)),"id":crate::bencode::hex(&id)}));
    }
}

pub fn misc_ips(r: &mut Report, rng: &mut Rng, n: usize) {
    // exempt ranges and from_ipv4
    let fixed = ["10.0.0.1", "10.255.255.255", "172.16.0.1", "172.31.255.255", "172.15.0.1", "172.32.0.1", "192.168.1.1", "192.167.1.1", "192.169.0.0", "127.0.0.1", "127.255.0.3", "169.254.1.1", "169.253.1.1", "0.0.0.0", "255.255.255.255", "224.0.0.1", "100.64.0.1", "8.8.8.8", "1.1.1.1", "126.255.255.255", "128.0.0.0"];
    let mut ips: Vec<Ipv4Addr> = fixed.iter().map(|s| s.parse().expect("ip")).collect();
    for _ in 0..n {
        ips.push(Ipv4Addr::from(rng.u32()));
    }
    for ip in ips {
        r.eval();
        let id = Id::from_ipv4(ip);
        let case = json!({"class":"from_ipv4","ip": ip.to_string(), "id": id.to_string()});
        if !id.is_valid_for_ip(ip) {
            r.violation("bep42/from_ipv4-invalid", "Id::from_ipv4(ip) is not valid for ip", case.clone(), json!({}));
        }
        if !bep42_valid(id.as_bytes(), ip) {
            r.violation("bep42/from_ipv4-reference", "Id::from_ipv4(ip) fails the reference BEP42 check", case.clone(), json!({}));
        }
        let rid: [u8; 20] = rng.array();
        if Id::from(rid).is_valid_for_ip(ip) != bep42_valid(&rid, ip) {
            r.violation("bep42/disagree-random-id", "is_valid_for_ip disagrees with the reference (exemptions?)", json!({"class":"bep42","ip": ip.to_string(), "id": crate::bencode::hex(&rid)}), json!({}));
        }
        r.nontrivial(crate::rng::mix(0x1b, u32::from(ip) as u64));
        r.count("from_ipv4_draws");
    }
}

pub fn run(a: &Args) -> Report {
    if let Some(path) = &a.replay {
        return replay(path);
    }
    let quick = a.quick();
    let threads = a.threads.max(1);
    let mut total = Report::new("C19");
    // The very first BEP42 computations of this process (nothing has been computed, cached or memoised yet), for
    // addresses whose masked bits are all zero and r values whose low three bits are zero: the all-zero input of
    // the digest. Every later point of the sweep runs in a process that has computed other digests before.
    {
        let mut rng = Rng::new(crate::rng::mix(a.seed, 0xf125));
        let zero_masked = [[8u8, 0, 0, 0], [4, 16, 64, 0], [100, 64, 0, 0], [64, 0, 0, 0], [12, 240, 192, 0], [200, 16, 0, 0]];
        for k in 0..16 {
            let ip = Ipv4Addr::from(zero_masked[(rng.usize(zero_masked.len()) + k) % zero_masked.len()]);
            let rbyte = (rng.usize(32) * 8) as u8;
            let id = bep42_mint(ip, rbyte, rng.array());
            total.eval();
            total.count("bep42_first_computations_of_the_process");
            let case = json!({"class":"bep42","ip": ip.to_string(), "r": rbyte, "id": crate::bencode::hex(&id)});
            if Id::from(id).is_valid_for_ip(ip) != bep42_valid(&id, ip) {
                total.violation("bep42/first-computation-of-the-process", "is_valid_for_ip disagrees with the reference CRC32C on the first computations a process makes (masked address bits and r & 7 all zero)", case.clone(), json!({"computation": k, "reference_says_valid": bep42_valid(&id, ip)}));
                break;
            }
            let minted = Id::from_ipv4(ip);
            if !bep42_valid(minted.as_bytes(), ip) && !ip_exempt(ip) {
                total.violation("bep42/first-computation-of-the-process/from_ipv4", "from_ipv4 produced an id that the reference does not accept for that address, on the first computations a process makes", json!({"class":"bep42","ip": ip.to_string(), "id": crate::bencode::hex(minted.as_bytes())}), json!({"computation": k}));
                break;
            }
        }
    }
    let parts: Vec<Report> = std::thread::scope(|s| {
        let hs: Vec<_> = (0..threads)
            .map(|tid| {
                s.spawn(move || {
                    let mut r = Report::new("C19");
                    let mut rng = Rng::new(crate::rng::mix(a.seed, tid as u64 + 77));
                    if tid == 0 {
                        parser(&mut r, &mut rng, if quick { 20_000 } else { 400_000 });
                    }
                    metric(&mut r, &mut rng, (if quick { 200 } else { 1000 }) / threads + 1);
                    misc_ips(&mut r, &mut rng, (if quick { 100_000 } else { 1_000_000 }) / threads);
                    // BEP42 space modulo the mask: 2^20 masked IPs x r
                    let rs: u32 = if quick { 8 } else { 256 };
                    let mut i = tid as u32;
                    while i < (1 << 20) {
                        let ipm = unmask(i);
                        for rb in 0..rs {
                            bep42_point(&mut r, ipm, rb as u8, &mut rng, i % 99991 == 3 && rb == 5);
                        }
                        i += threads as u32;
                    }
                    r.add("bep42_points", ((1u64 << 20) / threads as u64) * rs as u64);
                    if quick {
                        for _ in 0..(65536 / threads) {
                            let ipm = unmask(rng.u32() & 0xfffff);
                            let rb = rng.u32() as u8;
                            bep42_point(&mut r, ipm, rb, &mut rng, false);
                        }
                    }
                    r
                })
            })
            .collect();
        hs.into_iter().map(|h| h.join().expect("thread")).collect()
    });
    for p in parts {
        total.merge(p);
    }
    total.notes.insert("bep42_space".into(), json!(if quick { "2^20 masked IPs x r in 0..8 (+2^16 random full pairs)" } else { "2^20 masked IPs x all 256 r (exhaustive modulo the mask)" }));
    total
}

fn replay(path: &str) -> Report {
    let mut r = Report::new("C19");
    let v: serde_json::Value = serde_json::from_str(&std::fs::read_to_string(path).unwrap_or_default()).unwrap_or_default();
    let case = &v["case"];
    match case["class"].as_str() {
        Some("from_str") => {
            let bytes = crate::bencode::unhex(case["input_hex"].as_str().unwrap_or(""));
            if let Ok(s) = String::from_utf8(bytes) {
                check_str(&mut r, &s);
            }
        }
        _ => r.inconclusive("replay: only from_str cases carry a direct replay; others re-run with the recorded seed"),
    }
    r
}

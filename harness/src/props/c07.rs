//! C07 — iterative lookups are exhaustive (Kademlia closure), judged from the lookup's own trace.
use super::c11::{order, secure, N};
use super::net::*;
use crate::report::Report;
use crate::rng::{mix, Rng};
use crate::simnet::*;
use crate::Args;
use dht::Id;
use serde_json::{json, Value};
use std::collections::{HashMap, HashSet};
use std::net::{Ipv4Addr, SocketAddrV4};

#[derive(Clone, Copy, Debug, PartialEq)]
enum Kind {
    FindNode,
    GetClosest,
    GetPeers,
    PutImmutable,
    /// get_immutable: the caller hangs up after the first value, the lookup goes on
    GetImmutable,
}

fn show(n: &N) -> Value {
    json!({"id": crate::bencode::hex(&n.0[..6]), "addr": n.1.to_string(), "secure": super::c11::secure(n)})
}

struct LookupTrace {
    queried: Vec<SocketAddrV4>,
    queried_at: Vec<u64>,
    /// nodes that answered (id from the reply, source address)
    answerers: Vec<N>,
    /// answerers whose reply carried a token
    responders: Vec<N>,
    listed: Vec<N>,
    put_targets: Vec<SocketAddrV4>,
    rounds: usize,
}

fn analyse(trace: &[Ev], x: SocketAddrV4, qname: &str, target: &[u8; 20]) -> LookupTrace {
    let (sends, delivers) = sends_and_delivers(trace);
    let mut reqs: HashMap<(SocketAddrV4, Vec<u8>), u64> = HashMap::new();
    let mut queried = vec![];
    let mut queried_at = vec![];
    let mut times = vec![];
    for s in sends.iter().filter(|m| m.from == x && m.k.is_query(qname) && m.k.target().as_ref() == Some(target)) {
        reqs.insert((s.to, s.k.t.clone()), s.t);
        queried.push(s.to);
        queried_at.push(s.t);
        times.push(s.t);
    }
    times.sort();
    times.dedup();
    let mut answerers = vec![];
    let mut responders = vec![];
    let mut listed = vec![];
    for d in delivers.iter().filter(|d| d.to == x && d.k.y == b'r') {
        if reqs.contains_key(&(d.from, d.k.t.clone())) {
            if let Some(id) = d.k.id() {
                answerers.push((id, d.from));
                if d.k.res_bytes("token").is_some() {
                    responders.push((id, d.from));
                }
            }
            listed.extend(d.k.nodes());
        }
    }
    let put_targets = sends.iter().filter(|m| m.from == x && m.k.is_query("put")).map(|m| m.to).collect();
    LookupTrace { queried, queried_at, answerers, responders, listed, put_targets, rounds: times.len() }
}

fn dedup_sorted(mut v: Vec<N>, t: &[u8; 20]) -> Vec<N> {
    v.sort_by(|a, b| order(a, b, t).then(a.1.cmp(&b.1)));
    v.dedup();
    v
}

/// The three rules of the statement, evaluated on one finished lookup.
#[allow(clippy::too_many_arguments)]
fn judge(r: &mut Report, case: &dyn Fn() -> Value, kind: Kind, target: [u8; 20], table: &[N], signed_table: &[N], returned: &Option<Vec<N>>, lt: &LookupTrace, big: bool, key: u64) {
    if lt.queried.is_empty() {
        // served from cache (put right after a lookup of the same target) - nothing to judge
        r.count("lookups_without_requests");
        return;
    }
    // (3) no address queried twice
    // (two requests to one address in the same tick - two entries sharing an address, first seen
    // together - are outside the statement: it forbids re-querying after an answer or a timeout)
    let seen: HashSet<SocketAddrV4> = lt.queried.iter().copied().collect();
    let mut first_sent: HashMap<SocketAddrV4, u64> = HashMap::new();
    for (a, t) in lt.queried.iter().zip(lt.queried_at.iter()) {
        let e = first_sent.entry(*a).or_insert(*t);
        if *t > *e {
            r.violation("lookup/address-queried-again", "the same lookup queried an address again at a later time", case(), json!({"address": a.to_string(), "first_ns": *e, "again_ns": *t}));
            break;
        }
    }
    // (1) closure over everything that answered or was listed
    let entries = dedup_sorted(lt.answerers.iter().chain(lt.listed.iter()).copied().collect(), &target);
    // same-IP admission rules of the accumulator cannot bind: one IP per node in these networks
    let top: Vec<&N> = entries.iter().take(20).collect();
    // Entries sharing an IP with another entry may legitimately be refused by the accumulator's
    // per-IP Sybil rule (insertion-order dependent), so only unique-IP entries are demanded;
    // ranks are taken in the full list, which can only make the demand weaker, never stronger.
    let seeds: Vec<N> = dedup_sorted(table.iter().chain(signed_table.iter()).copied().collect(), &target);
    let ip_count = |n: &N| entries.iter().filter(|o| o.1.ip() == n.1.ip()).count() + seeds.iter().filter(|o| o.1.ip() == n.1.ip() && !entries.contains(o)).count();
    let missing: Vec<&&N> = top.iter().filter(|n| ip_count(n) == 1 && !seen.contains(&n.1)).collect();
    if !missing.is_empty() {
        r.violation(
            "lookup/closure-missed-top20-entry",
            "one of the 20 closest entries (among answerers and listed nodes) was never queried",
            case(),
            json!({"missing": missing.iter().map(|n| show(n)).collect::<Vec<_>>(), "top20": top.iter().map(|n| show(n)).collect::<Vec<_>>(), "queried": lt.queried.len(), "rounds": lt.rounds}),
        );
    }
    // (2) reported / written-to nodes
    match kind {
        Kind::FindNode => {
            let got = returned.clone().unwrap_or_default();
            // nodes cached from an earlier lookup of the same target also seed the lookup; they are not
            // visible to the harness unless they made it into the result, so the result's own entries
            // count as candidates (a stale identity of a re-keyed node can come in this way and then
            // shares its address with the current one)
            let cands = dedup_sorted(table.iter().chain(signed_table.iter()).chain(lt.listed.iter()).chain(got.iter()).copied().collect(), &target);
            // ids are unique per node here, so (secure, xor) is a total order
            // the accumulator admits at most one insecure / one secure-per-prefix entry per IP, in
            // insertion order: when candidates share an IP only the order-independent part is judged
            let mut ips = HashSet::new();
            let shared_ip = cands.iter().any(|c| !ips.insert(*c.1.ip()));
            let want: Vec<N> = cands.iter().copied().take(20).collect();
            if shared_ip {
                let sorted_ok = got.windows(2).all(|w| order(&w[0], &w[1], &target) != std::cmp::Ordering::Greater);
                let subset_ok = got.iter().all(|g| cands.contains(g));
                let unique_missing: Vec<&N> = want.iter().filter(|c| cands.iter().filter(|o| o.1.ip() == c.1.ip()).count() == 1 && !got.contains(c)).collect();
                if !sorted_ok || !subset_ok || !unique_missing.is_empty() || got.len() > 20 {
                    r.violation("find_node/shared-ip/inconsistent", "find_node result is unsorted, invents a node, exceeds 20 or omits a top-20 candidate with a unique IP", case(), json!({"got": got.iter().map(show).collect::<Vec<_>>(), "want": want.iter().map(show).collect::<Vec<_>>() }));
                }
                r.count("find_node_shared_ip_cases");
            } else if got != want {
                let sorted_ok = got.windows(2).all(|w| order(&w[0], &w[1], &target) != std::cmp::Ordering::Greater);
                let sig = if !sorted_ok { "find_node/out-of-order" } else if got.len() < want.len() { "find_node/too-few" } else { "find_node/not-the-closest" };
                r.violation(sig, "find_node did not return exactly the 20 closest known entries in order", case(), json!({"got": got.iter().map(show).collect::<Vec<_>>(), "want": want.iter().map(show).collect::<Vec<_>>() }));
            }
        }
        Kind::GetClosest => {
            let got = returned.clone().unwrap_or_default();
            let resp = dedup_sorted(lt.responders.clone(), &target);
            if got.len() > resp.len() || got[..] != resp[..got.len()] {
                r.violation("get_closest_nodes/not-a-prefix-of-responders", "get_closest_nodes is not a prefix of the token-bearing answerers in (secure, XOR) order", case(), json!({"got": got.iter().map(show).collect::<Vec<_>>(), "responders": resp.iter().map(show).collect::<Vec<_>>() }));
            } else if got.len() < resp.len().min(20) {
                r.violation("get_closest_nodes/too-few", "get_closest_nodes returned fewer than min(20, responders)", case(), json!({"got": got.len(), "responders": resp.len()}));
            }
        }
        Kind::PutImmutable => {
            let resp = dedup_sorted(lt.responders.clone(), &target);
            let wrote: HashSet<SocketAddrV4> = lt.put_targets.iter().copied().collect();
            let k = wrote.len();
            let prefix: HashSet<SocketAddrV4> = resp.iter().take(k).map(|n| n.1).collect();
            if wrote != prefix {
                r.violation("put/write-set-not-closest-responders", "the write went to a set that is not the closest responders", case(), json!({"wrote": wrote.iter().map(|a| a.to_string()).collect::<Vec<_>>(), "closest_responders": resp.iter().take(k).map(show).collect::<Vec<_>>() }));
            } else if k < resp.len().min(20) {
                r.violation("put/write-set-too-small", "the write went to fewer than min(20, responders) nodes", case(), json!({"wrote": k, "responders": resp.len()}));
            }
        }
        Kind::GetPeers | Kind::GetImmutable => {}
    }
    r.count(&format!("lookups/{kind:?}"));
    r.add("requests_of_lookups", lt.queried.len() as u64);
    if big || lt.rounds >= 2 {
        r.nontrivial(key);
        r.count("multi_round_or_large");
    }
    if r.want_sample() && lt.rounds >= 2 {
        r.sample(json!({"case": case(), "requests": lt.queried.len(), "send_rounds": lt.rounds, "answerers": lt.answerers.len(), "listed_nodes": lt.listed.len(), "top3": entries.iter().take(3).map(show).collect::<Vec<_>>() }));
    }
}

pub struct Params {
    pub seed: u64,
    pub servers: usize,
    pub plan: usize,
    pub lookups: usize,
}

pub fn scenario(r: &mut Report, p: &Params) {
    let mut rng = Rng::new(p.seed);
    let w = World::with_cfg(p.seed, NetCfg::default(), TraceLevel::Off);
    let plans = [IpPlan::Public, IpPlan::Private, IpPlan::Mixed, IpPlan::PublicSecure];
    let net = build_net(&w, p.servers, 0, plans[p.plan % 4], p.servers > 30 && rng.bool(), &mut rng);
    // a fresh client and the existing nodes act as lookup origins
    let fresh = w.spawn(NodeSpec::client(Ipv4Addr::new(90, 0, 0, 9), &[net.boot])).expect("fresh");
    w.block_on(fresh.adht.bootstrapped(), 120 * SEC);
    let ids: Vec<[u8; 20]> = net.nodes.iter().filter_map(|n| w.block_on(n.adht.info(), SEC).map(|i| *i.id().as_bytes())).collect();
    let case_base = json!({"class":"lookup","seed":p.seed.to_string(),"servers":p.servers,"plan":p.plan,"lookups":p.lookups});
    let mut stored_targets: Vec<[u8; 20]> = vec![];
    for li in 0..p.lookups {
        r.eval();
        let origin: &Node = if rng.chance(1, 3) { &fresh } else { &net.nodes[rng.usize(net.nodes.len())] };
        let kind = if li < 3 { Kind::PutImmutable } else { *rng.pick(&[Kind::FindNode, Kind::FindNode, Kind::GetClosest, Kind::GetClosest, Kind::GetClosest, Kind::GetPeers, Kind::PutImmutable, Kind::GetImmutable]) };
        // target: random, or clustered near an existing id (long common prefix)
        let mut target: [u8; 20] = rng.array();
        let value = if rng.chance(1, 3) { rng.blob(900, 1000) } else { rng.blob(4, 30) }; // a third of the stored values are close to the 1000-byte limit: answers of 1.5 - 1.7 kB with 20 nodes listed
        if kind == Kind::PutImmutable {
            target = crate::sha1::immutable_target(&value);
            stored_targets.push(target);
        } else if kind == Kind::GetImmutable && !stored_targets.is_empty() {
            target = *rng.pick(&stored_targets);
            r.count("lookups_on_stored_targets");
        } else if (kind == Kind::GetClosest || kind == Kind::FindNode) && !stored_targets.is_empty() && rng.chance(1, 2) {
            // a target that already holds data: the closest nodes answer with value-carrying replies
            target = *rng.pick(&stored_targets);
            r.count("lookups_on_stored_targets");
        } else if rng.chance(1, 2) && !ids.is_empty() {
            target = *rng.pick(&ids);
            let b = 8 + rng.usize(12);
            target[b] ^= 1 << rng.usize(8);
        }
        let snap = snapshot(&w, origin);
        let Some(snap) = snap else {
            r.inconclusive("snapshot hook did not answer");
            continue;
        };
        if !snap.iterative_queries.is_empty() {
            // maintenance lookup in flight; let it finish first
            w.run_for(5 * SEC);
        }
        let table: Vec<N> = snap.table.nodes.iter().map(|n| (*n.0.as_bytes(), n.1)).collect();
        let signed_table: Vec<N> = snap.signed_table.nodes.iter().map(|n| (*n.0.as_bytes(), n.1)).collect();
        w.set_trace(TraceLevel::Full);
        w.clear_trace();
        let tid = Id::from(target);
        let a = origin.adht.clone();
        let bound = 120 * SEC;
        let (returned, qname): (Option<Vec<N>>, &str) = match kind {
            Kind::FindNode => (w.block_on(a.find_node(tid), bound).map(|ns| ns.iter().map(|n| (*n.id().as_bytes(), n.address())).collect()), "find_node"),
            Kind::GetClosest => (w.block_on(a.get_closest_nodes(tid), bound).map(|ns| ns.iter().map(|n| (*n.id().as_bytes(), n.address())).collect()), "get"),
            Kind::GetPeers => {
                use futures_lite::StreamExt;
                (w.block_on(async move { a.get_peers(tid).count().await }, bound).map(|_| vec![]), "get_peers")
            }
            Kind::PutImmutable => (w.block_on(a.put_immutable(&value), bound).map(|_| vec![]), "get"),
            Kind::GetImmutable => {
                // the call returns with the first value; the lookup behind it runs on until it is exhausted
                let got = w.block_on(a.get_immutable(tid), bound).map(|_| vec![]);
                w.run_for(4 * SEC);
                (got, "get")
            }
        };
        let trace = w.trace_from(0);
        w.set_trace(TraceLevel::Off);
        w.clear_trace();
        let case = || {
            let mut c = case_base.clone();
            c["lookup_index"] = json!(li);
            c["kind"] = json!(format!("{kind:?}"));
            c["target"] = json!(crate::bencode::hex(&target));
            c["origin"] = json!(origin.addr.to_string());
            c
        };
        if returned.is_none() {
            r.violation("lookup/did-not-complete", "lookup did not complete within 120 virtual seconds in a loss-free network", case(), json!({}));
            continue;
        }
        let lt = analyse(&trace, origin.addr, qname, &target);
        if std::env::var("MLV_DEBUG").map(|v| v == li.to_string()).unwrap_or(false) {
            eprintln!("lookup {li} {kind:?} origin {} target {}", origin.addr, crate::bencode::hex(&target));
            eprintln!(" table: {:?}", table.iter().map(|n| (crate::bencode::hex(&n.0[..4]), n.1)).collect::<Vec<_>>());
            eprintln!(" signed: {:?}", signed_table.iter().map(|n| (crate::bencode::hex(&n.0[..4]), n.1)).collect::<Vec<_>>());
            let (sends, delivers) = sends_and_delivers(&trace);
            for m in sends.iter().filter(|m| m.from == origin.addr || m.to == origin.addr) {
                eprintln!("  t={} {} -> {} {} q={:?} nodes={:?}", m.t / 1000, m.from, m.to, m.k.y as char, m.k.q, m.k.nodes().iter().map(|n| (crate::bencode::hex(&n.0[..4]), n.1)).collect::<Vec<_>>());
            }
            let _ = delivers;
        }
        judge(r, &case, kind, target, &table, &signed_table, &returned, &lt, p.servers > 20, mix(mix(p.seed, li as u64), w.order_hash()));
    }
    // === writes served from the lookup cache (no lookup of their own) ===
    if net.nodes.len() >= 2 {
        use futures_lite::StreamExt;
        // (A) a mutable item is stored at seq S; another node asks "anything newer than S?" - every holder
        // answers "no" (id, token, nodes, seq, no value) - and then writes seq S+1 from that lookup's result:
        // the write goes to the closest token-bearing answerers of that lookup
        let signer = dht::SigningKey::from_bytes(&rng.array::<32>());
        let salt: Option<Vec<u8>> = if rng.bool() { Some(rng.blob(1, 8)) } else { None };
        let s0 = 5 + rng.below(50) as i64;
        let item = dht::MutableItem::new(&signer, b"stored first", s0, salt.as_deref());
        let target = crate::sha1::mutable_target(item.key(), salt.as_deref());
        let wi = rng.usize(net.nodes.len());
        let stored = w.block_on(net.nodes[wi].adht.put_mutable(item.clone(), None), 120 * SEC).map(|x| x.is_ok()).unwrap_or(false);
        let origin: &Node = if rng.bool() { &fresh } else { &net.nodes[(wi + 1) % net.nodes.len()] };
        if stored {
            let _ = snapshot(&w, origin);
            w.run_for(3 * SEC);
            w.set_trace(TraceLevel::Full);
            w.clear_trace();
            let a = origin.adht.clone();
            let (k, sl) = (*item.key(), salt.clone());
            let bound_seq = s0 + *rng.pick(&[0i64, 0, 3]);
            let seen = w.block_on(async move { a.get_mutable(&k, sl.as_deref(), Some(bound_seq)).count().await }, 120 * SEC);
            let item2 = dht::MutableItem::new(&signer, b"written from the cached lookup", s0 + 1, salt.as_deref());
            let put = w.block_on(origin.adht.put_mutable(item2, Some(s0)), 120 * SEC);
            let trace = w.trace_from(0);
            w.set_trace(TraceLevel::Off);
            w.clear_trace();
            let lt = analyse(&trace, origin.addr, "get", &target);
            let case = json!({"class":"lookup","seed":p.seed.to_string(),"servers":p.servers,"plan":p.plan,"lookups":p.lookups,"part":"put-after-a-newer-than-lookup","target":crate::bencode::hex(&target),"origin":origin.addr.to_string()});
            if seen.is_none() || put.is_none() {
                r.violation("lookup/did-not-complete", "lookup did not complete within 120 virtual seconds in a loss-free network", case.clone(), json!({}));
            } else if !lt.queried.is_empty() {
                let resp = dedup_sorted(lt.responders.clone(), &target);
                let wrote: HashSet<SocketAddrV4> = lt.put_targets.iter().copied().collect();
                let kk = wrote.len();
                let prefix: HashSet<SocketAddrV4> = resp.iter().take(kk).map(|n| n.1).collect();
                // two lookups in the trace would mean the put did not use the cache; then the union of answerers still bounds it
                if wrote != prefix {
                    r.violation("put/write-set-not-closest-responders", "the write went to a set that is not the closest responders", case.clone(), json!({"wrote": wrote.iter().map(|a| a.to_string()).collect::<Vec<_>>(), "closest_responders": resp.iter().take(20).map(show).collect::<Vec<_>>(), "after": "get_mutable(.., more_recent_than) answered with 'no more recent value'"}));
                } else if kk < resp.len().min(20) {
                    r.violation("put/write-set-too-small", "the write went to fewer than min(20, responders) nodes", case.clone(), json!({"wrote": kk, "responders": resp.len(), "after": "get_mutable(.., more_recent_than) answered with 'no more recent value'"}));
                }
                r.count("puts_after_a_newer_than_lookup");
            }
        }
        // (B) a write issued right at the five-minute mark of the cached lookup: while the cache entry is used at
        // all, the write goes to every node that lookup reported
        let value = rng.blob(4, 40);
        let t2 = crate::sha1::immutable_target(&value);
        let origin: &Node = if rng.bool() { &fresh } else { &net.nodes[rng.usize(net.nodes.len())] };
        w.set_trace(TraceLevel::Full);
        w.clear_trace();
        let reported = w.block_on(origin.adht.get_closest_nodes(Id::from(t2)), 120 * SEC);
        let trace = w.trace_from(0);
        w.clear_trace();
        w.set_trace(TraceLevel::Off);
        let (_, delivers) = sends_and_delivers(&trace);
        let times: Vec<u64> = delivers.iter().filter(|d| d.to == origin.addr && d.k.y == b'r' && d.k.res_bytes("token").is_some()).map(|d| d.t).collect();
        if let (Some(reported), Some(tf), Some(tl)) = (reported, times.iter().min().copied(), times.iter().max().copied()) {
            let at = tf + 300 * SEC + (tl - tf) / 2 + MS;
            if reported.len() >= 2 && tl > tf && w.now() < at {
                w.run_to(at);
                w.set_trace(TraceLevel::Full);
                w.clear_trace();
                let put = w.block_on(origin.adht.put_immutable(&value), 120 * SEC);
                let trace = w.trace_from(0);
                w.set_trace(TraceLevel::Off);
                w.clear_trace();
                let lt = analyse(&trace, origin.addr, "get", &t2);
                let case = json!({"class":"lookup","seed":p.seed.to_string(),"servers":p.servers,"plan":p.plan,"lookups":p.lookups,"part":"put-at-the-five-minute-mark-of-the-cached-lookup","target":crate::bencode::hex(&t2),"origin":origin.addr.to_string()});
                if put.is_none() {
                    r.violation("lookup/did-not-complete", "put did not complete within 120 virtual seconds in a loss-free network", case.clone(), json!({}));
                } else if lt.queried.is_empty() {
                    let wrote: HashSet<SocketAddrV4> = lt.put_targets.iter().copied().collect();
                    let want: HashSet<SocketAddrV4> = reported.iter().map(|n| n.address()).collect();
                    if wrote != want {
                        r.violation("put/cached-write-set-not-the-latest-closest-responders", "a put served from the cached lookup did not go to exactly the nodes that lookup reported", case.clone(), json!({"wrote": wrote.len(), "reported": want.len(), "missing": want.difference(&wrote).map(|a| a.to_string()).collect::<Vec<_>>(), "put_at_ms_after_first_answer": (at - tf) / MS}));
                    }
                    r.count("cached_puts_at_the_five_minute_mark");
                } else {
                    r.count("puts_at_the_five_minute_mark_with_a_fresh_lookup");
                }
            }
        }
    }
    if w.stuck() {
        r.inconclusive("scheduler watchdog fired");
    }
    drop(fresh);
    drop(net);
    w.shutdown();
    for (thread, loc, msg) in crate::take_panics() {
        r.violation(&format!("panic/{loc}"), &format!("thread {thread} panicked: {msg}"), case_base.clone(), json!({}));
    }
}

/// A real origin node among scripted raw endpoints whose ids, addresses, "known nodes" and values the
/// harness chooses: id assignments that real nodes never draw (ids that differ from the target and from each
/// other only in their last bytes, BEP42-secure ids mixed with insecure ones, all-private addresses), sparse
/// and hostile referral graphs (a closer node known to a single responder, value holders listing nodes nobody
/// else lists, duplicates, 8 or 20 nodes per answer), random arrival order.
pub fn scripted(r: &mut Report, seed: u64) {
    use crate::bencode::B;
    use crate::krpc::*;
    let mut rng = Rng::new(seed);
    let w = World::with_cfg(seed, NetCfg::default(), TraceLevel::Off);
    let n = 6 + rng.usize(55);
    let plan = rng.usize(4);
    let value = if rng.chance(1, 3) { rng.blob(900, 1000) } else { rng.blob(4, 30) };
    let center = crate::sha1::immutable_target(&value);
    let mut ends: Vec<N> = vec![];
    for i in 0..n {
        let ip = if plan == 3 { Ipv4Addr::new(10, 7, (i / 200) as u8, 1 + (i % 200) as u8) } else { Ipv4Addr::new(60 + (i % 40) as u8, 1 + (i / 40) as u8, rng.usize(250) as u8, 1 + rng.usize(250) as u8) };
        let clustered = |rng: &mut Rng| {
            let mut id = center;
            let k = 1 + rng.usize(4);
            for b in id.iter_mut().skip(20 - k) {
                *b = rng.u32() as u8;
            }
            id
        };
        let id = match plan {
            0 => rng.array(),
            1 | 3 => clustered(&mut rng),
            _ => {
                if rng.bool() {
                    {
                    let filler = if rng.bool() { center } else { rng.array() };
                    crate::crc32c::bep42_mint(ip, rng.u32() as u8, filler)
                }
                } else if rng.bool() {
                    clustered(&mut rng)
                } else {
                    rng.array()
                }
            }
        };
        if ends.iter().any(|e| e.0 == id) {
            continue;
        }
        ends.push((id, SocketAddrV4::new(ip, 6881)));
    }
    let n = ends.len();
    // referral graph: a chain guarantees reachability, plus random extra knowledge
    let mut knows: Vec<Vec<usize>> = vec![vec![]; n];
    for i in 0..n {
        knows[i].push((i + 1) % n);
        let cap = if rng.bool() { 4 } else { 25 };
        let extra = rng.usize(cap);
        for _ in 0..extra {
            let j = rng.usize(n);
            if j != i && !knows[i].contains(&j) {
                knows[i].push(j);
            }
        }
    }
    // a far BEP42-secure node that a single responder knows, and that responder answers late: when the
    // referral arrives, twenty or more (partly insecure) nodes have already answered - secure-first order
    // still ranks the far secure node among the first 20 entries
    let mut slow: Vec<u64> = vec![0; n];
    if plan == 2 && n >= 28 && rng.bool() {
        let secure_far: Vec<usize> = (0..n).filter(|i| secure(&ends[*i])).collect();
        if let Some(&f) = secure_far.first() {
            // a secure id far from the target: random filler, first bit opposite to the target's
            let mut filler: [u8; 20] = rng.array();
            filler[0] = !center[0];
            let minted = crate::crc32c::bep42_mint(*ends[f].1.ip(), rng.u32() as u8, filler);
            if !ends.iter().any(|e| e.0 == minted) {
                ends[f].0 = minted;
            }
            let l = (f + 1 + rng.usize(n - 1)) % n;
            for (i, k) in knows.iter_mut().enumerate() {
                if i != l {
                    k.retain(|j| *j != f);
                    if k.is_empty() {
                        k.push((i + 2) % n);
                    }
                }
            }
            knows[l] = vec![f, (l + 1) % n];
            // the late answer still arrives inside the 500 ms request timeout: at most 60 ms each way + 350 ms
            w.set_latency(MS, 60 * MS);
            slow[l] = (200 + rng.below(150)) * MS;
            r.count("scripted_worlds_with_a_late_referral_to_a_far_secure_node");
        }
    }
    let holders: Vec<bool> = (0..n).map(|_| rng.chance(1, 4)).collect();
    // late joiners: up to three endpoints right next to the target that nobody lists and that stay silent
    // until they are revealed (then everybody lists them)
    let with_late = n >= 8 && rng.bool();
    let hidden: Vec<bool> = (0..n).map(|i| with_late && i >= 2 && i < 5).collect();
    if with_late {
        for i in 2..5 {
            let mut id = center;
            id[19] ^= 1 + i as u8;
            if plan == 2 || plan == 0 {
                // keep whatever security class the plan gave this address
                id = if secure(&ends[i]) { crate::crc32c::bep42_mint(*ends[i].1.ip(), ends[i].0[19], center) } else { id };
            }
            ends[i].0 = id;
        }
    }
    let revealed = std::rc::Rc::new(std::cell::Cell::new(false));
    let per_answer = if rng.bool() { 8 } else { 20 };
    let hostile_order = rng.chance(1, 3);
    let socks: Vec<SockId> = ends.iter().map(|e| w.raw(e.1)).collect();
    {
        let (ends, knows, holders, socks, hidden, revealed, slow) = (ends.clone(), knows.clone(), holders.clone(), socks.clone(), hidden.clone(), revealed.clone(), slow.clone());
        let value_for_get = value.clone();
        let mut rr = Rng::new(mix(seed, 0x5c21));
        w.set_responder(Some(Box::new(move |w, sock, d| {
            let Some(idx) = socks.iter().position(|s| *s == sock) else { return false };
            let Some(q) = Krpc::parse(&d.bytes) else { return true };
            if q.y != b'q' {
                return true;
            }
            if hidden[idx] && !revealed.get() {
                return true;
            }
            let mut rd = vec![("id", B::bytes(&ends[idx].0))];
            let name = q.q.clone().unwrap_or_default();
            if let (Some(t), true) = (q.target(), matches!(name.as_str(), "find_node" | "get_peers" | "get")) {
                let mut list: Vec<N> = knows[idx].iter().filter(|&&j| !hidden[j]).map(|&j| ends[j]).collect();
                if revealed.get() {
                    list.extend((0..ends.len()).filter(|j| hidden[*j] && *j != idx).map(|j| ends[j]));
                }
                list.sort_by(|a, b| {
                    let da: Vec<u8> = a.0.iter().zip(t.iter()).map(|(x, y)| x ^ y).collect();
                    let db: Vec<u8> = b.0.iter().zip(t.iter()).map(|(x, y)| x ^ y).collect();
                    da.cmp(&db)
                });
                list.truncate(per_answer);
                if hostile_order {
                    list.reverse();
                    if let Some(first) = list.first().copied() {
                        list.push(first);
                        list.truncate(20);
                    }
                }
                let _ = &mut rr;
                rd.push(("nodes", B::Bytes(nodes_bytes(&list))));
                if name != "find_node" {
                    rd.push(("token", B::bytes(b"tokn")));
                }
                if name == "get" && holders[idx] && t == center {
                    rd.push(("v", B::Bytes(value_for_get.clone())));
                }
                if name == "get_peers" && holders[idx] {
                    rd.push(("values", B::List(vec![B::Bytes(addr_bytes(&SocketAddrV4::new(Ipv4Addr::new(99, 1, 1, idx as u8), 7000)))])));
                }
            }
            let msg = response(&q.t, B::dict(rd), Some(&d.from), Some(&VERSION_RS6));
            w.raw_send_delayed(sock, &msg.encode(), d.from, slow[idx]);
            true
        })));
    }
    let boots: Vec<SocketAddrV4> = (0..1 + rng.usize(3)).map(|_| ends[rng.usize(n)].1).collect();
    let origin_ip = if plan == 3 { Ipv4Addr::new(10, 9, 0, 9) } else { Ipv4Addr::new(90, 0, 0, 9) };
    let origin = w.spawn(NodeSpec::client(origin_ip, &boots)).expect("origin");
    w.block_on(origin.adht.bootstrapped(), 120 * SEC);
    let plan_name = ["random", "clustered-last-bytes", "secure-insecure-mix", "private-clustered"][plan];
    let case_base = json!({"class":"scripted","seed":seed.to_string(),"endpoints":n,"id_plan":plan_name,"nodes_per_answer":per_answer,"hostile_order":hostile_order});
    let lookups = 8;
    for li in 0..lookups {
        r.eval();
        let kind = *rng.pick(&[Kind::FindNode, Kind::GetClosest, Kind::GetClosest, Kind::GetPeers, Kind::GetPeers, Kind::PutImmutable, Kind::GetImmutable]);
        let mut target = center;
        if kind != Kind::PutImmutable && kind != Kind::GetImmutable {
            match rng.usize(4) {
                0 => target = rng.array(),
                1 => target[19 - rng.usize(4)] ^= 1 << rng.usize(8),
                _ => {}
            }
        }
        let Some(snap) = snapshot(&w, &origin) else {
            r.inconclusive("snapshot hook did not answer");
            continue;
        };
        if !snap.iterative_queries.is_empty() {
            w.run_for(5 * SEC);
        }
        let table: Vec<N> = snap.table.nodes.iter().map(|n| (*n.0.as_bytes(), n.1)).collect();
        let signed_table: Vec<N> = snap.signed_table.nodes.iter().map(|n| (*n.0.as_bytes(), n.1)).collect();
        w.set_trace(TraceLevel::Full);
        w.clear_trace();
        let tid = Id::from(target);
        let a = origin.adht.clone();
        let bound = 120 * SEC;
        let v2 = value.clone();
        let (returned, qname): (Option<Vec<N>>, &str) = match kind {
            Kind::FindNode => (w.block_on(a.find_node(tid), bound).map(|ns| ns.iter().map(|n| (*n.id().as_bytes(), n.address())).collect()), "find_node"),
            Kind::GetClosest => (w.block_on(a.get_closest_nodes(tid), bound).map(|ns| ns.iter().map(|n| (*n.id().as_bytes(), n.address())).collect()), "get"),
            Kind::GetPeers => {
                use futures_lite::StreamExt;
                (w.block_on(async move { a.get_peers(tid).count().await }, bound).map(|_| vec![]), "get_peers")
            }
            Kind::PutImmutable => (w.block_on(async move { a.put_immutable(&v2).await }, bound).map(|_| vec![]), "get"),
            Kind::GetImmutable => {
                let got = w.block_on(async move { a.get_immutable(tid).await }, bound).map(|_| vec![]);
                w.run_for(4 * SEC);
                r.count("scripted_get_immutable_lookups");
                (got, "get")
            }
        };
        let trace = w.trace_from(0);
        w.set_trace(TraceLevel::Off);
        w.clear_trace();
        let case = || {
            let mut c = case_base.clone();
            c["lookup_index"] = json!(li);
            c["kind"] = json!(format!("{kind:?}"));
            c["target"] = json!(crate::bencode::hex(&target));
            c
        };
        if returned.is_none() {
            r.violation("lookup/did-not-complete", "lookup did not complete within 120 virtual seconds in a loss-free network", case(), json!({}));
            continue;
        }
        let lt = analyse(&trace, origin.addr, qname, &target);
        judge(r, &case, kind, target, &table, &signed_table, &returned, &lt, true, mix(mix(seed, li as u64), w.order_hash()));
        r.count("scripted_lookups");
        if lt.answerers.iter().any(|x| lt.answerers.iter().any(|y| x.0 != y.0 && x.0[..16] == y.0[..16])) {
            r.count("scripted_lookups_with_ids_equal_in_128_bits");
        }
        if lt.answerers.iter().any(secure) && lt.answerers.iter().any(|x| !secure(x)) {
            r.count("scripted_lookups_mixing_secure_and_insecure");
        }
    }
    // a write served from the cache of the latest lookup: lookup, closer nodes join, lookup again, put
    if with_late {
        let tid = Id::from(center);
        let run_get = |w: &World| -> Option<LookupTrace> {
            w.set_trace(TraceLevel::Full);
            w.clear_trace();
            let a = origin.adht.clone();
            let done = w.block_on(a.get_closest_nodes(tid), 120 * SEC);
            let trace = w.trace_from(0);
            w.set_trace(TraceLevel::Off);
            w.clear_trace();
            done.map(|_| analyse(&trace, origin.addr, "get", &center))
        };
        let first = run_get(&w);
        revealed.set(true);
        w.run_for(2 * SEC);
        let second = run_get(&w);
        w.set_trace(TraceLevel::Full);
        w.clear_trace();
        let a = origin.adht.clone();
        let v2 = value.clone();
        let put = w.block_on(async move { a.put_immutable(&v2).await }, 120 * SEC);
        let trace = w.trace_from(0);
        w.set_trace(TraceLevel::Off);
        w.clear_trace();
        if let (Some(_), Some(second), Some(Ok(_))) = (first, second, put) {
            let lt = analyse(&trace, origin.addr, "get", &center);
            let latest = dedup_sorted(second.responders.clone(), &center);
            let newcomers_answered = latest.iter().take(20).filter(|x| (0..n).any(|i| hidden[i] && ends[i].1 == x.1)).count();
            if lt.queried.is_empty() && newcomers_answered > 0 {
                let wrote: HashSet<SocketAddrV4> = lt.put_targets.iter().copied().collect();
                let prefix: HashSet<SocketAddrV4> = latest.iter().take(wrote.len()).map(|x| x.1).collect();
                let mut c = case_base.clone();
                c["kind"] = json!("PutImmutable-from-cache-after-newcomers");
                if wrote != prefix || wrote.len() < latest.len().min(20) {
                    r.violation("put/cached-write-set-not-the-latest-closest-responders", "a put served from the lookup cache did not go to the closest responders of the most recent lookup of its target", c, json!({"wrote": wrote.iter().map(|a| a.to_string()).collect::<Vec<_>>(), "latest_closest_responders": latest.iter().take(20).map(show).collect::<Vec<_>>(), "newcomers_among_them": newcomers_answered}));
                }
                r.count("scripted_cached_puts_after_newcomers");
            }
        }
    }
    if w.stuck() {
        r.inconclusive("scheduler watchdog fired");
    }
    drop(origin);
    w.shutdown();
    for (thread, loc, msg) in crate::take_panics() {
        r.violation(&format!("panic/{loc}"), &format!("thread {thread} panicked: {msg}"), case_base.clone(), json!({}));
    }
}

pub fn run(a: &Args) -> Report {
    let mut r = Report::new("C07");
    if let Some(path) = &a.replay {
        let v: Value = serde_json::from_str(&std::fs::read_to_string(path).unwrap_or_default()).unwrap_or_default();
        let c = &v["case"];
        if c["class"].as_str() == Some("scripted") {
            scripted(&mut r, c["seed"].as_str().and_then(|s| s.parse().ok()).unwrap_or(1));
            return r;
        }
        scenario(&mut r, &Params { seed: c["seed"].as_str().and_then(|s| s.parse().ok()).unwrap_or(1), servers: c["servers"].as_u64().unwrap_or(5) as usize, plan: c["plan"].as_u64().unwrap_or(0) as usize, lookups: c["lookups"].as_u64().unwrap_or(10) as usize });
        return r;
    }
    let sizes_quick = [2usize, 3, 5, 10, 19, 20, 21, 25, 40, 40, 60];
    let sizes_thorough = [2usize, 3, 5, 10, 19, 20, 21, 40, 40, 100, 100, 300];
    let worlds = (if a.quick() { 64 } else { 640 }) / a.nshards.max(1);
    let mut rng = Rng::new(mix(a.seed, 0xc07 + a.shard));
    for i in 0..worlds {
        let servers = if a.quick() { sizes_quick[(i as usize + a.shard as usize) % sizes_quick.len()] } else { sizes_thorough[(i as usize + a.shard as usize) % sizes_thorough.len()] };
        let lookups = if servers >= 100 { 60 } else { 40 };
        let p = Params { seed: rng.u64(), servers, plan: rng.usize(4), lookups };
        super::guarded(&mut r, json!({"class":"lookup","seed":p.seed.to_string(),"servers":p.servers,"plan":p.plan,"lookups":p.lookups}), |r| scenario(r, &p));
        r.count("worlds");
    }
    for _ in 0..(if a.quick() { 480 } else { 6400 }) / a.nshards.max(1) {
        let seed = rng.u64();
        super::guarded(&mut r, json!({"class":"scripted","seed":seed.to_string()}), |r| scripted(r, seed));
        r.count("scripted_worlds");
    }
    r
}

//! C08 — put results tell the truth about acknowledgements; token discipline.
//! The storing nodes are raw scripted endpoints, so the fate of every store reply is controlled.
use crate::bencode::B;
use crate::krpc::*;
use crate::report::Report;
use crate::rng::{mix, Rng};
use crate::sha1::immutable_target;
use crate::simnet::*;
use crate::Args;
use dht::errors::{ConcurrencyError, PutError};
use dht::verif::{put_raw, AnnouncePeerRequestArguments, AnnounceSignedPeerRequestArguments, PutImmutableRequestArguments, PutMutableRequestArguments, PutRequestSpecific};
use dht::{Id, MutableItem, Node, SigningKey};
use serde_json::{json, Value};
use std::cell::RefCell;
use std::collections::HashMap;
use std::net::{Ipv4Addr, SocketAddrV4};
use std::rc::Rc;

#[derive(Clone, Copy, Debug, PartialEq, Eq, Hash)]
pub enum Fate {
    Ack,
    Lost,
    Late,
    E203,
    E205,
    E301,
    E302,
    E999,
    /// acknowledgement flagged read-only (`ro = 1`): the sender declares that it does not serve requests
    AckRo,
    /// acknowledgement that carries another node id than the lookup answer of that address did (the node took a
    /// new id in between - a re-key after confirming its address): right address, right transaction id
    AckNewId,
    /// the write is lost; a third party (an address the node never wrote to) sends a bare acknowledgement with the
    /// write's transaction id that arrives at the very instant the request expires - after the last moment an
    /// answer may be accepted, before the node's next loop iteration has reaped the put
    ForgedAtExpiry,
}
pub const FATES: [Fate; 11] = [Fate::Ack, Fate::Lost, Fate::Late, Fate::E203, Fate::E205, Fate::E301, Fate::E302, Fate::E999, Fate::AckRo, Fate::AckNewId, Fate::ForgedAtExpiry];

#[derive(Default)]
struct Obs {
    /// store requests received: (endpoint index, token presented, query name)
    stores: Vec<(usize, Vec<u8>, String)>,
    /// tokens handed out in lookup replies, per endpoint (latest)
    tokens: HashMap<usize, Vec<u8>>,
}

pub struct Case {
    pub seed: u64,
    pub kind: usize,
    /// fate of the store reply per endpoint; endpoints beyond the list reuse `default_fate`
    pub fates: Vec<Fate>,
    /// endpoints that answer lookups WITHOUT a token (must never be written to)
    pub tokenless: Vec<bool>,
    pub n: usize,
    pub default_fate: Fate,
    /// > 0: also pass this many extra nodes (collected through get_closest_nodes on other targets)
    pub extra_rounds: usize,
    /// 1: the extra nodes come from find_node (fresh, but without a token); 2: find_node(target) runs
    /// right before the put (the cached closest nodes carry no token)
    pub tokenless_mode: u8,
}

fn case_json(c: &Case) -> Value {
    json!({"class":"scripted-storing-nodes","seed":c.seed.to_string(),"kind":c.kind,"n":c.n,"fates":c.fates.iter().map(|f| format!("{f:?}")).collect::<Vec<_>>(),"tokenless":c.tokenless,"default_fate":format!("{:?}", c.default_fate),"extra_rounds":c.extra_rounds,"tokenless_mode":c.tokenless_mode})
}

pub fn scenario(r: &mut Report, c: &Case) {
    r.eval();
    let mut rng = Rng::new(c.seed);
    let w = World::with_cfg(c.seed, NetCfg { lat_min: MS, lat_max: 40 * MS, random_ties: true }, TraceLevel::Off);
    let case = case_json(c);
    let ends: Vec<([u8; 20], SocketAddrV4)> = (0..c.n).map(|i| (rng.array(), SocketAddrV4::new(Ipv4Addr::new(10, 1 + (i / 250) as u8, 1 + (i % 250) as u8, 1), 6881))).collect();
    let socks: Vec<SockId> = ends.iter().map(|e| w.raw(e.1)).collect();
    let index: HashMap<SockId, usize> = socks.iter().enumerate().map(|(i, s)| (*s, i)).collect();
    let obs = Rc::new(RefCell::new(Obs::default()));
    let obs2 = obs.clone();
    let ends2 = ends.clone();
    let fates: Vec<Fate> = (0..c.n).map(|i| c.fates.get(i).copied().unwrap_or(c.default_fate)).collect();
    let tokenless: Vec<bool> = (0..c.n).map(|i| c.tokenless.get(i).copied().unwrap_or(false)).collect();
    let (fates2, tokenless2) = (fates.clone(), tokenless.clone());
    let mut trng = rng.fork(1);
    // when each write request left the node (for the forgery that arrives exactly at its expiry)
    let sent_at: std::sync::Arc<std::sync::Mutex<HashMap<Vec<u8>, u64>>> = Default::default();
    let sent_at2 = sent_at.clone();
    if fates.contains(&Fate::ForgedAtExpiry) {
        let sa = sent_at.clone();
        w.set_fault(Some(Box::new(move |info: &SendInfo| {
            if let Some(k) = Krpc::parse(info.bytes) {
                if k.y == b'q' && matches!(k.q.as_deref(), Some("put") | Some("announce_peer") | Some("announce_signed_peer")) {
                    sa.lock().unwrap_or_else(|e| e.into_inner()).insert(k.t.clone(), info.now);
                }
            }
            None
        })));
    }
    w.set_responder(Some(Box::new(move |w, sock, d| {
        let Some(q) = Krpc::parse(&d.bytes) else { return true };
        if q.y != b'q' {
            return true;
        }
        let i = index[&sock];
        let me = ends2[i].0;
        let name = q.q.clone().unwrap_or_default();
        if matches!(name.as_str(), "put" | "announce_peer" | "announce_signed_peer") {
            obs2.borrow_mut().stores.push((i, q.arg_bytes("token").unwrap_or(&[]).to_vec(), name));
            let (bytes, delay) = match fates2[i] {
                Fate::Ack => (response(&q.t, B::dict(vec![("id", B::bytes(&me))]), Some(&d.from), Some(&VERSION_RS6)).encode(), 0),
                Fate::AckNewId => {
                    let mut other = me;
                    other[0] ^= 0xa5;
                    other[19] ^= 0x5a;
                    (response(&q.t, B::dict(vec![("id", B::bytes(&other))]), Some(&d.from), Some(&VERSION_RS6)).encode(), 0)
                }
                Fate::Lost => return true,
                Fate::ForgedAtExpiry => {
                    let sent = sent_at2.lock().unwrap_or_else(|e| e.into_inner()).get(&q.t).copied();
                    if let Some(t_sent) = sent {
                        let forged = response(&q.t, B::dict(vec![("id", B::bytes(&[0x66; 20]))]), Some(&d.from), Some(&VERSION_RS6)).encode();
                        let third_party = SocketAddrV4::new(Ipv4Addr::new(66, 6, 6, 1 + (i % 200) as u8), 6881);
                        let expiry = t_sent + 500 * MS;
                        for extra in [0u64, 1_000, 200_000] {
                            w.inject(third_party, &forged, d.from, (expiry + extra).saturating_sub(w.now()));
                        }
                    }
                    return true;
                }
                Fate::Late => (response(&q.t, B::dict(vec![("id", B::bytes(&me))]), Some(&d.from), Some(&VERSION_RS6)).encode(), 4 * SEC),
                Fate::E203 => (error(&q.t, 203, "bad token").encode(), 0),
                Fate::E205 => (error(&q.t, 205, "too big").encode(), 0),
                Fate::E301 => (error(&q.t, 301, "cas mismatch").encode(), 0),
                Fate::E302 => (error(&q.t, 302, "seq less than current").encode(), 0),
                Fate::E999 => (error(&q.t, 999, "whatever").encode(), 0),
                Fate::AckRo => {
                    let mut m = response(&q.t, B::dict(vec![("id", B::bytes(&me))]), Some(&d.from), Some(&VERSION_RS6));
                    m.set("ro", B::Int(1));
                    (m.encode(), 0)
                }
            };
            w.raw_send_delayed(sock, &bytes, d.from, delay);
            return true;
        }
        // lookups: list a window of the farm (26 bytes per node, keep the datagram small)
        let start = trng.usize(ends2.len());
        let window: Vec<([u8; 20], SocketAddrV4)> = (0..ends2.len().min(40)).map(|k| ends2[(start + k) % ends2.len()]).collect();
        let mut rd = vec![("id", B::bytes(&me)), ("nodes", B::Bytes(nodes_bytes(&window)))];
        if name != "find_node" && name != "ping" && !tokenless2[i] {
            let tok = trng.blob(4, 8);
            obs2.borrow_mut().tokens.insert(i, tok.clone());
            rd.push(("token", B::Bytes(tok)));
        }
        w.raw_send(sock, &response(&q.t, B::dict(rd), Some(&d.from), Some(&VERSION_RS6)).encode(), d.from);
        true
    })));
    let boots: Vec<SocketAddrV4> = ends.iter().take(3).map(|e| e.1).collect();
    let x = w.spawn(NodeSpec::client(Ipv4Addr::new(10, 200, 0, 1), &boots)).expect("x");
    w.block_on(x.adht.bootstrapped(), 120 * SEC);
    // extra nodes (token-bearing) from lookups of other targets
    let mut extra: Vec<Node> = vec![];
    for _ in 0..c.extra_rounds {
        let a = x.adht.clone();
        let t = Id::from(rng.array::<20>());
        let tokenless_extras = c.tokenless_mode == 1;
        if let Some(nodes) = w.block_on(async move { if tokenless_extras { a.find_node(t).await } else { a.get_closest_nodes(t).await } }, 120 * SEC) {
            for n in nodes.iter() {
                if !extra.iter().any(|e| e.address() == n.address()) {
                    extra.push(n.clone());
                }
            }
        }
    }
    // tokens handed out so far belong to earlier lookups; the put's own lookup hands out new ones
    let signer = SigningKey::from_bytes(&rng.array::<32>());
    let value = rng.blob(3, 40);
    let ih = Id::from(rng.array::<20>());
    let request = match c.kind % 4 {
        0 => PutRequestSpecific::PutImmutable(PutImmutableRequestArguments { target: Id::from(immutable_target(&value)), v: value.clone().into_boxed_slice() }),
        1 => PutRequestSpecific::PutMutable(PutMutableRequestArguments::from(MutableItem::new(&signer, &value, 7, None), if rng.bool() { Some(6) } else { None })),
        2 => PutRequestSpecific::AnnouncePeer(AnnouncePeerRequestArguments { info_hash: ih, port: 4000, implied_port: None }),
        _ => {
            let ts = w.unix_micros();
            let sg = super::srv::sign_announce(&signer, ih.as_bytes(), ts);
            PutRequestSpecific::AnnounceSignedPeer(AnnounceSignedPeerRequestArguments { info_hash: ih, t: ts, k: sg.k, sig: sg.sig })
        }
    };
    if c.tokenless_mode == 2 {
        // a find_node for the very target of the put, just before it
        let t = *request.target();
        let a = x.adht.clone();
        w.block_on(async move { drop(a.find_node(t).await) }, 120 * SEC);
    }
    let extra_tokens: HashMap<SocketAddrV4, Vec<u8>> = extra.iter().filter_map(|n| n.token().map(|t| (n.address(), t.to_vec()))).collect();
    obs.borrow_mut().stores.clear();
    let lookup_tokens_before: HashMap<usize, Vec<u8>> = obs.borrow().tokens.clone();
    obs.borrow_mut().tokens.clear();
    let rx = put_raw(&x.dht, request, if extra.is_empty() { None } else { Some(extra.clone().into_boxed_slice()) });
    let rx2 = rx.clone();
    let result = w.block_on(async move { rx2.recv_async().await }, 300 * SEC);
    w.run_for(6 * SEC);
    let o = obs.borrow();
    let n_sent = o.stores.len();
    let mut acks = 0;
    let (mut e301, mut e302) = (0, 0);
    let mut per_endpoint: HashMap<usize, usize> = HashMap::new();
    for (i, _, _) in &o.stores {
        *per_endpoint.entry(*i).or_insert(0) += 1;
        match fates[*i] {
            Fate::Ack | Fate::AckNewId => acks += 1,
            Fate::E301 => e301 += 1,
            Fate::E302 => e302 += 1,
            _ => {}
        }
    }
    let half = n_sent / 2 + 1;
    let is_mutable = c.kind % 4 == 1;
    let detail = json!({"store_requests": n_sent, "acks_delivered": acks, "e301": e301, "e302": e302, "half": half, "result": format!("{result:?}"), "extra_nodes": extra.len()});
    match &result {
        None => r.violation("put/did-not-complete", "put did not complete within 300 virtual seconds", case.clone(), detail.clone()),
        Some(Err(_)) => r.violation("put/channel-closed-without-result", "the put's channel was closed without a result", case.clone(), detail.clone()),
        Some(Ok(res)) => {
            match res {
                Ok(_) => {
                    if acks == 0 {
                        r.violation("result/ok-without-ack", "put returned Ok although no acknowledgement was delivered", case.clone(), detail.clone());
                    }
                }
                Err(PutError::Concurrency(ConcurrencyError::CasFailed)) => {
                    if e301 == 0 || !is_mutable {
                        r.violation("result/cas-failed-without-301", "CasFailed although no storing node answered 301 (or the put is not mutable)", case.clone(), detail.clone());
                    }
                }
                Err(PutError::Concurrency(ConcurrencyError::NotMostRecent)) => {
                    if e302 == 0 || !is_mutable {
                        r.violation("result/not-most-recent-without-302", "NotMostRecent although no storing node answered 302 (or the put is not mutable)", case.clone(), detail.clone());
                    }
                }
                Err(PutError::Concurrency(ConcurrencyError::ConflictRisk)) => r.violation("result/conflict-risk-from-network", "ConflictRisk for a single put", case.clone(), detail.clone()),
                Err(PutError::Query(_)) => {}
            }
            if res.is_err() && n_sent > 0 {
                let must_ok = if is_mutable { acks >= 1 && e301 < half && e302 < half } else { acks >= 1 };
                if must_ok {
                    let size = if n_sent > 255 { "over-255-targets" } else { "normal" };
                    r.violation(&format!("result/error-despite-ack/{size}"), "put returned an error although an acknowledgement was delivered in time (and no 3xx majority)", case.clone(), detail.clone());
                }
            }
        }
    }
    // token discipline
    for (i, tok, _) in &o.stores {
        let own = o.tokens.get(i).or_else(|| lookup_tokens_before.get(i));
        let from_extra = extra_tokens.get(&ends[*i].1);
        let ok = own.map(|t| t == tok).unwrap_or(false) || from_extra.map(|t| t == tok).unwrap_or(false) || lookup_tokens_before.get(i).map(|t| t == tok).unwrap_or(false);
        if tokenless[*i] && from_extra.is_none() {
            r.violation("tokens/wrote-to-tokenless-node", "a store request went to a node that answered the lookup without a token", case.clone(), json!({"endpoint": ends[*i].1.to_string()}));
            break;
        }
        if !ok {
            r.violation("tokens/wrong-token", "a store request did not carry the token this node handed out", case.clone(), json!({"endpoint": ends[*i].1.to_string(), "presented": crate::bencode::hex(tok), "issued": own.map(|t| crate::bencode::hex(t))}));
            break;
        }
    }
    if per_endpoint.values().any(|v| *v > 1) && extra.is_empty() {
        r.violation("tokens/duplicate-store-request", "one node received two store requests of one put", case.clone(), json!({}));
    }
    r.add("store_requests_observed", n_sent as u64);
    if n_sent > 255 {
        r.count("puts_over_255_targets");
    }
    if fates.iter().any(|f| *f != Fate::Ack) || n_sent > 20 {
        r.nontrivial(mix(c.seed, crate::rng::fnv(format!("{:?}{:?}{}{}", c.fates, c.tokenless, c.kind, c.extra_rounds).as_bytes())));
    }
    if r.want_sample() && n_sent > 0 && acks > 0 && acks < n_sent {
        r.sample(json!({"case": case, "detail": detail}));
    }
    drop(o);
    // a second mutable put on the same key once the first one is over (no put is in flight): lower seq,
    // other value, no cas. Whatever it returns must again be backed by what the storing nodes answered.
    if is_mutable {
        obs.borrow_mut().stores.clear();
        let second = PutRequestSpecific::PutMutable(PutMutableRequestArguments::from(MutableItem::new(&signer, b"second", 5, None), None));
        let rx = put_raw(&x.dht, second, None);
        let result2 = w.block_on(async move { rx.recv_async().await }, 300 * SEC);
        w.run_for(6 * SEC);
        let o = obs.borrow();
        // a Late acknowledgement (4 s) may be in time for the second put: the request timeout adapts to
        // the round-trip times seen during the first one
        let (mut acks, mut e301, mut e302) = (0, 0, 0);
        for (i, _, _) in &o.stores {
            match fates[*i] {
                Fate::Ack | Fate::Late | Fate::AckNewId => acks += 1,
                Fate::E301 => e301 += 1,
                Fate::E302 => e302 += 1,
                _ => {}
            }
        }
        let detail = json!({"second_put": true, "first_result": format!("{result:?}"), "store_requests": o.stores.len(), "acks_sent_incl_late": acks, "e301": e301, "e302": e302, "result": format!("{result2:?}")});
        match &result2 {
            None => r.violation("put/did-not-complete", "put did not complete within 300 virtual seconds", case.clone(), detail.clone()),
            Some(Err(_)) => r.violation("put/channel-closed-without-result", "the put's channel was closed without a result", case.clone(), detail.clone()),
            Some(Ok(Ok(_))) if acks == 0 => r.violation("result/ok-without-ack", "put returned Ok although no acknowledgement was delivered", case.clone(), detail.clone()),
            Some(Ok(Err(PutError::Concurrency(ConcurrencyError::CasFailed)))) if e301 == 0 => r.violation("result/cas-failed-without-301", "CasFailed although no storing node answered 301 (or the put is not mutable)", case.clone(), detail.clone()),
            Some(Ok(Err(PutError::Concurrency(ConcurrencyError::NotMostRecent)))) if e302 == 0 => r.violation("result/not-most-recent-without-302", "NotMostRecent although no storing node answered 302 (or the put is not mutable)", case.clone(), detail.clone()),
            Some(Ok(Err(PutError::Concurrency(ConcurrencyError::ConflictRisk)))) => r.violation("result/conflict-risk-from-network", "ConflictRisk although no other put is in flight", case.clone(), detail.clone()),
            _ => {}
        }
        r.count("second_puts_after_the_first_ended");
        if matches!(result, Some(Ok(Err(PutError::Query(_))))) {
            r.count("second_puts_after_a_failed_first");
        }
    }
    let dead = w.closed(x.sock);
    drop(x);
    for (thread, loc, msg) in crate::take_panics() {
        let size = if n_sent > 255 { "over-255-targets" } else { "normal" };
        r.violation(&format!("panic/{}/{size}", loc.replace("/repo/", "")), &format!("thread {thread} panicked: {msg}"), case.clone(), json!({"actor_socket_closed": dead.is_some(), "store_requests": n_sent}));
    }
}

/// "... so the value is then held by at least one node able to serve it": real storing nodes, a sequence of
/// puts on one node (immutable, announces, and a mutable key written at seq n, again at seq n with another
/// value, identically once more, then at seq n + 1), and after every Ok a raw lookup of every storing node:
/// at least one of them must serve exactly what that put carried.
pub fn held_scenario(r: &mut Report, seed: u64) {
    use super::net::*;
    use super::srv::{sign_announce, verify};
    r.eval();
    let mut rng = Rng::new(seed);
    let w = World::with_cfg(seed, NetCfg::default(), TraceLevel::Off);
    let n = 1 + rng.usize(6);
    let net = build_net(&w, n, 0, IpPlan::Private, false, &mut rng);
    let writer = w.spawn(NodeSpec::client(Ipv4Addr::new(10, 200, 0, 9), &[net.boot])).expect("writer");
    w.block_on(writer.adht.bootstrapped(), 120 * SEC);
    let case = json!({"class":"held-by-a-serving-node","seed":seed.to_string(),"servers":n});
    let signer = SigningKey::from_bytes(&rng.array::<32>());
    let pk = signer.verifying_key().to_bytes();
    let salt: Option<Vec<u8>> = if rng.bool() { Some(rng.blob(1, 12)) } else { None };
    let seq0 = rng.below(100) as i64;
    let (va, vb, vc) = (rng.blob(1, 40), rng.blob(1, 40), rng.blob(1, 40));
    let imm = rng.blob(1, 900);
    let ih = Id::from(rng.array::<20>());
    let ts = w.unix_micros();
    let sg = sign_announce(&signer, ih.as_bytes(), ts);
    let steps: Vec<(&str, PutRequestSpecific)> = vec![
        ("immutable", PutRequestSpecific::PutImmutable(PutImmutableRequestArguments { target: Id::from(immutable_target(&imm)), v: imm.clone().into_boxed_slice() })),
        ("mutable seq n", PutRequestSpecific::PutMutable(PutMutableRequestArguments::from(MutableItem::new(&signer, &va, seq0, salt.as_deref()), None))),
        ("mutable seq n, other value", PutRequestSpecific::PutMutable(PutMutableRequestArguments::from(MutableItem::new(&signer, &vb, seq0, salt.as_deref()), None))),
        ("mutable seq n, identical again", PutRequestSpecific::PutMutable(PutMutableRequestArguments::from(MutableItem::new(&signer, &vb, seq0, salt.as_deref()), None))),
        ("mutable seq n+1 with cas n", PutRequestSpecific::PutMutable(PutMutableRequestArguments::from(MutableItem::new(&signer, &vc, seq0 + 1, salt.as_deref()), Some(seq0)))),
        ("announce_peer", PutRequestSpecific::AnnouncePeer(AnnouncePeerRequestArguments { info_hash: ih, port: 4555, implied_port: None })),
        ("announce_signed_peer", PutRequestSpecific::AnnounceSignedPeer(AnnounceSignedPeerRequestArguments { info_hash: ih, t: ts, k: sg.k, sig: sg.sig })),
    ];
    let probe = w.raw(SocketAddrV4::new(Ipv4Addr::new(10, 200, 0, 77), 7777));
    let mut tid = 0u32;
    let mut ask = |w: &World, to: SocketAddrV4, build: &dyn Fn(&[u8]) -> Vec<u8>| -> Option<Krpc> {
        tid += 1;
        let t = tid.to_be_bytes();
        while w.raw_recv(probe).is_some() {}
        w.raw_send(probe, &build(&t), to);
        let mut out = None;
        w.run_until(2 * SEC, |w| {
            while let Some((_, d)) = w.raw_recv(probe) {
                if let Some(k) = Krpc::parse(&d.bytes) {
                    if k.t == t {
                        out = Some(k);
                        return true;
                    }
                }
            }
            false
        });
        out
    };
    for (name, req) in steps {
        let target = *req.target();
        let want_mut: Option<(Vec<u8>, i64)> = match &req {
            PutRequestSpecific::PutMutable(a) => Some((a.v.to_vec(), a.seq)),
            _ => None,
        };
        let rx = put_raw(&writer.dht, req, None);
        let res = w.block_on(async move { rx.recv_async().await }, 300 * SEC);
        let ok = matches!(res, Some(Ok(Ok(_))));
        r.count(if ok { "held_puts_ok" } else { "held_puts_not_ok" });
        if !ok {
            continue;
        }
        let id = [0x33u8; 20];
        let mut served = 0;
        for s in &net.nodes {
            let hit = match name {
                "immutable" => ask(&w, s.addr, &|t| q_get(t, &id, target.as_bytes(), None)).map(|k| k.res_bytes("v") == Some(&imm[..])).unwrap_or(false),
                "announce_peer" => ask(&w, s.addr, &|t| q_get_peers(t, &id, ih.as_bytes(), false))
                    .map(|k| k.res("values").and_then(|v| v.as_list()).map(|l| l.iter().filter_map(|b| b.as_bytes()).any(|b| b.len() == 6 && parse_addr(b) == SocketAddrV4::new(*writer.addr.ip(), 4555))).unwrap_or(false))
                    .unwrap_or(false),
                "announce_signed_peer" => ask(&w, s.addr, &|t| q_get_peers(t, &id, ih.as_bytes(), true))
                    .map(|k| k.res("peers").and_then(|v| v.as_list()).map(|l| l.iter().filter_map(|b| b.as_bytes()).any(|b| b.len() == 104 && b[..32] == pk && u64::from_be_bytes(b[32..40].try_into().expect("8")) == ts)).unwrap_or(false))
                    .unwrap_or(false),
                _ => {
                    let (v, seq) = want_mut.clone().expect("mutable");
                    ask(&w, s.addr, &|t| q_get(t, &id, target.as_bytes(), None))
                        .map(|k| k.res_bytes("v") == Some(&v[..]) && k.res("seq").and_then(|x| x.as_int()) == Some(seq as i128) && k.res_bytes("k") == Some(&pk[..]) && k.res_bytes("sig").map(|sig| verify(&pk, &crate::sha1::mutable_signable(seq, &v, salt.as_deref()), sig)).unwrap_or(false))
                        .unwrap_or(false)
                }
            };
            if hit {
                served += 1;
            }
        }
        r.count("held_checks");
        if served == 0 {
            r.violation(&format!("held/ok-but-no-node-serves-it/{}", name.replace(' ', "-").replace(',', "")), "put returned Ok but no storing node serves what it carried", case.clone(), json!({"step": name, "servers": n}));
        }
    }
    r.nontrivial(mix(seed, 0x4e1d));
    drop(writer);
    drop(net);
    w.shutdown();
    for (thread, loc, msg) in crate::take_panics() {
        r.violation(&format!("panic/{}", loc.replace("/repo/", "")), &format!("thread {thread} panicked: {msg}"), case.clone(), json!({}));
    }
}

/// Two different puts for one target from one node, the second submitted while the first is still in
/// flight (same tick / during its lookup / during its store phase): two announce_peer calls with different
/// ports, two signed announcements by different keys, a mutable item and its successor with cas = first seq.
/// Whatever returned Ok must be served by at least one storing node afterwards (for the superseded mutable
/// item only the superseding call is judged).
pub fn overlap_held_scenario(r: &mut Report, seed: u64) {
    use super::net::*;
    use super::srv::{sign_announce, verify};
    r.eval();
    let mut rng = Rng::new(seed);
    let w = World::with_cfg(seed, NetCfg { lat_min: 5 * MS, lat_max: 80 * MS, random_ties: true }, TraceLevel::Off);
    let n = 1 + rng.usize(6);
    let net = build_net(&w, n, 0, IpPlan::Private, false, &mut rng);
    let writer = w.spawn(NodeSpec::client(Ipv4Addr::new(10, 200, 0, 9), &[net.boot])).expect("writer");
    w.block_on(writer.adht.bootstrapped(), 120 * SEC);
    let kind = rng.usize(3);
    let phase = rng.usize(3);
    let kinds = ["announce_peer", "announce_signed_peer", "mutable-superseded-by-cas"];
    let phases = ["same-tick", "during-lookup", "during-store"];
    let case = json!({"class":"overlapping-puts-held","seed":seed.to_string(),"servers":n,"kind":kinds[kind],"second_call":phases[phase]});
    let s1 = SigningKey::from_bytes(&rng.array::<32>());
    let s2 = SigningKey::from_bytes(&rng.array::<32>());
    let ih = Id::from(rng.array::<20>());
    let ts = w.unix_micros();
    let (p1, p2) = (4000 + rng.usize(1000) as u16, 6000 + rng.usize(1000) as u16);
    let seq0 = rng.below(100) as i64;
    let (va, vb) = (rng.blob(1, 40), rng.blob(1, 40));
    let (req1, req2) = match kind {
        0 => (
            PutRequestSpecific::AnnouncePeer(AnnouncePeerRequestArguments { info_hash: ih, port: p1, implied_port: None }),
            PutRequestSpecific::AnnouncePeer(AnnouncePeerRequestArguments { info_hash: ih, port: p2, implied_port: None }),
        ),
        1 => {
            let (g1, g2) = (sign_announce(&s1, ih.as_bytes(), ts), sign_announce(&s2, ih.as_bytes(), ts + 1));
            (
                PutRequestSpecific::AnnounceSignedPeer(AnnounceSignedPeerRequestArguments { info_hash: ih, t: ts, k: g1.k, sig: g1.sig }),
                PutRequestSpecific::AnnounceSignedPeer(AnnounceSignedPeerRequestArguments { info_hash: ih, t: ts + 1, k: g2.k, sig: g2.sig }),
            )
        }
        _ => (
            PutRequestSpecific::PutMutable(PutMutableRequestArguments::from(MutableItem::new(&s1, &va, seq0, None), None)),
            PutRequestSpecific::PutMutable(PutMutableRequestArguments::from(MutableItem::new(&s1, &vb, seq0 + 1, None), Some(seq0))),
        ),
    };
    let target = *req1.target();
    // store phase detection: the writer's first store request leaves
    let xaddr = writer.addr;
    let store_seen = std::sync::Arc::new(std::sync::atomic::AtomicBool::new(false));
    let ss2 = store_seen.clone();
    w.set_fault(Some(Box::new(move |info: &SendInfo| {
        if info.from == xaddr {
            if let Some(k) = Krpc::parse(info.bytes) {
                if matches!(k.q.as_deref(), Some("put") | Some("announce_peer") | Some("announce_signed_peer")) {
                    ss2.store(true, std::sync::atomic::Ordering::SeqCst);
                }
            }
        }
        None
    })));
    let rx1 = put_raw(&writer.dht, req1, None);
    let end = w.now() + 60 * SEC;
    match phase {
        0 => {}
        1 => {
            w.run_for((10 + rng.below(60)) * MS);
        }
        _ => {
            while !store_seen.load(std::sync::atomic::Ordering::SeqCst) && w.now() < end {
                if !matches!(w.step_until(end), Step::Node(_) | Step::Raw(_)) {
                    break;
                }
            }
        }
    }
    let first_in_flight = rx1.is_empty() && snapshot(&w, &writer).map(|sn| sn.put_queries.contains(&target)).unwrap_or(phase == 0) || phase == 0;
    let rx2 = put_raw(&writer.dht, req2, None);
    let res1 = w.block_on(async move { rx1.recv_async().await }, 300 * SEC);
    let res2 = w.block_on(async move { rx2.recv_async().await }, 300 * SEC);
    w.set_fault(None);
    w.run_for(2 * SEC);
    let ok1 = matches!(res1, Some(Ok(Ok(_))));
    let ok2 = matches!(res2, Some(Ok(Ok(_))));
    let probe = w.raw(SocketAddrV4::new(Ipv4Addr::new(10, 200, 0, 77), 7777));
    let mut tid = 0u32;
    let mut ask = |w: &World, to: SocketAddrV4, build: &dyn Fn(&[u8]) -> Vec<u8>| -> Option<Krpc> {
        tid += 1;
        let t = tid.to_be_bytes();
        while w.raw_recv(probe).is_some() {}
        w.raw_send(probe, &build(&t), to);
        let mut out = None;
        w.run_until(2 * SEC, |w| {
            while let Some((_, d)) = w.raw_recv(probe) {
                if let Some(k) = Krpc::parse(&d.bytes) {
                    if k.t == t {
                        out = Some(k);
                        return true;
                    }
                }
            }
            false
        });
        out
    };
    let id = [0x33u8; 20];
    let (pk1, pk2) = (s1.verifying_key().to_bytes(), s2.verifying_key().to_bytes());
    let mut served = [0usize; 2];
    for sv in &net.nodes {
        match kind {
            0 => {
                if let Some(k) = ask(&w, sv.addr, &|t| q_get_peers(t, &id, ih.as_bytes(), false)) {
                    let peers: Vec<SocketAddrV4> = k.res("values").and_then(|v| v.as_list()).map(|l| l.iter().filter_map(|b| b.as_bytes()).filter(|b| b.len() == 6).map(parse_addr).collect()).unwrap_or_default();
                    for (j, p) in [p1, p2].iter().enumerate() {
                        if peers.contains(&SocketAddrV4::new(*writer.addr.ip(), *p)) {
                            served[j] += 1;
                        }
                    }
                }
            }
            1 => {
                if let Some(k) = ask(&w, sv.addr, &|t| q_get_peers(t, &id, ih.as_bytes(), true)) {
                    let entries: Vec<Vec<u8>> = k.res("peers").and_then(|v| v.as_list()).map(|l| l.iter().filter_map(|b| b.as_bytes()).filter(|b| b.len() == 104).map(|b| b.to_vec()).collect()).unwrap_or_default();
                    for (j, pk) in [pk1, pk2].iter().enumerate() {
                        if entries.iter().any(|e| e[..32] == pk[..]) {
                            served[j] += 1;
                        }
                    }
                }
            }
            _ => {
                if let Some(k) = ask(&w, sv.addr, &|t| q_get(t, &id, target.as_bytes(), None)) {
                    let seq = k.res("seq").and_then(|x| x.as_int());
                    let okv = |v: &[u8], sq: i64| k.res_bytes("v") == Some(v) && seq == Some(sq as i128) && k.res_bytes("sig").map(|sig| verify(&pk1, &crate::sha1::mutable_signable(sq, v, None), sig)).unwrap_or(false);
                    if okv(&va, seq0) {
                        served[0] += 1;
                    }
                    if okv(&vb, seq0 + 1) {
                        served[1] += 1;
                    }
                }
            }
        }
    }
    r.count("overlap_held_scenarios");
    if first_in_flight {
        r.count(&format!("overlap_held/second_call_while_first_in_flight/{}", kinds[kind]));
        r.nontrivial(mix(seed, w.order_hash()));
    }
    let detail = json!({"first": format!("{:?}", res1.as_ref().map(|x| x.as_ref().map(|y| y.is_ok()))), "second": format!("{:?}", res2.as_ref().map(|x| x.as_ref().map(|y| y.is_ok()))), "servers_serving_first": served[0], "servers_serving_second": served[1], "first_in_flight_at_second_call": first_in_flight});
    if res1.is_none() || res2.is_none() {
        r.violation("overlap-held/did-not-complete", "a put did not complete", case.clone(), detail.clone());
    }
    if ok2 && served[1] == 0 {
        r.violation(&format!("held/ok-but-no-node-serves-it/second-of-two-overlapping/{}/{}", kinds[kind], phases[phase]), "the second of two overlapping puts for one target returned Ok but no storing node serves what it carried", case.clone(), detail.clone());
    }
    if kind != 2 && ok1 && served[0] == 0 {
        r.violation(&format!("held/ok-but-no-node-serves-it/first-of-two-overlapping/{}/{}", kinds[kind], phases[phase]), "the first of two overlapping puts for one target returned Ok but no storing node serves what it carried", case.clone(), detail);
    }
    drop(writer);
    drop(net);
    w.shutdown();
    for (thread, loc, msg) in crate::take_panics() {
        r.violation(&format!("panic/{}", loc.replace("/repo/", "")), &format!("thread {thread} panicked: {msg}"), case.clone(), json!({}));
    }
}

/// Replies to an EARLIER put that arrive while a LATER put for the same target is in flight: the first put's
/// store requests are answered 0.7..2.5 s late (after they expired, so that put ends with a query error), the
/// second put - started as soon as the first returned - gets no reply at all to its own requests. The late
/// acknowledgements / 301 / 302 belong to requests of the first put; the second put's result must be backed
/// by replies to ITS requests only: no Ok, no CasFailed, no NotMostRecent.
pub fn late_reply_scenario(r: &mut Report, seed: u64) {
    r.eval();
    let mut rng = Rng::new(seed);
    let w = World::with_cfg(seed, NetCfg { lat_min: MS, lat_max: 30 * MS, random_ties: true }, TraceLevel::Off);
    let n = 1 + rng.usize(5);
    let kind = rng.usize(4);
    let late_kind = if kind == 1 { rng.usize(3) } else { 0 }; // 0 ack, 1 error 301, 2 error 302
    let late_name = ["ack", "301", "302"][late_kind];
    let case = json!({"class":"late-replies-of-an-earlier-put","seed":seed.to_string(),"endpoints":n,"kind":kind,"late_reply":late_name});
    let ends: Vec<([u8; 20], SocketAddrV4)> = (0..n).map(|i| (rng.array(), SocketAddrV4::new(Ipv4Addr::new(10, 3, 0, 1 + i as u8), 6881))).collect();
    let socks: Vec<SockId> = ends.iter().map(|e| w.raw(e.1)).collect();
    let index: HashMap<SockId, usize> = socks.iter().enumerate().map(|(i, s)| (*s, i)).collect();
    // store requests seen per endpoint, with their transaction ids; replies sent (tid, kind)
    let stores: Rc<RefCell<Vec<(usize, Vec<u8>, u64)>>> = Rc::new(RefCell::new(vec![]));
    {
        let (ends2, stores2) = (ends.clone(), stores.clone());
        let delays: Vec<u64> = (0..n).map(|_| (700 + rng.below(1800)) * MS).collect();
        w.set_responder(Some(Box::new(move |w, sock, d| {
            let Some(q) = Krpc::parse(&d.bytes) else { return true };
            if q.y != b'q' {
                return true;
            }
            let i = index[&sock];
            let me = ends2[i].0;
            let name = q.q.clone().unwrap_or_default();
            if matches!(name.as_str(), "put" | "announce_peer" | "announce_signed_peer") {
                let seen_before = stores2.borrow().iter().filter(|s| s.0 == i).count();
                stores2.borrow_mut().push((i, q.t.clone(), w.now()));
                if seen_before == 0 {
                    let bytes = match late_kind {
                        0 => response(&q.t, B::dict(vec![("id", B::bytes(&me))]), Some(&d.from), Some(&VERSION_RS6)).encode(),
                        1 => error(&q.t, 301, "cas mismatch").encode(),
                        _ => error(&q.t, 302, "seq less than current").encode(),
                    };
                    w.raw_send_delayed(sock, &bytes, d.from, delays[i]);
                }
                // every later store request of this endpoint: no reply at all
                return true;
            }
            let mut rd = vec![("id", B::bytes(&me)), ("nodes", B::Bytes(nodes_bytes(&ends2)))];
            if name != "find_node" && name != "ping" {
                rd.push(("token", B::bytes(b"tokn")));
            }
            w.raw_send(sock, &response(&q.t, B::dict(rd), Some(&d.from), Some(&VERSION_RS6)).encode(), d.from);
            true
        })));
    }
    let boots: Vec<SocketAddrV4> = ends.iter().map(|e| e.1).collect();
    let x = w.spawn(NodeSpec::client(Ipv4Addr::new(10, 200, 0, 1), &boots)).expect("x");
    w.block_on(x.adht.bootstrapped(), 120 * SEC);
    let signer = SigningKey::from_bytes(&rng.array::<32>());
    let value = rng.blob(3, 40);
    let ih = Id::from(rng.array::<20>());
    let ts = w.unix_micros();
    let sg = super::srv::sign_announce(&signer, ih.as_bytes(), ts);
    let make = |second: bool| match kind {
        0 => PutRequestSpecific::PutImmutable(PutImmutableRequestArguments { target: Id::from(immutable_target(&value)), v: value.clone().into_boxed_slice() }),
        1 => PutRequestSpecific::PutMutable(PutMutableRequestArguments::from(MutableItem::new(&signer, &value, if second { 8 } else { 7 }, None), if second { Some(7) } else { None })),
        2 => PutRequestSpecific::AnnouncePeer(AnnouncePeerRequestArguments { info_hash: ih, port: 4000, implied_port: None }),
        _ => PutRequestSpecific::AnnounceSignedPeer(AnnounceSignedPeerRequestArguments { info_hash: ih, t: ts, k: sg.k, sig: sg.sig }),
    };
    let rx = put_raw(&x.dht, make(false), None);
    let first = w.block_on(async move { rx.recv_async().await }, 300 * SEC);
    let t_first_end = w.now();
    let rx = put_raw(&x.dht, make(true), None);
    let second = w.block_on(async move { rx.recv_async().await }, 300 * SEC);
    let t_second_end = w.now();
    w.run_for(6 * SEC);
    let st = stores.borrow();
    let first_requests = st.iter().filter(|s| s.2 <= t_first_end).count();
    let second_requests = st.iter().filter(|s| s.2 > t_first_end).count();
    r.count("late_reply_scenarios");
    let detail = json!({"first": format!("{first:?}"), "second": format!("{second:?}"), "store_requests_of_the_first_put": first_requests, "store_requests_of_the_second_put": second_requests, "second_put_lasted_ms": (t_second_end - t_first_end) / MS});
    if second_requests > 0 && first_requests > 0 {
        r.count("late_reply/second_put_sent_requests_while_replies_to_the_first_were_still_on_their_way");
        r.nontrivial(mix(seed, kind as u64));
        match &second {
            None => r.violation("put/did-not-complete", "put did not complete within 300 virtual seconds", case.clone(), detail.clone()),
            Some(Ok(Ok(_))) => r.violation("result/ok-without-ack/late-replies-of-an-earlier-put", "the put returned Ok although no reply to any of ITS requests was ever sent; acknowledgements of an earlier put for the same target arrived meanwhile", case.clone(), detail.clone()),
            Some(Ok(Err(PutError::Concurrency(ConcurrencyError::CasFailed)))) => r.violation("result/cas-failed-without-301/late-replies-of-an-earlier-put", "CasFailed although no storing node answered 301 to this put (301s of an earlier put arrived meanwhile)", case.clone(), detail.clone()),
            Some(Ok(Err(PutError::Concurrency(ConcurrencyError::NotMostRecent)))) => r.violation("result/not-most-recent-without-302/late-replies-of-an-earlier-put", "NotMostRecent although no storing node answered 302 to this put (302s of an earlier put arrived meanwhile)", case.clone(), detail.clone()),
            _ => {}
        }
    }
    drop(st);
    drop(x);
    for (thread, loc, msg) in crate::take_panics() {
        r.violation(&format!("panic/{}", loc.replace("/repo/", "")), &format!("thread {thread} panicked: {msg}"), case.clone(), json!({}));
    }
}

/// A slow network: every datagram takes 250..400 ms, so round trips (500..800 ms) exceed the initial 500 ms
/// request timeout until the node's estimate has adapted. After warm-up lookups the adaptive timeout (read
/// through the snapshot hook) is above every round trip; then a series of puts follows, all acknowledged.
/// Each acknowledgement reaches the caller before its request expired, so each put must return Ok.
pub fn slow_network_scenario(r: &mut Report, seed: u64) {
    r.eval();
    let mut rng = Rng::new(seed);
    let (lat_min, lat_max) = (250 * MS, (300 + rng.below(100)) * MS);
    let w = World::with_cfg(seed, NetCfg { lat_min, lat_max, random_ties: true }, TraceLevel::Off);
    let mut n = *rng.pick(&[2usize, 3, 4, 6, 7, 8, 12, 15, 16]);
    if let Ok(v) = std::env::var("MLV_N") {
        n = v.parse().unwrap_or(n);
    }
    let case = json!({"class":"slow-network","seed":seed.to_string(),"endpoints":n,"one_way_latency_ms":[lat_min / MS, lat_max / MS]});
    let ends: Vec<([u8; 20], SocketAddrV4)> = (0..n).map(|i| (rng.array(), SocketAddrV4::new(Ipv4Addr::new(10, 4, 0, 1 + i as u8), 6881))).collect();
    let socks: Vec<SockId> = ends.iter().map(|e| w.raw(e.1)).collect();
    let index: HashMap<SockId, usize> = socks.iter().enumerate().map(|(i, s)| (*s, i)).collect();
    let acks_sent = Rc::new(RefCell::new(0u64));
    let dead_referrals = rng.chance(1, 2) && std::env::var("MLV_NODEAD").is_err();
    {
        let (ends2, acks2) = (ends.clone(), acks_sent.clone());
        w.set_responder(Some(Box::new(move |w, sock, d| {
            let Some(q) = Krpc::parse(&d.bytes) else { return true };
            if q.y != b'q' {
                return true;
            }
            let me = ends2[index[&sock]].0;
            let name = q.q.clone().unwrap_or_default();
            let mut rd = vec![("id", B::bytes(&me))];
            if matches!(name.as_str(), "put" | "announce_peer" | "announce_signed_peer") {
                *acks2.borrow_mut() += 1;
            } else {
                // every lookup is also referred to one contact nobody sits at (a fresh address per target): its
                // request is never answered and stays in the node's in-flight vector after it expired, so the
                // number of entries in that vector keeps changing from put to put
                let mut list = ends2.clone();
                if let Some(t) = q.target() {
                    if dead_referrals {
                        // (one such contact per answering endpoint: they are asked one by one as the answers come
                        // in, so the store phase - all storing nodes at once, next to them - is the moment at
                        // which the vector is fullest)
                        let mut id = t;
                        id[19] ^= 1 + index[&sock] as u8;
                        list.push((id, SocketAddrV4::new(Ipv4Addr::new(10, 5 + index[&sock] as u8, t[0], t[1].max(1)), 6881)));
                    }
                }
                rd.push(("nodes", B::Bytes(nodes_bytes(&list))));
                if name != "find_node" && name != "ping" {
                    rd.push(("token", B::bytes(b"tokn")));
                }
            }
            w.raw_send(sock, &response(&q.t, B::dict(rd), Some(&d.from), Some(&VERSION_RS6)).encode(), d.from);
            true
        })));
    }
    let boots: Vec<SocketAddrV4> = ends.iter().map(|e| e.1).collect();
    // (a client-mode node never answers the ping it sends to itself to confirm its address: that request stays
    // in its in-flight vector for good; a server-mode node answers it)
    let x_server = rng.bool() || std::env::var("MLV_XSERVER").is_ok();
    let x = w.spawn(if x_server { NodeSpec::server(Ipv4Addr::new(10, 200, 0, 1), &boots) } else { NodeSpec::client(Ipv4Addr::new(10, 200, 0, 1), &boots) }).expect("x");
    w.block_on(x.adht.bootstrapped(), 120 * SEC);
    // warm-up: the late answers of these lookups raise the round-trip estimate
    for _ in 0..6 {
        let a = x.adht.clone();
        let t = Id::from(rng.array::<20>());
        w.block_on(async move { drop(a.get_closest_nodes(t).await) }, 120 * SEC);
        w.run_for(SEC);
    }
    let timeout = super::net::snapshot(&w, &x).map(|s| s.request_timeout.as_nanos() as u64).unwrap_or(0);
    r.count("slow_network_scenarios");
    if timeout <= 2 * lat_max + 20 * MS {
        // the estimate has not adapted far enough: acknowledgements would not be "in time" by the node's own clock
        r.count("slow_network/premise-unmet-timeout-below-round-trip");
        drop(x);
        return;
    }
    // token-bearing nodes of a warm-up lookup, handed to the puts below as extra storing nodes (with
    // repetition): the number of store requests that leave at once grows from put to put, through every size
    let a = x.adht.clone();
    let t = Id::from(rng.array::<20>());
    let pool: Vec<Node> = w.block_on(async move { a.get_closest_nodes(t).await }, 120 * SEC).map(|b| b.to_vec()).unwrap_or_default();
    let signer = SigningKey::from_bytes(&rng.array::<32>());
    let mut failed: Vec<Value> = vec![];
    let puts = 40;
    let log = super::net::log_exchanges(&w, x.addr);
    for k in 0..puts {
        let value = rng.blob(3, 40);
        let ih = Id::from(rng.array::<20>());
        let request = match (k + n) % 4 {
            0 => PutRequestSpecific::PutImmutable(PutImmutableRequestArguments { target: Id::from(immutable_target(&value)), v: value.clone().into_boxed_slice() }),
            1 => PutRequestSpecific::PutMutable(PutMutableRequestArguments::from(MutableItem::new(&signer, &value, k as i64, Some(&[k as u8])), None)),
            2 => PutRequestSpecific::AnnouncePeer(AnnouncePeerRequestArguments { info_hash: ih, port: 4000, implied_port: None }),
            _ => {
                let ts = w.unix_micros();
                let sg = super::srv::sign_announce(&signer, ih.as_bytes(), ts);
                PutRequestSpecific::AnnounceSignedPeer(AnnounceSignedPeerRequestArguments { info_hash: ih, t: ts, k: sg.k, sig: sg.sig })
            }
        };
        let before = *acks_sent.borrow();
        let mark = log.lock().unwrap_or_else(|e| e.into_inner()).len();
        let extras: Vec<Node> = if pool.is_empty() { vec![] } else { (0..k).map(|j| pool[j % pool.len()].clone()).collect() };
        let rx = put_raw(&x.dht, request, if extras.is_empty() { None } else { Some(extras.into_boxed_slice()) });
        // (the node's timeout moves with every answer it takes off the in-flight list - a run of similar round
        // trips shrinks the deviation term -, so it is read at every iteration of the node's loop during the put;
        // an acknowledgement counts if, by that timeline, its store request was never older than the timeout in
        // force until the acknowledgement was received)
        let mut task = Task::new(w.now(), async move { rx.recv_async().await });
        let (_, mut line) = super::net::run_until_sampling_timeout(&w, &x, 300 * SEC, |w| task.poll(w.now()));
        let res = task.result.take();
        // (the put may have returned before the last acknowledgement arrives: the timeline has to cover that moment)
        let last_answer = log.lock().unwrap_or_else(|e| e.into_inner())[mark..].iter().filter_map(|e| e.answered).max();
        if let Some(t_a) = last_answer {
            super::net::extend_sampling_until(&w, &x, t_a, &mut line);
        }
        let acked = *acks_sent.borrow() - before;
        let stores: Vec<super::net::Exchange> = log.lock().unwrap_or_else(|e| e.into_inner())[mark..].iter().filter(|e| matches!(e.name.as_str(), "put" | "announce_peer" | "announce_signed_peer")).cloned().collect();
        let in_time: Vec<&super::net::Exchange> = stores.iter().filter(|e| e.answered.map(|t_a| super::net::alive_until_answered(&line, e.sent, t_a)).unwrap_or(false)).collect();
        if std::env::var("MLV_DEBUG").is_ok() {
            let sn = super::net::snapshot(&w, &x);
            eprintln!("put {k}: acked={acked} in time by own clock={} result_ok={} inflight after={:?}", in_time.len(), matches!(res, Some(Ok(Ok(_)))), sn.map(|s| s.inflight));
        }
        r.count("slow_network/puts");
        if !in_time.is_empty() {
            r.count("slow_network/puts_acknowledged_within_the_adapted_timeout");
            if !matches!(res, Some(Ok(Ok(_)))) {
                let e = in_time[0];
                failed.push(json!({"put": k, "result": format!("{res:?}"), "acknowledgements_sent": acked, "acknowledgements_in_time_by_the_nodes_own_clock": in_time.len(), "round_trip_of_one_ms": (e.answered.unwrap_or(0) - e.sent) / MS, "smallest_request_timeout_meanwhile_ms": line.iter().filter(|(t, _)| *t >= e.sent && *t <= e.answered.unwrap_or(0)).map(|(_, to)| to / MS).min()}));
            }
        }
        w.run_for(rng.below(800) * MS);
    }
    r.nontrivial(mix(seed, n as u64));
    if !failed.is_empty() {
        r.violation("result/error-despite-ack/slow-network", "a store request of the put was acknowledged within the node's own (adapted) request timeout - read at every iteration of the node's loop -, yet the put did not return Ok", case.clone(), json!({"failed": failed, "request_timeout_after_warm_up_ms": timeout / MS}));
    }
    drop(x);
    for (thread, loc, msg) in crate::take_panics() {
        r.violation(&format!("panic/{}", loc.replace("/repo/", "")), &format!("thread {thread} panicked: {msg}"), case.clone(), json!({}));
    }
}

/// A lookup of the same target ends while a put is in its store phase. The storing nodes acknowledge every
/// write after 150..350 ms (inside the request timeout); as soon as the write requests are out, the application
/// runs find_node / get_closest_nodes / a read of the very target the put writes to - lookups whose answers
/// carry no write token (find_node) or that find nothing. Every storing node acknowledged in time: the put
/// must return Ok, whatever those lookups ended with.
pub fn lookup_during_store_scenario(r: &mut Report, seed: u64) {
    r.eval();
    let mut rng = Rng::new(seed);
    let w = World::with_cfg(seed, NetCfg { lat_min: MS, lat_max: 30 * MS, random_ties: true }, TraceLevel::Off);
    let n = 1 + rng.usize(8);
    let kind = rng.usize(4);
    let second = rng.usize(3);
    let second_name = ["find_node", "get_closest_nodes", "a read of the same target"][second];
    let ack_delay = (150 + rng.below(200)) * MS;
    let tokenless_later = rng.bool();
    let case = json!({"class":"lookup-during-store","tokenless_after_the_writes":tokenless_later,"seed":seed.to_string(),"endpoints":n,"put_kind":kind,"second_call":second_name,"ack_delay_ms":ack_delay / MS});
    let ends: Vec<([u8; 20], SocketAddrV4)> = (0..n).map(|i| (rng.array(), SocketAddrV4::new(Ipv4Addr::new(10, 6, 0, 1 + i as u8), 6881))).collect();
    let socks: Vec<SockId> = ends.iter().map(|e| w.raw(e.1)).collect();
    let index: HashMap<SockId, usize> = socks.iter().enumerate().map(|(i, s)| (*s, i)).collect();
    let writes_seen = Rc::new(RefCell::new(0u64));
    {
        let (ends2, ws) = (ends.clone(), writes_seen.clone());
        w.set_responder(Some(Box::new(move |w, sock, d| {
            let Some(q) = Krpc::parse(&d.bytes) else { return true };
            if q.y != b'q' {
                return true;
            }
            let me = ends2[index[&sock]].0;
            let name = q.q.clone().unwrap_or_default();
            let mut rd = vec![("id", B::bytes(&me))];
            if matches!(name.as_str(), "put" | "announce_peer" | "announce_signed_peer") {
                *ws.borrow_mut() += 1;
                w.raw_send_delayed(sock, &response(&q.t, B::dict(rd), Some(&d.from), Some(&VERSION_RS6)).encode(), d.from, ack_delay);
                return true;
            }
            rd.push(("nodes", B::Bytes(nodes_bytes(&ends2))));
            // once the writes are out, lookups are answered without a write token (in half of the worlds): the
            // lookup that ends during the store phase then has no node to write to - which is no business of the put
            if name != "find_node" && name != "ping" && !(tokenless_later && *ws.borrow() > 0) {
                rd.push(("token", B::bytes(b"tokn")));
            }
            w.raw_send(sock, &response(&q.t, B::dict(rd), Some(&d.from), Some(&VERSION_RS6)).encode(), d.from);
            true
        })));
    }
    let boots: Vec<SocketAddrV4> = ends.iter().map(|e| e.1).collect();
    let x = w.spawn(if rng.bool() { NodeSpec::server(Ipv4Addr::new(10, 6, 9, 9), &boots) } else { NodeSpec::client(Ipv4Addr::new(10, 6, 9, 9), &boots) }).expect("x");
    w.block_on(x.adht.bootstrapped(), 60 * SEC);
    let signer = SigningKey::from_bytes(&rng.array::<32>());
    let value = rng.blob(3, 40);
    let ih = Id::from(rng.array::<20>());
    let item = MutableItem::new(&signer, &value, 4, None);
    let (request, target) = match kind {
        0 => (PutRequestSpecific::PutImmutable(PutImmutableRequestArguments { target: Id::from(immutable_target(&value)), v: value.clone().into_boxed_slice() }), Id::from(immutable_target(&value))),
        1 => (PutRequestSpecific::PutMutable(PutMutableRequestArguments::from(item.clone(), None)), *item.target()),
        2 => (PutRequestSpecific::AnnouncePeer(AnnouncePeerRequestArguments { info_hash: ih, port: 4000, implied_port: None }), ih),
        _ => {
            let ts = w.unix_micros();
            let sg = super::srv::sign_announce(&signer, ih.as_bytes(), ts);
            (PutRequestSpecific::AnnounceSignedPeer(AnnounceSignedPeerRequestArguments { info_hash: ih, t: ts, k: sg.k, sig: sg.sig }), ih)
        }
    };
    let rx = put_raw(&x.dht, request, None);
    let mut put_task = Task::new(w.now(), async move { rx.recv_async().await });
    // until the write requests are out
    let ws = writes_seen.clone();
    let mut pt_done = false;
    w.run_until(30 * SEC, |w| {
        pt_done = put_task.poll(w.now());
        pt_done || *ws.borrow() > 0
    });
    r.count("lookup_during_store_scenarios");
    if pt_done || *writes_seen.borrow() == 0 {
        r.count("lookup_during_store/premise-unmet");
        drop(x);
        return;
    }
    let a = x.adht.clone();
    let key = signer.verifying_key().to_bytes();
    let second_done = match second {
        0 => w.block_on(async move { drop(a.find_node(target).await) }, 30 * SEC).is_some(),
        1 => w.block_on(async move { drop(a.get_closest_nodes(target).await) }, 30 * SEC).is_some(),
        _ => match kind {
            0 => w.block_on(async move { drop(a.get_immutable(target).await) }, 30 * SEC).is_some(),
            1 => w.block_on(async move { drop(a.get_mutable_most_recent(&key, None).await) }, 30 * SEC).is_some(),
            2 => w.block_on(async move { use futures_lite::StreamExt; drop(a.get_peers(target).collect::<Vec<_>>().await) }, 30 * SEC).is_some(),
            _ => w.block_on(async move { use futures_lite::StreamExt; drop(a.get_signed_peers(target).await.collect::<Vec<_>>().await) }, 30 * SEC).is_some(),
        },
    };
    let still_pending = !put_task.poll(w.now());
    let done = w.run_until(60 * SEC, |w| put_task.poll(w.now()));
    let res = put_task.result.take();
    if still_pending {
        r.count("lookup_during_store/second_call_ended_while_the_put_was_waiting_for_acknowledgements");
        r.nontrivial(mix(seed, (kind * 3 + second) as u64));
    }
    if !done || !second_done {
        r.violation(&format!("result/did-not-complete/lookup-during-store/{}", second_name.replace(' ', "-")), "the put or the call made during its store phase did not complete", case.clone(), json!({"put_completed": done, "second_completed": second_done}));
    } else if !matches!(res, Some(Ok(Ok(_)))) {
        r.violation(&format!("result/error-despite-ack/lookup-during-store/{}", second_name.replace(' ', "-")), "every storing node acknowledged the write within the request timeout, yet the put did not return Ok: a lookup of the same target ended in between", case.clone(), json!({"result": format!("{res:?}"), "write_requests_seen": *writes_seen.borrow(), "second_call_ended_before_the_put": still_pending}));
    }
    drop(x);
    for (thread, loc, msg) in crate::take_panics() {
        r.violation(&format!("panic/{}", loc.replace("/repo/", "")), &format!("thread {thread} panicked: {msg}"), case.clone(), json!({}));
    }
}

pub fn run(a: &Args) -> Report {
    let mut r = Report::new("C08");
    if let Some(path) = &a.replay {
        let v: Value = serde_json::from_str(&std::fs::read_to_string(path).unwrap_or_default()).unwrap_or_default();
        let c = &v["case"];
        if c["class"].as_str() == Some("lookup-during-store") {
            let seed = c["seed"].as_str().and_then(|s| s.parse().ok()).unwrap_or(1);
            super::guarded(&mut r, c.clone(), |r| lookup_during_store_scenario(r, seed));
            return r;
        }
        if c["class"].as_str() == Some("slow-network") {
            let seed = c["seed"].as_str().and_then(|s| s.parse().ok()).unwrap_or(1);
            super::guarded(&mut r, c.clone(), |r| slow_network_scenario(r, seed));
            return r;
        }
        if c["class"].as_str() == Some("late-replies-of-an-earlier-put") {
            let seed = c["seed"].as_str().and_then(|s| s.parse().ok()).unwrap_or(1);
            super::guarded(&mut r, c.clone(), |r| late_reply_scenario(r, seed));
            return r;
        }
        if c["class"].as_str() == Some("overlapping-puts-held") {
            let seed = c["seed"].as_str().and_then(|s| s.parse().ok()).unwrap_or(1);
            super::guarded(&mut r, c.clone(), |r| overlap_held_scenario(r, seed));
            return r;
        }
        if c["class"].as_str() == Some("held-by-a-serving-node") {
            let seed = c["seed"].as_str().and_then(|s| s.parse().ok()).unwrap_or(1);
            super::guarded(&mut r, c.clone(), |r| held_scenario(r, seed));
            return r;
        }
        let pf = |s: &str| FATES.iter().find(|f| format!("{f:?}") == s).copied().unwrap_or(Fate::Ack);
        let case = Case {
            seed: c["seed"].as_str().and_then(|s| s.parse().ok()).unwrap_or(1),
            kind: c["kind"].as_u64().unwrap_or(0) as usize,
            n: c["n"].as_u64().unwrap_or(3) as usize,
            fates: c["fates"].as_array().map(|l| l.iter().map(|x| pf(x.as_str().unwrap_or("Ack"))).collect()).unwrap_or_default(),
            tokenless: c["tokenless"].as_array().map(|l| l.iter().map(|x| x.as_bool().unwrap_or(false)).collect()).unwrap_or_default(),
            default_fate: pf(c["default_fate"].as_str().unwrap_or("Ack")),
            extra_rounds: c["extra_rounds"].as_u64().unwrap_or(0) as usize,
            tokenless_mode: c["tokenless_mode"].as_u64().unwrap_or(0) as u8,
        };
        super::guarded(&mut r, case_json(&case), |r| scenario(r, &case));
        return r;
    }
    let mut rng = Rng::new(mix(a.seed, 0xc08 + a.shard));
    let mut run_case = |r: &mut Report, case: Case| {
        super::guarded(r, case_json(&case), |r| scenario(r, &case));
        r.count("scenarios");
    };
    for _ in 0..(if a.quick() { 160 } else { 3200 }) / a.nshards.max(1) {
        let seed = rng.u64();
        super::guarded(&mut r, json!({"class":"held-by-a-serving-node","seed":seed.to_string()}), |r| held_scenario(r, seed));
        r.count("held_scenarios");
        let seed = rng.u64();
        super::guarded(&mut r, json!({"class":"overlapping-puts-held","seed":seed.to_string()}), |r| overlap_held_scenario(r, seed));
        for _ in 0..4 {
            let seed = rng.u64();
            super::guarded(&mut r, json!({"class":"lookup-during-store","seed":seed.to_string()}), |r| lookup_during_store_scenario(r, seed));
        }
        for _ in 0..2 {
            let seed = rng.u64();
            super::guarded(&mut r, json!({"class":"late-replies-of-an-earlier-put","seed":seed.to_string()}), |r| late_reply_scenario(r, seed));
        }
        let seed = rng.u64();
        super::guarded(&mut r, json!({"class":"slow-network","seed":seed.to_string()}), |r| slow_network_scenario(r, seed));
    }
    // exhaustive assignments for small replica sets
    let max_n = if a.quick() { 4 } else { 5 };
    let mut code = 0u64;
    for n in 1..=max_n {
        let total = (FATES.len() as u64).pow(n as u32);
        for assignment in 0..total {
            for kind in 0..4 {
                code += 1;
                if code % a.nshards.max(1) != a.shard {
                    continue;
                }
                let mut x = assignment;
                let fates: Vec<Fate> = (0..n).map(|_| { let f = FATES[(x % FATES.len() as u64) as usize]; x /= FATES.len() as u64; f }).collect();
                run_case(&mut r, Case { seed: mix(a.seed, code), kind, fates, tokenless: vec![], n, default_fate: Fate::Ack, extra_rounds: 0, tokenless_mode: 0 });
                r.count("exhaustive_assignments");
            }
        }
    }
    // sampled: up to 20 storing nodes with majority / minority splits, token-less answerers
    let samples = (if a.quick() { 640 } else { 16_000 }) / a.nshards.max(1);
    for _ in 0..samples {
        let n = 3 + rng.usize(22);
        let major = *rng.pick(&FATES);
        let minor = *rng.pick(&FATES);
        let split = match rng.usize(5) {
            0 => n / 2,
            1 => n / 2 + 1,
            2 => n.saturating_sub(1),
            3 => 1,
            _ => rng.usize(n + 1),
        };
        let mut fates: Vec<Fate> = (0..n).map(|i| if i < split { major } else { minor }).collect();
        rng.shuffle(&mut fates);
        let tokenless: Vec<bool> = (0..n).map(|_| rng.chance(1, 6)).collect();
        let tm = *rng.pick(&[0u8, 0, 1, 2]);
        let er = if tm == 1 { 2 } else { 0 };
        if tm != 0 {
            r.count("tokenless_variants");
        }
        run_case(&mut r, Case { seed: rng.u64(), kind: rng.usize(4), fates, tokenless, n, default_fate: Fate::Ack, extra_rounds: er, tokenless_mode: tm });
        r.count("sampled_splits");
    }
    // large replica sets through extra nodes: 254..520 targets
    let large: Vec<(usize, usize, Fate, Vec<Fate>)> = vec![
        (300, 40, Fate::Ack, vec![]),
        (300, 40, Fate::E301, vec![]),
        (300, 40, Fate::Lost, vec![Fate::Ack]),
        (300, 40, Fate::Ack, vec![Fate::E301; 140]),
        (520, 60, Fate::Ack, vec![]),
        (290, 45, Fate::Ack, vec![]),
    ];
    for (i, (n, rounds, default_fate, fates)) in large.into_iter().enumerate() {
        if (i as u64) % a.nshards.max(1) != a.shard % 6 || (a.shard >= 6 && a.nshards > 6) {
            continue;
        }
        if a.quick() && i >= 4 {
            continue;
        }
        for kind in [0usize, 1] {
            run_case(&mut r, Case { seed: mix(a.seed, 0x1a26e + i as u64), kind, fates: fates.clone(), tokenless: vec![], n, default_fate, extra_rounds: rounds, tokenless_mode: 0 });
            r.count("large_replica_sets");
        }
    }
    r
}

//! Substrate smoke test: N servers + clients, put/get of each kind in virtual time.
use crate::report::Report;
use crate::simnet::*;
use crate::Args;
use std::net::{Ipv4Addr, SocketAddrV4};

pub fn run(a: &Args) -> Report {
    let mut r = Report::new("smoke");
    let t0 = std::time::Instant::now();
    let w = World::new(a.seed);
    let n = 10;
    let mut nodes = vec![];
    let boot = SocketAddrV4::new(Ipv4Addr::new(10, 0, 0, 1), 6881);
    for i in 0..n {
        let ip = Ipv4Addr::new(10, 0, 0, 1 + i as u8);
        let bs: Vec<SocketAddrV4> = if i == 0 { vec![] } else { vec![boot] };
        let node = w.spawn(NodeSpec::server(ip, &bs)).expect("spawn");
        let ok = w.block_on(node.adht.bootstrapped(), 60 * SEC);
        r.notes.insert(format!("boot{i}"), serde_json::json!(ok));
        nodes.push(node);
    }
    let c = w.spawn(NodeSpec::client(Ipv4Addr::new(10, 0, 1, 1), &[boot])).expect("client");
    let t_start = w.now();
    let put = w.block_on(c.adht.put_immutable(b"hello world"), 60 * SEC);
    r.notes.insert("put".into(), serde_json::json!(format!("{put:?}")));
    let target = put.and_then(|p| p.ok());
    if let Some(t) = target {
        let got = w.block_on(nodes[3].adht.get_immutable(t), 60 * SEC);
        r.notes.insert("get".into(), serde_json::json!(format!("{got:?}")));
    }
    r.notes.insert("virtual_ms".into(), serde_json::json!((w.now() - t_start) / MS));
    w.run_for(20 * MIN);
    let tb = w.block_on(nodes[0].adht.to_bootstrap(), SEC);
    r.notes.insert("to_bootstrap_after_20min".into(), serde_json::json!(tb.map(|v| v.len())));
    r.notes.insert("steps".into(), serde_json::json!(w.steps()));
    r.notes.insert("wall_ms".into(), serde_json::json!(t0.elapsed().as_millis() as u64));
    r.notes.insert("panics".into(), serde_json::json!(crate::take_panics().len()));
    drop(nodes);
    drop(c);
    w.shutdown();
    r.notes.insert("wall_ms_total".into(), serde_json::json!(t0.elapsed().as_millis() as u64));
    r.eval();
    r
}

//! C04 — mutable items never roll back; seq / CAS rules (BEP44) at a storing node.
//! A reference register per target runs in lock-step with one real server driven over SimNet.
use super::srv::*;
use crate::krpc::*;
use crate::report::Report;
use crate::rng::{mix, Rng};
use crate::sha1::mutable_target;
use crate::Args;
use dht::ServerSettings;
use ed25519_dalek::SigningKey;
use serde_json::{json, Value};
use std::collections::{HashMap, HashSet};
use std::net::{Ipv4Addr, SocketAddrV4};

const VALUES: [&[u8]; 2] = [b"v-one", b"v-two!"];
const SALTS: [Option<&[u8]>; 2] = [None, Some(b"salty")];

#[derive(Clone, Debug, PartialEq, Eq, Hash)]
enum Sym {
    /// key index (within the history's key group), salt index, seq, value index, cas, writer
    /// claim: 0 = the request names the item's own target; 1 = the target of the same key under the other salt;
    /// 2 = a target that belongs to nothing (the item is validly signed in every case)
    Put { key: usize, salt: usize, seq: i64, val: usize, cas: Option<i64>, writer: usize, claim: u8 },
    Get { key: usize, salt: usize, filter: Option<i64> },
}

fn sym_json(s: &Sym) -> Value {
    match s {
        Sym::Put { key, salt, seq, val, cas, writer, claim } => json!({"op":"put","key":key,"salt":salt,"seq":seq,"value":val,"cas":cas,"writer":writer,"claim":claim}),
        Sym::Get { key, salt, filter } => json!({"op":"get","key":key,"salt":salt,"filter":filter}),
    }
}

struct KeySet {
    signer: SigningKey,
    /// [salt][seq 0..=3][val] -> signature material
    sigs: Vec<Vec<Vec<Signed>>>,
    targets: [[u8; 20]; 2],
}

fn keyset(rng: &mut Rng) -> KeySet {
    let signer = SigningKey::from_bytes(&rng.array::<32>());
    let k = signer.verifying_key().to_bytes();
    let sigs = SALTS.iter().map(|salt| (0..=3).map(|seq| VALUES.iter().map(|v| sign_mutable(&signer, seq, v, *salt)).collect()).collect()).collect();
    KeySet { targets: [mutable_target(&k, SALTS[0]), mutable_target(&k, SALTS[1])], signer, sigs }
}

#[derive(Clone, Debug, PartialEq)]
struct Item {
    seq: i64,
    v: Vec<u8>,
    sig: [u8; 64],
    k: [u8; 32],
}

struct Slot {
    item: Option<Item>,
    /// distinct other targets requested since this slot was last written or read
    others_since: HashSet<[u8; 20]>,
}

struct Model {
    slots: HashMap<[u8; 20], Slot>,
    capacity: usize,
    states_seen: HashSet<String>,
    rejected_puts: u64,
    foreign_target_puts: u64,
}

impl Model {
    fn touch(&mut self, target: [u8; 20]) {
        for (t, s) in self.slots.iter_mut() {
            if *t != target {
                s.others_since.insert(target);
            }
        }
        self.slots.entry(target).or_insert(Slot { item: None, others_since: HashSet::new() }).others_since.clear();
    }
    fn eviction_possible(&self, target: &[u8; 20]) -> bool {
        self.slots.get(target).map(|s| s.others_since.len() >= self.capacity).unwrap_or(false)
    }
    fn note_state(&mut self) {
        let mut v: Vec<String> = self.slots.iter().map(|(t, s)| format!("{}:{:?}", crate::bencode::hex(&t[..3]), s.item.as_ref().map(|i| (i.seq, i.v.len())))).collect();
        v.sort();
        self.states_seen.insert(v.join("|"));
    }
}

struct Ctx<'a> {
    fx: &'a Fixture,
    clients: Vec<Client>,
}

/// Execute one symbol against the server and judge the reply against the model.
/// Returns Some((signature, what, detail)) on a violation.
fn step(cx: &mut Ctx, ks: &[KeySet], m: &mut Model, sym: &Sym) -> Option<(String, String, Value)> {
    match sym {
        Sym::Put { key, salt, seq, val, cas, writer, claim } => {
            let ks = &ks[*key];
            let target = ks.targets[*salt];
            let sg = &ks.sigs[*salt][*seq as usize][*val];
            let v = VALUES[*val];
            let c = &mut cx.clients[*writer];
            // every writer holds a fresh token (fetched with a get on an unrelated target at start)
            let token = c.token.clone().map(|t| t.0).unwrap_or_default();
            let id = c.id;
            if *claim != 0 {
                // a validly signed item sent under a target that is not its own: whatever the node answers
                // (C03 judges that), no slot may change - a later get shows it. For the eviction premise the
                // claimed target counts as touched for every other slot.
                let mut claimed = if *claim == 1 { ks.targets[1 - *salt] } else { target };
                if *claim != 1 {
                    claimed[19] ^= 0x5a;
                }
                let _ = cx.fx.rpc(c, |t| q_put_mutable(t, &id, &token, &claimed, v, &sg.k, &sg.sig, *seq, SALTS[*salt], *cas));
                for (t, s) in m.slots.iter_mut() {
                    if *t != claimed {
                        s.others_since.insert(claimed);
                    }
                    if *t != target {
                        s.others_since.insert(target);
                    }
                }
                m.foreign_target_puts += 1;
                return None;
            }
            // the eviction premise must be evaluated before this request touches the slot
            let evictable = m.eviction_possible(&target);
            let reply = cx.fx.rpc(c, |t| q_put_mutable(t, &id, &token, &target, v, &sg.k, &sg.sig, *seq, SALTS[*salt], *cas));
            let stored = if evictable { None } else { m.slots.get(&target).and_then(|s| s.item.clone()) };
            let maybe_stored = m.slots.get(&target).and_then(|s| s.item.clone());
            m.touch(target);
            let new_item = Item { seq: *seq, v: v.to_vec(), sig: sg.sig, k: sg.k };
            // faults against what is certainly stored
            let mut must_reject: Vec<i128> = vec![];
            if let Some(s) = &stored {
                if let Some(c) = cas {
                    if *c != s.seq {
                        must_reject.push(301);
                    }
                }
                if *seq < s.seq {
                    must_reject.push(302);
                }
            }
            // faults that apply only if the possibly-evicted item is still there
            let mut may_reject: Vec<i128> = vec![];
            if evictable {
                if let Some(s) = &maybe_stored {
                    if let Some(c) = cas {
                        if *c != s.seq {
                            may_reject.push(301);
                        }
                    }
                    if *seq < s.seq {
                        may_reject.push(302);
                    }
                }
            }
            let same_seq_other_value = stored.as_ref().map(|s| s.seq == *seq && (s.v != new_item.v || s.sig != new_item.sig)).unwrap_or(false);
            match &reply {
                Reply::None => return Some(("put/no-reply".into(), "a valid-token put got no reply".into(), json!({}))),
                Reply::Resp(_) => {
                    if !must_reject.is_empty() {
                        let which = if must_reject.contains(&302) && must_reject.contains(&301) { "cas-and-seq" } else if must_reject.contains(&302) { "lower-seq" } else { "cas-mismatch" };
                        return Some((format!("put/accepted-must-reject/{which}"), format!("put acknowledged although it must be rejected with {must_reject:?}"), json!({"stored_seq": stored.map(|s| s.seq), "seq": seq, "cas": cas})));
                    }
                    // accepted: becomes the stored item (if an eviction was possible and a fault may
                    // have applied, acceptance proves the slot was empty)
                    m.slots.get_mut(&target).expect("slot").item = Some(new_item);
                }
                Reply::Err(code, _) => {
                    m.rejected_puts += 1;
                    let allowed: Vec<i128> = must_reject.iter().chain(may_reject.iter()).copied().collect();
                    if allowed.is_empty() {
                        if same_seq_other_value || (evictable && maybe_stored.as_ref().map(|s| s.seq == *seq).unwrap_or(false)) {
                            // accepted either way: equal seq with a different value
                        } else {
                            return Some((format!("put/rejected-must-accept/e{code}"), format!("a valid put (higher seq / identical item / empty slot, cas ok) was rejected with {code}"), json!({"stored_seq": stored.map(|s| s.seq), "seq": seq, "cas": cas})));
                        }
                    } else if !allowed.contains(code) {
                        return Some((format!("put/wrong-error-code/e{code}"), format!("rejected with {code}, expected one of {allowed:?}"), json!({"seq": seq, "cas": cas})));
                    }
                    // unchanged; but an error that only a surviving item explains proves it survived
                }
            }
            m.note_state();
            None
        }
        Sym::Get { key, salt, filter } => {
            let ks = &ks[*key];
            let target = ks.targets[*salt];
            let c = &mut cx.clients[0];
            let id = c.id;
            let evictable = m.eviction_possible(&target);
            let reply = cx.fx.rpc(c, |t| q_get(t, &id, &target, *filter));
            let stored = m.slots.get(&target).and_then(|s| s.item.clone());
            m.touch(target);
            let k = match &reply {
                Reply::Resp(k) => k.clone(),
                other => return Some(("get/no-response".into(), format!("get answered with {}", other.short()), json!({}))),
            };
            let (rv, rseq, rk, rsig) = (k.res_bytes("v"), k.res("seq").and_then(|s| s.as_int()), k.res_bytes("k"), k.res_bytes("sig"));
            if k.res_bytes("token").is_none() {
                return Some(("get/no-token".into(), "get response carries no write token".into(), json!({})));
            }
            match stored {
                None => {
                    if rv.is_some() || rseq.is_some() {
                        return Some(("get/value-from-empty-slot".into(), "get returned a value or seq although nothing is stored".into(), json!({"seq": rseq.map(|s| s.to_string())})));
                    }
                }
                Some(s) => {
                    if rv.is_none() && rseq.is_none() {
                        if evictable {
                            m.slots.get_mut(&target).expect("slot").item = None;
                        } else {
                            return Some(("get/lost-item".into(), "get returned no value although an item was accepted and no eviction was possible".into(), json!({"stored_seq": s.seq})));
                        }
                    } else if filter.map(|f| s.seq <= f).unwrap_or(false) {
                        if rv.is_some() {
                            return Some(("get/filter-ignored".into(), "seq filter at or above the stored seq, but the value was returned".into(), json!({"stored_seq": s.seq, "filter": filter})));
                        }
                        if rseq != Some(s.seq as i128) {
                            return Some(("get/seq-only-wrong-seq".into(), "seq-only reply does not report the stored seq".into(), json!({"stored_seq": s.seq, "reply_seq": rseq.map(|x| x.to_string()), "filter": filter})));
                        }
                    } else {
                        let exact = rv == Some(&s.v[..]) && rseq == Some(s.seq as i128) && rk == Some(&s.k[..]) && rsig == Some(&s.sig[..]);
                        if !exact {
                            let what = if rseq.map(|x| x < s.seq as i128).unwrap_or(false) { "rollback" } else if rv.is_none() { "value-withheld" } else { "other-item" };
                            return Some((format!("get/not-last-accepted/{what}"), "get did not return exactly the last accepted item".into(), json!({"stored_seq": s.seq, "reply_seq": rseq.map(|x| x.to_string()), "filter": filter, "v_matches": rv == Some(&s.v[..])})));
                        }
                    }
                }
            }
            None
        }
    }
}

fn alphabet_one_target() -> Vec<Sym> {
    let mut a = vec![];
    for seq in 0..=2 {
        for val in 0..2 {
            for cas in [None, Some(0), Some(1), Some(2)] {
                a.push(Sym::Put { key: 0, salt: 0, seq, val, cas, writer: 0, claim: 0 });
            }
        }
    }
    // older / cas-mismatching items of the same key sent under a foreign target
    a.push(Sym::Put { key: 0, salt: 0, seq: 0, val: 0, cas: None, writer: 0, claim: 2 });
    a.push(Sym::Put { key: 0, salt: 0, seq: 1, val: 1, cas: Some(0), writer: 0, claim: 1 });
    for filter in [None, Some(0), Some(1), Some(2)] {
        a.push(Sym::Get { key: 0, salt: 0, filter });
    }
    a
}

fn alphabet_two_targets() -> Vec<Sym> {
    // same key with and without salt, two writers, seq 1..2
    let mut a = vec![];
    for salt in 0..2 {
        for seq in 1..=2 {
            for (cas, writer) in [(None, 0), (Some(1), 1), (Some(2), 0)] {
                a.push(Sym::Put { key: 0, salt, seq, val: (seq as usize + salt) % 2, cas, writer, claim: 0 });
            }
        }
        for filter in [None, Some(1)] {
            a.push(Sym::Get { key: 0, salt, filter });
        }
    }
    a
}

fn random_sym(rng: &mut Rng, keys: usize) -> Sym {
    if rng.chance(1, 3) {
        Sym::Get { key: rng.usize(keys), salt: rng.usize(2), filter: *rng.pick(&[None, None, Some(0), Some(1), Some(2), Some(3)]) }
    } else {
        Sym::Put { key: rng.usize(keys), salt: rng.usize(2), seq: rng.usize(4) as i64, val: rng.usize(2), cas: *rng.pick(&[None, None, Some(0), Some(1), Some(2), Some(3)]), writer: rng.usize(2), claim: if rng.chance(1, 8) { 1 + rng.usize(2) as u8 } else { 0 } }
    }
}

struct Env {
    fx: Fixture,
    clients: Vec<Client>,
    capacity: usize,
}

fn new_env(seed: u64, capacity: Option<usize>) -> Env {
    new_env2(seed, capacity, false)
}

/// `tiny_immutable`: the limit of the OTHER value store is 1 (the mutable store keeps its own limit)
fn new_env2(seed: u64, capacity: Option<usize>, tiny_immutable: bool) -> Env {
    let mut settings = capacity.map(|c| ServerSettings { max_mutable_values: c, ..Default::default() });
    if tiny_immutable {
        let mut st = settings.unwrap_or_default();
        st.max_immutable_values = 1;
        settings = Some(st);
    }
    let fx = Fixture::new(seed, settings);
    let mut clients = vec![
        fx.client(SocketAddrV4::new(Ipv4Addr::new(99, 1, 1, 1), 7001), [0xa1; 20]),
        fx.client(SocketAddrV4::new(Ipv4Addr::new(99, 2, 2, 2), 7002), [0xb2; 20]),
    ];
    for c in clients.iter_mut() {
        let id = c.id;
        fx.rpc(c, |t| q_get_peers(t, &id, &[0x55; 20], false));
    }
    Env { fx, clients, capacity: capacity.unwrap_or(1000) }
}

fn run_history(r: &mut Report, env: &mut Env, ks: &[KeySet], hist: &[Sym], class: &str, case_extra: Value) -> bool {
    r.eval();
    let mut m = Model { slots: HashMap::new(), capacity: env.capacity, states_seen: HashSet::new(), rejected_puts: 0, foreign_target_puts: 0 };
    let mut cx = Ctx { fx: &env.fx, clients: std::mem::take(&mut env.clients) };
    let mut ok = true;
    for (i, s) in hist.iter().enumerate() {
        if let Some((sig, what, detail)) = step(&mut cx, ks, &mut m, s) {
            let case = json!({"class": class, "capacity": env.capacity, "history": hist[..=i].iter().map(sym_json).collect::<Vec<_>>(), "extra": case_extra});
            r.violation(&sig, &what, case, detail);
            ok = false;
            break;
        }
    }
    env.clients = cx.clients;
    r.add("requests", hist.len() as u64);
    if m.states_seen.len() >= 2 && m.rejected_puts >= 1 {
        let h = hist.iter().fold(mix(0xc04, env.capacity as u64), |h, s| mix(h, crate::rng::fnv(format!("{s:?}").as_bytes())));
        r.nontrivial(h);
    }
    if m.rejected_puts > 0 {
        r.count("histories_with_rejected_put");
    }
    r.add("puts_under_a_foreign_target", m.foreign_target_puts);
    if r.want_sample() && m.states_seen.len() >= 3 && m.rejected_puts >= 1 {
        r.sample(json!({"class": class, "capacity": env.capacity, "history": hist.iter().map(sym_json).collect::<Vec<_>>(), "model_states": m.states_seen.len(), "rejected_puts": m.rejected_puts}));
    }
    ok
}

pub fn run(a: &Args) -> Report {
    let mut r = Report::new("C04");
    let mut rng = Rng::new(mix(a.seed, 0xc04 + a.shard));
    if let Some(path) = &a.replay {
        return replay(path, a);
    }
    // === exhaustive histories over sub-alphabets (fresh key per history, fresh server every 64) ===
    let plans: Vec<(&str, Vec<Sym>, usize)> = vec![
        ("exhaustive/one-target", alphabet_one_target(), if a.quick() { 3 } else { 4 }),
        ("exhaustive/two-targets-two-writers", alphabet_two_targets(), if a.quick() { 3 } else { 4 }),
    ];
    for (class, alpha, depth) in plans {
        let n = alpha.len();
        let total = (n as u64).pow(depth as u32);
        let mut env_slot: Option<Env> = None;
        let mut keys: Vec<KeySet> = Vec::new();
        let mut used = 0;
        let mut code = a.shard;
        while code < total {
            if used % 64 == 0 {
                if let Some(old) = env_slot.take() {
                    report_panics(&mut r, old.fx.finish(), class);
                }
                env_slot = Some(new_env(mix(a.seed, used as u64 + 1), None));
                keys = (0..64).map(|_| keyset(&mut rng)).collect();
            }
            let env = env_slot.as_mut().expect("env");
            let mut c = code;
            let mut hist = Vec::with_capacity(depth);
            for _ in 0..depth {
                hist.push(alpha[(c % n as u64) as usize].clone());
                c /= n as u64;
            }
            run_history(&mut r, env, &keys[used % 64..used % 64 + 1], &hist, class, json!({"code": code, "depth": depth}));
            used += 1;
            code += a.nshards.max(1);
        }
        if let Some(old) = env_slot.take() {
            report_panics(&mut r, old.fx.finish(), class);
        }
        r.add(&format!("{class}/histories"), used as u64);
        r.notes.insert(format!("{class}/space"), json!(format!("{n}^{depth} = {total} histories, all enumerated across shards")));
    }
    // === random histories, capacities default / 1 / 2 ===
    let n_random = (if a.quick() { 12_800 } else { 48_000 }) / a.nshards.max(1);
    for i in 0..n_random {
        let cap = *rng.pick(&[None, Some(1), Some(2), Some(2)]);
        let tiny_immutable = rng.chance(1, 4);
        if tiny_immutable && cap.is_none() {
            r.count("default_capacity_histories_next_to_an_immutable_limit_of_1");
        }
        let mut env = new_env2(mix(a.seed, 0x99 + i), cap, tiny_immutable);
        let nkeys = 1 + rng.usize(3);
        let keys: Vec<KeySet> = (0..nkeys).map(|_| keyset(&mut rng)).collect();
        let len = 8 + rng.usize(33);
        let hist: Vec<Sym> = (0..len).map(|_| random_sym(&mut rng, nkeys)).collect();
        let hseed = rng.u64();
        run_history(&mut r, &mut env, &keys, &hist, "random", json!({"hseed": hseed}));
        if cap.is_some() {
            r.count("small_capacity_histories");
        }
        report_panics(&mut r, env.fx.finish(), "random");
    }
    r
}

fn report_panics(r: &mut Report, panics: Vec<(String, String, String)>, class: &str) {
    for (thread, loc, msg) in panics {
        r.violation(&format!("server-panic/{loc}"), &format!("server thread panicked: {msg}"), json!({"class": class, "thread": thread}), json!({}));
    }
}

fn parse_sym(v: &Value) -> Option<Sym> {
    let oi = |x: &Value| x.as_i64();
    match v["op"].as_str()? {
        "put" => Some(Sym::Put { key: v["key"].as_u64()? as usize, salt: v["salt"].as_u64()? as usize, seq: v["seq"].as_i64()?, val: v["value"].as_u64()? as usize, cas: oi(&v["cas"]), writer: v["writer"].as_u64()? as usize, claim: v["claim"].as_u64().unwrap_or(0) as u8 }),
        "get" => Some(Sym::Get { key: v["key"].as_u64()? as usize, salt: v["salt"].as_u64()? as usize, filter: oi(&v["filter"]) }),
        _ => None,
    }
}

fn replay(path: &str, a: &Args) -> Report {
    let mut r = Report::new("C04");
    let v: Value = serde_json::from_str(&std::fs::read_to_string(path).unwrap_or_default()).unwrap_or_default();
    let hist: Vec<Sym> = v["case"]["history"].as_array().map(|h| h.iter().filter_map(parse_sym).collect()).unwrap_or_default();
    let cap = v["case"]["capacity"].as_u64().map(|c| c as usize).filter(|c| *c < 1000);
    let mut rng = Rng::new(a.seed);
    let keys: Vec<KeySet> = (0..4).map(|_| keyset(&mut rng)).collect();
    let mut env = new_env(a.seed, cap);
    run_history(&mut r, &mut env, &keys, &hist, "replay", json!({}));
    report_panics(&mut r, env.fx.finish(), "replay");
    r
}

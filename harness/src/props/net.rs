//! Whole-network scenario helpers on top of SimNet: building networks, trace analysis.
use crate::krpc::Krpc;
use crate::rng::Rng;
use crate::simnet::*;
use std::collections::{HashMap, HashSet};
use std::future::Future;
use std::net::{Ipv4Addr, SocketAddrV4};

#[derive(Clone, Copy, Debug, PartialEq, Eq)]
pub enum IpPlan {
    Public,
    Private,
    Mixed,
    /// public IPs, every node built with `public_ip` (BEP42-secure ids from the start)
    PublicSecure,
}

pub fn plan_ip(plan: IpPlan, i: usize, rng: &mut Rng) -> (Ipv4Addr, Option<Ipv4Addr>) {
    let public = || Ipv4Addr::new(20 + (i / 60000) as u8, (i / 250 % 250) as u8 + 1, (i % 250) as u8 + 1, 7);
    match plan {
        IpPlan::Public => (public(), None),
        IpPlan::Private => (Ipv4Addr::new(10, (i / 250) as u8, (i % 250) as u8 + 1, 1), None),
        IpPlan::Mixed => {
            if rng.bool() {
                (public(), if rng.bool() { Some(public()) } else { None })
            } else {
                (Ipv4Addr::new(10, (i / 250) as u8, (i % 250) as u8 + 1, 1), None)
            }
        }
        IpPlan::PublicSecure => (public(), Some(public())),
    }
}

pub struct Net {
    pub nodes: Vec<Node>,
    /// index -> is server
    pub server: Vec<bool>,
    pub boot: SocketAddrV4,
}

/// Like `join_all`, but call `i` is only created (and so only reaches the actor) at virtual time `starts[i]`.
pub fn staggered<T: 'static>(w: &World, starts: &[u64], make: impl Fn(usize) -> std::pin::Pin<Box<dyn Future<Output = T>>>, max: u64) -> Vec<Option<T>> {
    let mut tasks: Vec<Option<Task<T>>> = (0..starts.len()).map(|_| None).collect();
    let end_all = starts.iter().copied().max().unwrap_or(0).max(w.now()).saturating_add(max);
    loop {
        let now = w.now();
        for j in 0..starts.len() {
            if tasks[j].is_none() && now >= starts[j] {
                tasks[j] = Some(Task::new(now, make(j)));
            }
        }
        let mut all = true;
        for tk in tasks.iter_mut() {
            match tk {
                Some(tk) => {
                    if !tk.poll(now) {
                        all = false;
                    }
                }
                None => all = false,
            }
        }
        if all || now >= end_all {
            break;
        }
        let next_start = (0..starts.len()).filter(|j| tasks[*j].is_none()).map(|j| starts[j]).min().unwrap_or(end_all);
        match w.step_until(next_start.max(now + 1).min(end_all)) {
            Step::Stuck => break,
            Step::Idle => {
                w.run_to(next_start.min(end_all));
            }
            _ => {}
        }
    }
    tasks.into_iter().map(|t| t.and_then(|t| t.result)).collect()
}

/// Run several futures to completion concurrently (polling after every step).
pub fn join_all<T: 'static>(w: &World, futs: Vec<std::pin::Pin<Box<dyn Future<Output = T>>>>, max: u64) -> Vec<Option<T>> {
    let now = w.now();
    let mut tasks: Vec<Task<T>> = futs.into_iter().map(|f| Task::new(now, f)).collect();
    let end = now.saturating_add(max);
    loop {
        let now = w.now();
        let mut all = true;
        for t in tasks.iter_mut() {
            if !t.poll(now) {
                all = false;
            }
        }
        if all {
            break;
        }
        match w.step_until(end) {
            Step::Idle | Step::Stuck => {
                let now = w.now();
                for t in tasks.iter_mut() {
                    t.poll(now);
                }
                break;
            }
            _ => {}
        }
    }
    tasks.into_iter().map(|t| t.result).collect()
}

/// servers then clients; node 0 is the first node (no bootstrap list).
pub fn build_net(w: &World, servers: usize, clients: usize, plan: IpPlan, simultaneous: bool, rng: &mut Rng) -> Net {
    let mut nodes: Vec<Node> = Vec::new();
    let mut server = Vec::new();
    let mut boot = SocketAddrV4::new(Ipv4Addr::UNSPECIFIED, 0);
    for i in 0..servers + clients {
        let (ip, public_ip) = plan_ip(plan, i, rng);
        let is_server = i < servers;
        let bs: Vec<SocketAddrV4> = if i == 0 { vec![] } else { vec![boot] };
        let mut spec = if is_server { NodeSpec::server(ip, &bs) } else { NodeSpec::client(ip, &bs) };
        spec.public_ip = public_ip;
        let n = w.spawn(spec).expect("spawn");
        if i == 0 {
            boot = n.addr;
        }
        if !simultaneous && i > 0 {
            w.block_on(n.adht.bootstrapped(), 120 * SEC);
        }
        nodes.push(n);
        server.push(is_server);
    }
    if simultaneous {
        let futs: Vec<std::pin::Pin<Box<dyn Future<Output = bool>>>> = nodes
            .iter()
            .skip(1)
            .map(|n| {
                let a = n.adht.clone();
                Box::pin(async move { a.bootstrapped().await }) as std::pin::Pin<Box<dyn Future<Output = bool>>>
            })
            .collect();
        join_all(w, futs, 180 * SEC);
    }
    Net { nodes, server, boot }
}

/// Parsed view of one datagram event.
pub struct Msg {
    pub t: u64,
    pub seq: u64,
    pub from: SocketAddrV4,
    pub to: SocketAddrV4,
    pub k: Krpc,
    pub delivered: bool,
}

/// Decode the trace: one entry per Send (with `delivered` = a Deliver for it exists) and one per Deliver.
pub fn sends_and_delivers(trace: &[Ev]) -> (Vec<Msg>, Vec<Msg>) {
    let delivered: HashSet<u64> = trace.iter().filter_map(|e| if let Ev::Deliver { seq, .. } = e { Some(*seq) } else { None }).collect();
    let mut sends = vec![];
    let mut delivers = vec![];
    for e in trace {
        match e {
            Ev::Send { t, seq, from, to, bytes, .. } => {
                if let Some(k) = Krpc::parse(bytes) {
                    sends.push(Msg { t: *t, seq: *seq, from: *from, to: *to, k, delivered: delivered.contains(seq) });
                }
            }
            Ev::Deliver { t, seq, to, from, bytes } => {
                if let Some(k) = Krpc::parse(bytes) {
                    delivers.push(Msg { t: *t, seq: *seq, from: *from, to: *to, k, delivered: true });
                }
            }
            _ => {}
        }
    }
    (sends, delivers)
}

/// For requests sent by `who` matching `pred`: map (to, tid) -> send time.
pub fn requests_of(sends: &[Msg], who: SocketAddrV4, pred: impl Fn(&Krpc) -> bool) -> HashMap<(SocketAddrV4, Vec<u8>), u64> {
    sends.iter().filter(|m| m.from == who && m.k.y == b'q' && pred(&m.k)).map(|m| ((m.to, m.k.t.clone()), m.t)).collect()
}

/// State snapshot of a node through the verification hook (answered at its next loop iteration).
pub fn snapshot(w: &World, node: &Node) -> Option<dht::verif::Snapshot> {
    let rx = dht::verif::snapshot(&node.dht);
    let mut got = None;
    w.run_until(2 * SEC, |_| {
        if let Ok(s) = rx.try_recv() {
            got = Some(s);
            true
        } else {
            false
        }
    });
    got
}

/// Run the world until `pred` holds (or `max` virtual time passed) while reading the node's adaptive request
/// timeout through the snapshot hook at EVERY iteration of the node's loop (a snapshot request is always
/// queued; the loop answers one per iteration, before it receives that iteration's datagram). The timeout only
/// changes when an answer is taken off the in-flight list, once per iteration at most, so the returned
/// timeline (virtual time of the iteration, timeout in force during it) is every value the node used.
pub fn run_until_sampling_timeout(w: &World, node: &Node, max: u64, mut pred: impl FnMut(&World) -> bool) -> (bool, Vec<(u64, u64)>) {
    let end = w.now() + max;
    let mut rx = dht::verif::snapshot(&node.dht);
    let mut line: Vec<(u64, u64)> = vec![];
    let mut ok = false;
    loop {
        if pred(w) {
            ok = true;
            break;
        }
        match w.step_until(end) {
            Step::Idle | Step::Stuck => {
                ok = pred(w);
                break;
            }
            _ => {}
        }
        if let Ok(s) = rx.try_recv() {
            line.push((w.now(), s.request_timeout.as_nanos() as u64));
            rx = dht::verif::snapshot(&node.dht);
        }
    }
    (ok, line)
}

/// Requests of one node and the answers to them, as they leave (fault hook): (transaction id, destination,
/// query name, target, time sent, time the answer reaches the node).
#[derive(Clone, Debug)]
pub struct Exchange {
    pub tid: Vec<u8>,
    pub to: SocketAddrV4,
    pub name: String,
    pub target: Option<[u8; 20]>,
    pub sent: u64,
    pub answered: Option<u64>,
}
pub type ExchangeLog = std::sync::Arc<std::sync::Mutex<Vec<Exchange>>>;
pub fn log_exchanges(w: &World, who: SocketAddrV4) -> ExchangeLog {
    let log: ExchangeLog = Default::default();
    let l2 = log.clone();
    w.set_fault(Some(Box::new(move |info: &SendInfo| {
        if let Some(k) = Krpc::parse(info.bytes) {
            let mut l = l2.lock().unwrap_or_else(|e| e.into_inner());
            if info.from == who && k.y == b'q' {
                l.push(Exchange { tid: k.t.clone(), to: info.to, name: k.q.clone().unwrap_or_default(), target: k.target(), sent: info.now, answered: None });
            } else if info.to == who && k.y != b'q' {
                if let Some(e) = l.iter_mut().rev().find(|e| e.tid == k.t && e.to == info.from && e.answered.is_none()) {
                    e.answered = Some(info.now + info.latency);
                }
            }
        }
        None
    })));
    log
}

/// By the node's own clock: the request sent at `sent` was never older than the timeout in force, at any
/// iteration of the node's loop up to and including the one that received its answer at `answered`.
pub fn alive_until_answered(line: &[(u64, u64)], sent: u64, answered: u64) -> bool {
    line.iter().filter(|(t, _)| *t >= sent && *t <= answered).all(|(t, timeout)| t - sent + MS < *timeout) && line.iter().any(|(t, _)| *t == answered)
}

/// A blocking (sync API) call made on a helper thread reaches the node's actor channel at some REAL time after
/// the thread was spawned; virtual time must not run ahead of that (an idle world covers virtual minutes in
/// real milliseconds, and the shard's threads share one CPU). Waits - in real time, the world only serving
/// snapshot requests - until the actor knows at least `want` waiting callers / running queries, or the call has
/// already returned, or the node is gone. False = not seen within 20 real seconds (the run is inconclusive).
pub fn wait_until_call_registered(w: &World, node: &Node, want: impl Fn() -> usize, finished: impl Fn() -> bool) -> bool {
    let t0 = std::time::Instant::now();
    loop {
        if finished() {
            return true;
        }
        match snapshot(w, node) {
            None => return true,
            Some(s) => {
                if s.get_senders.1 + s.put_senders.1 >= want() {
                    return true;
                }
            }
        }
        if t0.elapsed() > std::time::Duration::from_secs(20) {
            return false;
        }
        std::thread::sleep(std::time::Duration::from_micros(200));
    }
}

/// Keep reading the node's request timeout (see `run_until_sampling_timeout`) until virtual time `t_abs`: a
/// call may have returned before an answer it was still entitled to arrives, and whether the node was entitled
/// to give up is exactly what the timeline decides.
pub fn extend_sampling_until(w: &World, node: &Node, t_abs: u64, line: &mut Vec<(u64, u64)>) {
    if w.now() > t_abs {
        return;
    }
    let (_, more) = run_until_sampling_timeout(w, node, (t_abs - w.now()) + 2 * MS, |w| w.now() > t_abs);
    line.extend(more);
}

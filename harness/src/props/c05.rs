//! C05 — no datagram can crash a node or an API caller.
//! (i) decoder in process under catch_unwind on the structured corpus; (ii) the same corpus fired at
//! live server- and client-mode nodes in SimNet, followed by liveness probes; (iii) hostile replies
//! (right transaction id, right address) to the node's own in-flight lookups and puts, with the API
//! calls polled under catch_unwind (async) or run in joined helper threads (sync).
use crate::bencode::{hex, B};
use crate::corpus::*;
use crate::krpc::*;
use crate::props::c10::{gen_message, ref_encode};
use crate::report::Report;
use crate::rng::{fnv, mix, Rng};
use crate::simnet::*;
use crate::Args;
use dht::verif::WireMessage;
use dht::{Id, MutableItem, SigningKey};
use serde_json::{json, Value};
use std::cell::RefCell;
use std::net::{Ipv4Addr, SocketAddrV4};
use std::panic::{catch_unwind, AssertUnwindSafe};
use std::rc::Rc;

fn last_panic_loc() -> String {
    let p = crate::take_panics();
    p.last().map(|(_, loc, _)| loc.replace("/repo/", "")).unwrap_or_else(|| "unknown".into())
}

pub fn decode_one(r: &mut Report, bytes: &[u8], class: &str) {
    r.eval();
    let res = catch_unwind(AssertUnwindSafe(|| WireMessage::decode(bytes)));
    match res {
        Err(_) => {
            let loc = last_panic_loc();
            r.violation(&format!("decode/panic/{loc}"), "Message::from_bytes panicked", json!({"class": class, "datagram_hex": hex(bytes)}), json!({"ascii": String::from_utf8_lossy(bytes).chars().take(300).collect::<String>()}));
        }
        Ok(Ok(m)) => {
            r.count("decoded_ok");
            // a decoded message must also survive re-encoding
            if catch_unwind(AssertUnwindSafe(|| m.encode())).is_err() {
                let loc = last_panic_loc();
                r.violation(&format!("encode/panic/{loc}"), "re-encoding a decoded message panicked", json!({"class": class, "datagram_hex": hex(bytes)}), json!({}));
            }
        }
        Ok(Err(_)) => r.count("decode_rejected"),
    }
    // non-trivial: valid bencode dictionary with a `y` key, i.e. it reaches typed conversion
    if let Some((b, _)) = crate::bencode::parse(bytes) {
        if b.get("y").is_some() {
            r.nontrivial(fnv(bytes));
            r.count("reached_typed_conversion");
        }
    }
}

fn decoder_part(r: &mut Report, a: &Args, tid: usize, threads: usize) {
    let mut rng = Rng::new(mix(a.seed, 0xc05 + tid as u64));
    let per_kind = if a.quick() { 10 } else { 40 };
    let temps = templates(&mut rng, per_kind);
    let mut sample_taken = 0;
    for (i, t) in temps.iter().enumerate() {
        if i % threads != tid {
            continue;
        }
        let mut v = Vec::new();
        structured(t, &mut rng, &mut v);
        let base = t.encode();
        raw_variants(&base, &mut v);
        for d in &v {
            decode_one(r, d, "structured");
        }
        r.add("structured_datagrams", v.len() as u64);
        if sample_taken < 2 && r.want_sample() && v.len() > 40 {
            r.sample(json!({"kind":"structured", "template": String::from_utf8_lossy(&base).chars().take(200).collect::<String>(), "variants": v.len(), "one_variant": String::from_utf8_lossy(&v[37]).chars().take(200).collect::<String>()}));
            sample_taken += 1;
        }
    }
    let encs: Vec<Vec<u8>> = temps.iter().map(|t| t.encode()).collect();
    let n_random = (if a.quick() { 6_000_000 } else { 100_000_000 }) / threads;
    for i in 0..n_random {
        let d = if i % 5 == 0 { grammar(&mut rng, 0).encode() } else { { let (i, j) = (rng.usize(encs.len()), rng.usize(encs.len())); mutate(&encs[i], &encs[j], &mut rng) } };
        decode_one(r, &d, "random");
    }
    r.add("random_datagrams", n_random as u64);
}

// === live nodes ===

struct Live {
    w: World,
    v: Node,
    vc: Node,
    h1: Node,
    cannon: SockId,
    probe: SockId,
}

fn live_world(seed: u64) -> Live {
    let w = World::with_cfg(seed, NetCfg { lat_min: MS, lat_max: 20 * MS, random_ties: true }, TraceLevel::Off);
    let v = w.spawn(NodeSpec::server(Ipv4Addr::new(31, 0, 0, 1), &[])).expect("v");
    let h1 = w.spawn(NodeSpec::server(Ipv4Addr::new(31, 0, 0, 2), &[v.addr])).expect("h1");
    w.block_on(h1.adht.bootstrapped(), 30 * SEC);
    let vc = w.spawn(NodeSpec::client(Ipv4Addr::new(31, 0, 0, 3), &[v.addr, h1.addr])).expect("vc");
    w.block_on(vc.adht.bootstrapped(), 30 * SEC);
    let cannon = w.raw(SocketAddrV4::new(Ipv4Addr::new(66, 6, 6, 6), 666));
    let probe = w.raw(SocketAddrV4::new(Ipv4Addr::new(67, 7, 7, 7), 777));
    Live { w, v, vc, h1, cannon, probe }
}

/// Returns Some(description) if a liveness probe failed.
fn liveness(l: &Live, rng: &mut Rng) -> Option<String> {
    for (name, n) in [("server", &l.v), ("client", &l.vc), ("honest-peer", &l.h1)] {
        if let Some(p) = l.w.closed(n.sock) {
            return Some(format!("{name} actor thread exited (panicked={p})"));
        }
    }
    // server answers a ping
    while l.w.raw_recv(l.probe).is_some() {}
    let t = rng.u32().to_be_bytes();
    l.w.raw_send(l.probe, &q_ping(&t, &[1; 20]), l.v.addr);
    let probe = l.probe;
    let ok = l.w.run_until(2 * SEC, |w| {
        while let Some((_, d)) = w.raw_recv(probe) {
            if Krpc::parse(&d.bytes).map(|k| k.t == t && k.y == b'r').unwrap_or(false) {
                return true;
            }
        }
        false
    });
    if !ok {
        return Some("server did not answer a ping within 2 s".into());
    }
    for (name, n) in [("server", &l.v), ("client", &l.vc)] {
        if l.w.block_on(n.adht.info(), 2 * SEC).is_none() {
            return Some(format!("{name}: info() did not complete"));
        }
    }
    // a fresh put on the client and a get on the honest peer complete
    let value = rng.bytes(16);
    let put = catch_unwind(AssertUnwindSafe(|| l.w.block_on(l.vc.adht.put_immutable(&value), 60 * SEC)));
    match put {
        Err(_) => return Some(format!("put_immutable panicked at {}", last_panic_loc())),
        Ok(None) => return Some("client: put_immutable did not complete within 60 s".into()),
        Ok(Some(Err(e))) => return Some(format!("client: put_immutable failed after the injection: {e:?}")),
        Ok(Some(Ok(target))) => match l.w.block_on(l.h1.adht.get_immutable(target), 60 * SEC) {
            None => return Some("peer: get_immutable did not complete within 60 s".into()),
            Some(None) => return Some("peer: value stored after the injection was not found".into()),
            Some(Some(_)) => {}
        },
    }
    None
}

fn live_inject_part(r: &mut Report, a: &Args) {
    let mut rng = Rng::new(mix(a.seed, 0x11fe + a.shard));
    let temps = templates(&mut rng, 2);
    let encs: Vec<Vec<u8>> = temps.iter().map(|t| t.encode()).collect();
    let batches = if a.quick() { 40 } else { 600 };
    let batch_len = 250;
    let mut live = live_world(mix(a.seed, a.shard));
    for b in 0..batches {
        r.eval();
        let mut batch: Vec<Vec<u8>> = Vec::with_capacity(batch_len);
        // structured variants of one template + random mutations
        let t = &temps[(b * 7 + a.shard as usize) % temps.len()];
        let mut sv = Vec::new();
        structured(t, &mut rng, &mut sv);
        rng.shuffle(&mut sv);
        batch.extend(sv.into_iter().take(batch_len / 2));
        while batch.len() < batch_len {
            batch.push({ let (i, j) = (rng.usize(encs.len()), rng.usize(encs.len())); mutate(&encs[i], &encs[j], &mut rng) });
        }
        for (i, d) in batch.iter().enumerate() {
            // fresh source addresses
            let to = if i % 2 == 0 { live.v.addr } else { live.vc.addr };
            live.w.raw_send(live.cannon, d, to);
            if i % 50 == 49 {
                live.w.run_for(30 * MS);
            }
        }
        live.w.run_for(200 * MS);
        r.add("live_datagrams", batch.len() as u64);
        if let Some(why) = liveness(&live, &mut rng) {
            let loc = last_panic_loc();
            let sig = if why.contains("actor thread exited") || why.contains("panicked") { format!("live/actor-panic/{loc}") } else { format!("live/probe-failed/{}", why.split(':').next().unwrap_or("?")) };
            r.violation(&sig, &format!("after a batch of hostile datagrams: {why}"), json!({"class":"live-inject","batch": batch.iter().map(|d| hex(d)).collect::<Vec<_>>()}), json!({"panic_location": loc}));
            let Live { w, v, vc, h1, .. } = live;
            drop((v, vc, h1));
            w.shutdown();
            live = live_world(mix(a.seed, a.shard + 1000 + b as u64));
        } else {
            r.count("liveness_probes_passed");
            r.nontrivial(mix(0x11fe, fnv(&batch[0])));
        }
    }
    let Live { w, v, vc, h1, .. } = live;
    drop((v, vc, h1));
    w.shutdown();
    let _ = crate::take_panics();
}

// === hostile replies to in-flight requests ===

#[derive(Clone, Copy, Debug)]
enum Call {
    FindNode,
    GetImmutable,
    GetMutable,
    GetMutableMostRecent,
    GetPeers,
    GetSignedPeers,
    GetClosest,
    PutImmutable,
    PutMutable,
    AnnouncePeer,
    AnnounceSignedPeer,
}
const CALLS: [Call; 11] = [Call::FindNode, Call::GetImmutable, Call::GetMutable, Call::GetMutableMostRecent, Call::GetPeers, Call::GetSignedPeers, Call::GetClosest, Call::PutImmutable, Call::PutMutable, Call::AnnouncePeer, Call::AnnounceSignedPeer];
const CODES: [i128; 16] = [201, 202, 203, 204, 205, 206, 207, 301, 302, 0, -1, 2147483647, 2147483648, -2147483649, 300, 303];

fn response_of_kind(rng: &mut Rng, kind: usize, tid: &[u8], ends: &[([u8; 20], SocketAddrV4)], me: &[u8; 20], asker: &SocketAddrV4) -> B {
    // kind 9..=16 = the 8 response kinds of c10::gen_message
    let m = gen_message(rng, 9 + kind % 8);
    let mut b = ref_encode(&m, 4);
    b.set("t", B::bytes(tid));
    b.set("v", B::bytes(&VERSION_RS6));
    b.set("ip", B::Bytes(addr_bytes(asker)));
    b.remove("ro");
    if let Some(mut r) = b.remove("r") {
        r.set("id", B::bytes(me));
        if r.get("nodes").is_some() {
            r.set("nodes", B::Bytes(nodes_bytes(ends)));
        }
        if let Some(B::Bytes(v)) = r.get("v").cloned() {
            if v.len() > 200 {
                r.set("v", B::Bytes(v[..200].to_vec()));
            }
        }
        b.set("r", r);
    }
    b
}

struct ReplyStats {
    lookups_answered: u64,
    puts_answered: u64,
    log: Vec<String>,
}

/// Free-text of an error reply as a remote node may word it: empty, short, long ASCII, long runs of 2-, 3- and
/// 4-byte UTF-8 characters behind 0..3 ASCII bytes (so that every byte offset falls inside a character for
/// some reply), and bytes that are no UTF-8 at all.
/// Well-formed, correctly signed and authorised writes whose fields sit on their boundaries: code that only
/// runs after the token and the signature have been accepted (timestamp windows, seq / cas arithmetic, size
/// limits, port handling) is out of reach of datagrams that fail earlier.
fn authorised_writes_part(r: &mut Report, a: &Args) {
    use super::srv::{sign_announce, sign_mutable, Fixture, Reply};
    use crate::sha1::{immutable_target, mutable_target};
    let rounds = (if a.quick() { 32 } else { 640 }) / a.nshards.max(1);
    let mut rng = Rng::new(mix(a.seed, 0xa07 + a.shard));
    for round in 0..rounds {
        r.eval();
        let seed = rng.u64();
        let fx = Fixture::new(seed, None);
        let mut c = fx.client(SocketAddrV4::new(Ipv4Addr::new(88, 2, 2, 2), 7001), rng.array());
        let id = c.id;
        let signer = ed25519_dalek::SigningKey::from_bytes(&rng.array::<32>());
        let case = json!({"class":"authorised-boundary-writes","seed":seed.to_string(),"round":round});
        let mut sent = 0u64;
        let mut answered = 0u64;
        let mut last = String::new();
        let mut unanswered: Vec<String> = vec![];
        let mut fire = |fx: &Fixture, c: &mut super::srv::Client, what: String, build: &dyn Fn(&[u8], &[u8]) -> Vec<u8>| {
            // a fresh token for every write (some of the writes below are refused on purpose)
            fx.rpc(c, |t| q_get_peers(t, &id, &[0x21; 20], false));
            let tok = c.token.clone().map(|t| t.0).unwrap_or_default();
            let reply = fx.rpc(c, |t| build(t, &tok));
            sent += 1;
            if !matches!(reply, Reply::None) {
                answered += 1;
            } else {
                unanswered.push(what.clone());
            }
            last = what;
        };
        let ih: [u8; 20] = rng.array();
        for dt in [i64::MIN / 2, -3_600_000_000, -46_000_000, -45_000_000, -44_000_000, -10_000_000, -1_000_000, -1, 0, 1, 1_000_000, 5_000_000, 10_000_000, 10_000_001, 44_000_000, 45_000_000, 46_000_000, 3_600_000_000, i64::MAX / 2] {
            let now = fx.w.unix_micros() as i64 + 1000;
            let ts = now.saturating_add(dt).max(0) as u64;
            let sg = sign_announce(&signer, &ih, ts);
            fire(&fx, &mut c, format!("announce_signed_peer t = now {dt:+} us"), &|t, tok| q_announce_signed_peer(t, &id, &ih, &sg.k, &sg.sig, ts, tok));
        }
        for ts in [0u64, 1, u64::MAX, u64::MAX - 1, i64::MAX as u64, i64::MAX as u64 + 1] {
            let sg = sign_announce(&signer, &ih, ts);
            fire(&fx, &mut c, format!("announce_signed_peer t = {ts}"), &|t, tok| q_announce_signed_peer(t, &id, &ih, &sg.k, &sg.sig, ts, tok));
        }
        for seq in [i64::MIN, i64::MIN + 1, -1, 0, 1, i64::MAX - 1, i64::MAX] {
            for cas in [None, Some(i64::MIN), Some(-1), Some(0), Some(seq), Some(i64::MAX)] {
                for (vlen, saltlen) in [(0usize, 0usize), (1, 1), (1000, 64), (1001, 0), (3, 65)] {
                    let v = vec![b'v'; vlen];
                    let salt = vec![b's'; saltlen];
                    let salt_opt = if saltlen == 0 && rng.bool() { None } else { Some(&salt[..]) };
                    let sg = sign_mutable(&signer, seq, &v, salt_opt);
                    let target = mutable_target(&sg.k, salt_opt);
                    fire(&fx, &mut c, format!("put_mutable seq {seq} cas {cas:?} v {vlen} salt {saltlen}"), &|t, tok| q_put_mutable(t, &id, tok, &target, &v, &sg.k, &sg.sig, seq, salt_opt, cas));
                }
            }
        }
        for (port, implied) in [(0u16, None), (1, None), (65535, None), (0, Some(1i128)), (7, Some(0)), (7, Some(2)), (7, Some(255))] {
            fire(&fx, &mut c, format!("announce_peer port {port} implied {implied:?}"), &|t, tok| q_announce_peer(t, &id, &ih, port, implied, tok));
        }
        for vlen in [0usize, 1, 999, 1000, 1001] {
            let v = vec![b'i'; vlen];
            let target = immutable_target(&v);
            fire(&fx, &mut c, format!("put_immutable v {vlen}"), &|t, tok| q_put_immutable(t, &id, tok, &target, &v));
        }
        // populations: 1..45 distinct announcers (node ids) on one info hash, 1..25 distinct signing keys on
        // another, with a lookup of that hash after every single announcement (sampling code paths that
        // depend on the exact number of stored peers: one page of 20 / 10, one less, one more)
        let (ih_p, ih_s): ([u8; 20], [u8; 20]) = (rng.array(), rng.array());
        for k in 0..45u8 {
            let mut idk = id;
            idk[0] = k;
            idk[19] ^= k;
            fire(&fx, &mut c, format!("announce_peer by announcer #{k}"), &|t, tok| q_announce_peer(t, &idk, &ih_p, 2000 + k as u16, None, tok));
            fire(&fx, &mut c, format!("get_peers with {} announcers stored", k + 1), &|t, _| q_get_peers(t, &id, &ih_p, false));
        }
        for k in 0..25u8 {
            let sk = ed25519_dalek::SigningKey::from_bytes(&[k.wrapping_mul(7).wrapping_add(1); 32]);
            let ts = fx.w.unix_micros() + 1000;
            let sg = sign_announce(&sk, &ih_s, ts);
            fire(&fx, &mut c, format!("announce_signed_peer by key #{k}"), &|t, tok| q_announce_signed_peer(t, &id, &ih_s, &sg.k, &sg.sig, ts, tok));
            fire(&fx, &mut c, format!("get_signed_peers with {} keys stored", k + 1), &|t, _| q_get_peers(t, &id, &ih_s, true));
        }
        // every one of these is answered (ack or BEP error), and the node is still there afterwards
        let alive = fx.server_alive();
        let pong = matches!(fx.rpc(&mut c, |t| q_ping(t, &id)), Reply::Resp(_));
        r.add("authorised_boundary_writes", sent);
        r.add("authorised_boundary_writes_answered", answered);
        let panics = fx.finish();
        if !alive || !pong || !panics.is_empty() {
            let loc = panics.first().map(|p| p.1.replace("/repo/", "")).unwrap_or_else(|| "no-panic-recorded".into());
            r.violation(&format!("authorised-write/actor-panic/{loc}"), "a well-formed, authorised write with boundary field values killed the node (or it no longer answers a ping)", case.clone(), json!({"last_write": last, "panics": panics.iter().map(|p| format!("{} @ {}: {}", p.0, p.1, p.2)).collect::<Vec<_>>(), "answers_ping": pong}));
        } else if answered != sent {
            r.violation("authorised-write/no-reply", "a well-formed write got no reply", case.clone(), json!({"sent": sent, "answered": answered, "unanswered": unanswered}));
        }
        r.count("authorised_write_rounds");
        r.nontrivial(mix(seed, sent));
    }
}

fn hostile_text(rng: &mut Rng) -> Vec<u8> {
    match rng.usize(6) {
        0 => vec![],
        1 => b"no".to_vec(),
        2 => vec![b'a'; 1 + rng.usize(1400)],
        3 | 4 => {
            let ch = *rng.pick(&["\u{e9}", "\u{20ac}", "\u{1f600}", "\u{4e2d}"]);
            let mut v = vec![b'x'; rng.usize(4)];
            let total = 40 + rng.usize(600);
            while v.len() < total {
                v.extend_from_slice(ch.as_bytes());
            }
            v
        }
        _ => rng.blob(1, 300),
    }
}

fn error_text(t: &[u8], code: i128, rng: &mut Rng, plain: &str) -> B {
    let msg = if rng.bool() { hostile_text(rng) } else { plain.as_bytes().to_vec() };
    B::dict(vec![("t", B::bytes(t)), ("y", B::str("e")), ("e", B::List(vec![B::Int(code), B::Bytes(msg)]))])
}

fn hostile_reply_scenario(r: &mut Report, seed: u64, call: Call, sync_flavour: bool, put_mode: usize) {
    r.eval();
    let mut rng = Rng::new(seed);
    let w = World::with_cfg(seed, NetCfg { lat_min: MS, lat_max: 30 * MS, random_ties: true }, TraceLevel::Off);
    let n_ends = if put_mode == 6 { 20 } else { 3 };
    let ends: Vec<([u8; 20], SocketAddrV4)> = (0..n_ends).map(|i| (rng.array(), SocketAddrV4::new(Ipv4Addr::new(41, 0, 0, 1 + i), 6881))).collect();
    let socks: Vec<SockId> = ends.iter().map(|e| w.raw(e.1)).collect();
    let stats = Rc::new(RefCell::new(ReplyStats { lookups_answered: 0, puts_answered: 0, log: vec![] }));
    let st2 = stats.clone();
    let ends2 = ends.clone();
    let socks2 = socks.clone();
    let mut rrng = rng.fork(7);
    let hostile_lookup = rng.chance(1, 2) && put_mode != 5;
    let tally_codes = { let a = *rng.pick(&CODES); let mut b = *rng.pick(&CODES); if b == a { b = if a == 202 { 201 } else { 202 }; } (a, b) };
    // put_mode 6: the lookup behind the call is answered from a crowded neighbourhood (see below)
    let crowded = put_mode == 6;
    let crowd_counter = std::rc::Rc::new(std::cell::Cell::new(0u32));
    w.set_responder(Some(Box::new(move |w, sock, d| {
        let Some(q) = Krpc::parse(&d.bytes) else { return true };
        if q.y != b'q' {
            return true;
        }
        let idx = socks2.iter().position(|s| *s == sock).unwrap_or(0);
        let me = ends2[idx].0;
        let name = q.q.clone().unwrap_or_default();
        let is_put = matches!(name.as_str(), "put" | "announce_peer" | "announce_signed_peer");
        let mut st = st2.borrow_mut();
        let mut forced_delay: Option<u64> = None;
        let bytes: Vec<u8> = if is_put {
            st.puts_answered += 1;
            match put_mode {
                // every store request refused with one 3xx code / one other code
                0 => error_text(&q.t, 301, &mut rrng, "cas mismatch").encode(),
                1 => error_text(&q.t, 302, &mut rrng, "sequence number less than current").encode(),
                2 => { let c = *rrng.pick(&CODES); error_text(&q.t, c, &mut rrng, "whatever") }.encode(),
                3 => {
                    // mixed: acks, errors, unexpected response kinds, mutations
                    match rrng.usize(4) {
                        0 => response(&q.t, B::dict(vec![("id", B::bytes(&me))]), Some(&d.from), Some(&VERSION_RS6)).encode(),
                        1 => { let c = *rrng.pick(&CODES); error_text(&q.t, c, &mut rrng, "x") }.encode(),
                        2 => { let k = rrng.usize(8); response_of_kind(&mut rrng, k, &q.t, &ends2, &me, &d.from) }.encode(),
                        _ => {
                            let base = { let k = rrng.usize(8); response_of_kind(&mut rrng, k, &q.t, &ends2, &me, &d.from) }.encode();
                            mutate(&base, &base, &mut rrng)
                        }
                    }
                }
                // a tally that changes its leader: the first reply carries one code, all later ones another
                5 => {
                    let first = st.puts_answered == 1;
                    let code = if first { tally_codes.0 } else { tally_codes.1 };
                    forced_delay = Some(if first { 0 } else { 60 * MS + st.puts_answered * 5 * MS });
                    error_text(&q.t, code, &mut rrng, "refused").encode()
                }
                _ => error_text(&q.t, 203, &mut rrng, "bad token").encode(),
            }
        } else if crowded && q.target().is_some() {
            // a crowded neighbourhood: every answer lists 70 contacts nobody has listed before, each further
            // from the target than anything listed so far, so that one lookup collects more than a
            // thousand candidates
            st.lookups_answered += 1;
            let t = q.target().unwrap_or([0; 20]);
            // the twenty answering endpoints present themselves right next to the target, so all of them are asked
            let near = |i: usize| { let mut id = t; id[19] ^= 1 + i as u8; id };
            let me = near(idx);
            // (70 contacts of 26 bytes: the datagram stays below the 2048-byte receive buffer; the twenty
            // endpoints themselves are the node's bootstrap list)
            let mut list: Vec<([u8; 20], SocketAddrV4)> = vec![];
            let base = crowd_counter.get();
            crowd_counter.set(base + 70);
            for k in 0..70u32 {
                let n = base + k;
                // XOR distance to the target grows with n: every contact is further than all listed before it
                let mut id = t;
                id[0] ^= 0x40 | ((n >> 16) as u8 & 0x3f);
                id[1] ^= (n >> 8) as u8;
                id[2] ^= n as u8;
                list.push((id, SocketAddrV4::new(Ipv4Addr::new(42, (n >> 16) as u8, (n >> 8) as u8, n as u8), 6881)));
            }
            let mut rd = vec![("id", B::bytes(&me)), ("nodes", B::Bytes(nodes_bytes(&list)))];
            if name != "find_node" {
                rd.push(("token", B::bytes(b"tokn")));
            }
            response(&q.t, B::dict(rd), Some(&d.from), Some(&VERSION_RS6)).encode()
        } else {
            st.lookups_answered += 1;
            let honest_kind = match name.as_str() {
                "ping" => 0,
                "find_node" => 1,
                "get_peers" => *rrng.pick(&[2usize, 6]),
                "get_signed_peers" => *rrng.pick(&[3usize, 6]),
                _ => *rrng.pick(&[4usize, 5, 6, 7]),
            };
            if !hostile_lookup || rrng.chance(2, 5) {
                // plausible answer with a token so that puts reach their store phase
                response_of_kind(&mut rrng, honest_kind, &q.t, &ends2, &me, &d.from).encode()
            } else {
                match rrng.usize(4) {
                    0 => { let k = rrng.usize(8); response_of_kind(&mut rrng, k, &q.t, &ends2, &me, &d.from) }.encode(),
                    1 => { let c = *rrng.pick(&CODES); error_text(&q.t, c, &mut rrng, "no") }.encode(),
                    2 => {
                        let mut v = Vec::new();
                        structured(&response_of_kind(&mut rrng, honest_kind, &q.t, &ends2, &me, &d.from), &mut rrng, &mut v);
                        let i = rrng.usize(v.len());
                        v.swap_remove(i)
                    }
                    _ => {
                        let base = response_of_kind(&mut rrng, honest_kind, &q.t, &ends2, &me, &d.from).encode();
                        mutate(&base, &base, &mut rrng)
                    }
                }
            }
        };
        if st.log.len() < 40 {
            st.log.push(format!("{name} <- {}", String::from_utf8_lossy(&bytes).chars().take(120).collect::<String>()));
        }
        drop(st);
        // some replies arrive late: just below / above the request timeout, or very late
        let extra = match rrng.usize(8) {
            0 => 400 * MS + rrng.below(200) * MS,
            1 => 1200 * MS + rrng.below(400) * MS,
            2 => 500 * MS + rrng.below(100) * MS,
            _ => 0,
        };
        let extra = if crowded { 0 } else { forced_delay.unwrap_or(extra) };
        w.raw_send_delayed(sock, &bytes, d.from, extra);
        true
    })));
    let boots: Vec<SocketAddrV4> = ends.iter().map(|e| e.1).collect();
    let node = w.spawn(NodeSpec::client(Ipv4Addr::new(41, 0, 9, 9), &boots)).expect("victim");
    let signer = SigningKey::from_bytes(&rng.array::<32>());
    let key = signer.verifying_key().to_bytes();
    let target = Id::from(rng.array::<20>());
    let item = MutableItem::new(&signer, b"hello", 3, Some(b"s"));
    let case = json!({"class":"hostile-reply","seed":seed.to_string(),"call":format!("{call:?}"),"sync":sync_flavour,"put_mode":put_mode});
    let bound = 120 * SEC;
    let outcome: Result<bool, String>;
    if sync_flavour {
        let dht = node.dht.clone();
        let signer2 = signer.clone();
        let item2 = item.clone();
        let h = std::thread::spawn(move || match call {
            Call::FindNode => drop(dht.find_node(target)),
            Call::GetImmutable => drop(dht.get_immutable(target)),
            Call::GetMutable => drop(dht.get_mutable(&key, Some(b"s"), None).count()),
            Call::GetMutableMostRecent => drop(dht.get_mutable_most_recent(&key, Some(b"s"))),
            Call::GetPeers => drop(dht.get_peers(target).count()),
            Call::GetSignedPeers => drop(dht.get_signed_peers(target).count()),
            Call::GetClosest => drop(dht.get_closest_nodes(target)),
            Call::PutImmutable => drop(dht.put_immutable(b"some value")),
            Call::PutMutable => drop(dht.put_mutable(item2, None)),
            Call::AnnouncePeer => drop(dht.announce_peer(target, Some(4000))),
            Call::AnnounceSignedPeer => drop(dht.announce_signed_peer(target, &signer2)),
        });
        let reached = super::net::wait_until_call_registered(&w, &node, || 1, || h.is_finished());
        let done = w.run_until(bound, |_| h.is_finished());
        if !reached && !done {
            r.inconclusive("a helper thread's blocking call did not reach the actor within 20 real seconds");
        }
        if done {
            // give the thread a moment to actually finish unwinding
            match h.join() {
                Ok(()) => outcome = Ok(true),
                Err(_) => outcome = Err(last_panic_loc()),
            }
        } else if w.closed(node.sock).is_some() {
            outcome = Err(last_panic_loc());
            // the helper thread may stay blocked or panic on the dead channel; leave it detached
        } else {
            outcome = Ok(false);
        }
    } else {
        let adht = node.adht.clone();
        let res = catch_unwind(AssertUnwindSafe(|| {
            use futures_lite::StreamExt;
            match call {
                Call::FindNode => w.block_on(async { drop(adht.find_node(target).await) }, bound),
                Call::GetImmutable => w.block_on(async { drop(adht.get_immutable(target).await) }, bound),
                Call::GetMutable => w.block_on(async { drop(adht.get_mutable(&key, Some(b"s"), None).count().await) }, bound),
                Call::GetMutableMostRecent => w.block_on(async { drop(adht.get_mutable_most_recent(&key, Some(b"s")).await) }, bound),
                Call::GetPeers => w.block_on(async { drop(adht.get_peers(target).count().await) }, bound),
                Call::GetSignedPeers => w.block_on(async { drop(adht.get_signed_peers(target).await.count().await) }, bound),
                Call::GetClosest => w.block_on(async { drop(adht.get_closest_nodes(target).await) }, bound),
                Call::PutImmutable => w.block_on(async { drop(adht.put_immutable(b"some value").await) }, bound),
                Call::PutMutable => w.block_on(async { drop(adht.put_mutable(item.clone(), None).await) }, bound),
                Call::AnnouncePeer => w.block_on(async { drop(adht.announce_peer(target, Some(4000)).await) }, bound),
                Call::AnnounceSignedPeer => w.block_on(async { drop(adht.announce_signed_peer(target, &signer).await) }, bound),
            }
        }));
        match res {
            Err(_) => outcome = Err(last_panic_loc()),
            Ok(Some(())) => outcome = Ok(true),
            Ok(None) => outcome = Ok(false),
        }
    }
    let st = {
        let b = stats.borrow();
        ReplyStats { lookups_answered: b.lookups_answered, puts_answered: b.puts_answered, log: b.log.clone() }
    };
    let detail = json!({"replies": st.log, "lookups_answered": st.lookups_answered, "puts_answered": st.puts_answered});
    match &outcome {
        Err(loc) => {
            let who = if w.closed(node.sock) == Some(true) { "actor" } else { "caller" };
            r.violation(&format!("hostile-reply/{who}-panic/{loc}"), &format!("{who} thread panicked while {call:?} was answered by hostile replies"), case.clone(), detail.clone());
        }
        Ok(_) => {
            if let Some(p) = w.closed(node.sock) {
                let loc = last_panic_loc();
                r.violation(&format!("hostile-reply/actor-panic/{loc}"), &format!("actor thread exited (panicked={p}) under hostile replies"), case.clone(), detail.clone());
            } else {
                // the node must still serve a local call afterwards
                let ok = catch_unwind(AssertUnwindSafe(|| w.block_on(node.adht.info(), 5 * SEC)));
                if !matches!(ok, Ok(Some(_))) {
                    r.violation("hostile-reply/info-after", "info() did not complete after hostile replies", case.clone(), detail.clone());
                }
            }
        }
    }
    if st.lookups_answered > 0 {
        r.nontrivial(mix(seed, call as u64));
        r.add("hostile_replies_matched_to_inflight_requests", st.lookups_answered + st.puts_answered);
    }
    if st.puts_answered > 0 {
        r.count("scenarios_reaching_store_phase");
    }
    r.count(if sync_flavour { "hostile_reply_scenarios_sync" } else { "hostile_reply_scenarios_async" });
    if r.want_sample() && st.puts_answered > 0 {
        r.sample(json!({"kind":"hostile-reply","call":format!("{call:?}"),"sync":sync_flavour,"put_mode":put_mode,"first_replies": st.log.iter().take(4).collect::<Vec<_>>() }));
    }
    drop(node);
    w.shutdown();
    let _ = crate::take_panics();
}

fn hostile_reply_part(r: &mut Report, a: &Args) {
    let rounds = if a.quick() { 6 } else { 100 };
    let mut rng = Rng::new(mix(a.seed, 0x4e9 + a.shard));
    for round in 0..rounds {
        for (ci, call) in CALLS.iter().enumerate() {
            let is_put = ci >= 7;
            let modes: Vec<usize> = if is_put { vec![0, 1, 2, 3, 5, 6] } else { vec![3, 6] };
            for mode in modes {
                let sync_flavour = (round + ci + mode + a.shard as usize) % 3 == 0;
                hostile_reply_scenario(r, rng.u64(), *call, sync_flavour, mode);
            }
        }
    }
}

/// Datagrams that meet an aged routing table. A first node learns 20..24 peers of one bucket from their
/// find_node requests within a few seconds; then they all go silent. Fifteen minutes later every one of them is
/// stale at once, and for up to five minutes - until the next maintenance round sweeps them - the bucket is full
/// of stale entries. In that window (and around its edges) requests from 1..5 new ids of that bucket arrive,
/// then one more ping: the node must have survived all of them and answer it.
fn aged_bucket_scenario(r: &mut Report, seed: u64) {
    r.eval();
    let mut rng = Rng::new(seed);
    let w = World::with_cfg(seed, NetCfg { lat_min: MS, lat_max: 20 * MS, random_ties: true }, TraceLevel::Off);
    let x = w.spawn(NodeSpec::server(Ipv4Addr::new(32, 0, 0, 1), &[])).expect("x");
    let xid = w.block_on(x.adht.info(), 3 * SEC).map(|i| *i.id().as_bytes()).unwrap_or([0; 20]);
    let fill = 20 + rng.usize(5);
    let newcomers = 1 + rng.usize(5);
    // (the peers appear shortly after one of the node's 5-minute maintenance rounds, so that all of them turn stale
    // between two rounds: at 15 minutes + this offset, well before the round that would sweep them)
    let fill_at = 300 + *rng.pick(&[1u64, 5, 20, 60, 150, 280]) + rng.below(10);
    let at = fill_at + 14 * 60 + 30 + rng.below(6 * 60);
    let case = json!({"class":"aged-bucket","seed":seed.to_string(),"silent_peers":fill,"newcomers":newcomers,"peers_appear_after_s":fill_at,"newcomers_arrive_after_s":at});
    let in_bucket = |rng: &mut Rng| -> [u8; 20] {
        let mut id: [u8; 20] = rng.array();
        id[0] = (id[0] & 0x7f) | (!xid[0] & 0x80);
        id
    };
    let t0 = w.now();
    w.run_to(t0 + fill_at * SEC);
    for i in 0..fill {
        let s = w.raw(SocketAddrV4::new(Ipv4Addr::new(32, 1 + (i / 200) as u8, (i % 200) as u8, 9), 6881));
        let id = in_bucket(&mut rng);
        w.raw_send(s, &q_find_node(&[0, i as u8], &id, &rng.array(), false, Some(&VERSION_RS6)), x.addr);
        w.run_for(rng.below(300) * MS);
    }
    if std::env::var("MLV_DEBUG").is_ok() {
        if let Some(sn) = super::net::snapshot(&w, &x) {
            eprintln!("after fill of {fill}: table {} nodes", sn.table.nodes.len());
        }
    }
    w.run_to(t0 + at * SEC);
    if std::env::var("MLV_DEBUG").is_ok() {
        if let Some(sn) = super::net::snapshot(&w, &x) {
            eprintln!("at {at}s: table {} nodes, ages {:?}", sn.table.nodes.len(), sn.table.nodes.iter().map(|n| n.2.as_secs()).collect::<Vec<_>>());
        }
    }
    for i in 0..newcomers {
        let s = w.raw(SocketAddrV4::new(Ipv4Addr::new(33, 1, i as u8, 9), 6881));
        let id = in_bucket(&mut rng);
        let bytes = if rng.bool() { q_find_node(&[1, i as u8], &id, &rng.array(), false, Some(&VERSION_RS6)) } else { q_get_peers(&[1, i as u8], &id, &rng.array(), false) };
        w.raw_send(s, &bytes, x.addr);
        w.run_for(rng.below(30) * SEC);
    }
    r.count("aged_bucket_scenarios");
    r.nontrivial(mix(seed, at));
    let probe = w.raw(SocketAddrV4::new(Ipv4Addr::new(67, 7, 7, 7), 777));
    w.raw_send(probe, &q_ping(&[9, 9], &[1; 20]), x.addr);
    let answered = w.run_until(3 * SEC, |w| w.raw_pending(probe) > 0);
    if let Some(p) = w.closed(x.sock) {
        let loc = last_panic_loc();
        r.violation(&format!("aged-table/actor-panic/{}", loc.replace("/repo/", "")), "a request from a new node id killed a node whose bucket held only stale entries", case.clone(), json!({"panicked": p}));
    } else if !answered {
        r.violation("aged-table/no-answer-afterwards", "the node no longer answers a ping after requests from new node ids met a bucket of stale entries", case.clone(), json!({}));
    }
    drop(x);
    w.shutdown();
    let _ = crate::take_panics();
}

pub fn run(a: &Args) -> Report {
    if let Some(path) = &a.replay {
        let mut r = Report::new("C05");
        let v: Value = serde_json::from_str(&std::fs::read_to_string(path).unwrap_or_default()).unwrap_or_default();
        let c = &v["case"];
        match c["class"].as_str() {
            Some("hostile-reply") => {
                let call = CALLS.iter().find(|x| format!("{x:?}") == c["call"].as_str().unwrap_or("")).copied().unwrap_or(Call::PutImmutable);
                hostile_reply_scenario(&mut r, c["seed"].as_str().and_then(|s| s.parse().ok()).unwrap_or(1), call, c["sync"].as_bool().unwrap_or(false), c["put_mode"].as_u64().unwrap_or(0) as usize);
            }
            Some("aged-bucket") => aged_bucket_scenario(&mut r, c["seed"].as_str().and_then(|s| s.parse().ok()).unwrap_or(1)),
            Some("live-inject") => {
                // fire the recorded batch one datagram at a time to name the culprit
                let mut rng = Rng::new(1);
                let mut live = live_world(1);
                for d in c["batch"].as_array().cloned().unwrap_or_default() {
                    let bytes = crate::bencode::unhex(d.as_str().unwrap_or(""));
                    live.w.raw_send(live.cannon, &bytes, live.v.addr);
                    live.w.raw_send(live.cannon, &bytes, live.vc.addr);
                    live.w.run_for(50 * MS);
                    r.eval();
                    if live.w.closed(live.v.sock).is_some() || live.w.closed(live.vc.sock).is_some() {
                        let loc = last_panic_loc();
                        r.violation(&format!("live/actor-panic/{loc}"), "a single datagram killed a node", json!({"class":"live-inject","batch":[d]}), json!({}));
                        let Live { w, v, vc, h1, .. } = live;
                        drop((v, vc, h1));
                        w.shutdown();
                        live = live_world(2);
                    }
                }
                let _ = liveness(&live, &mut rng);
                let Live { w, v, vc, h1, .. } = live;
                drop((v, vc, h1));
                w.shutdown();
            }
            _ => {
                let bytes = crate::bencode::unhex(c["datagram_hex"].as_str().unwrap_or(""));
                decode_one(&mut r, &bytes, "replay");
            }
        }
        return r;
    }
    let mut total = Report::new("C05");
    // the decoder part runs on all cores in shard 0's process group: each shard takes a slice
    let threads = a.nshards.max(1) as usize;
    decoder_part(&mut total, a, a.shard as usize, threads);
    live_inject_part(&mut total, a);
    authorised_writes_part(&mut total, a);
    hostile_reply_part(&mut total, a);
    let mut rng = Rng::new(mix(a.seed, 0xa6ed + a.shard));
    for _ in 0..(if a.quick() { 160 } else { 3200 }) / a.nshards.max(1) {
        let seed = rng.u64();
        super::guarded(&mut total, json!({"class":"aged-bucket","seed":seed.to_string()}), |r| aged_bucket_scenario(r, seed));
    }
    total
}

/// Deeply nested bencode: run in a thread with the actor's (default) stack size. A stack overflow
/// aborts the whole process, so the driver runs this in a subprocess and looks at the exit status.
pub fn nest_probe(a: &Args) -> Report {
    let mut r = Report::new("C05");
    let depths: Vec<usize> = a.extra.iter().filter_map(|s| s.parse().ok()).collect();
    let depths = if depths.is_empty() { vec![10, 100, 500, 1000, 1500, 2040] } else { depths };
    for depth in depths {
        for (name, open, close) in [("list", b'l', 1usize), ("dict", b'd', 1)] {
            for prefix in [&b"d1:x"[..], &b"d1:ad2:id20:abcdefghij01234567891:x"[..], &b"d1:rd2:id20:abcdefghij01234567895:nodes"[..], &b""[..]] {
                let mut v = prefix.to_vec();
                for _ in 0..depth {
                    v.push(open);
                    if open == b'd' {
                        v.extend_from_slice(b"1:a");
                    }
                }
                v.truncate(2048 - close);
                let bytes = v.clone();
                let h = std::thread::Builder::new().name("Mainline Dht actor thread".into()).spawn(move || {
                    let _ = std::panic::catch_unwind(|| WireMessage::decode(&bytes));
                });
                let _ = h.map(|h| h.join());
                r.eval();
                r.nontrivial(mix(depth as u64, fnv(&v)));
                r.count(&format!("nested_{name}_decoded"));
                println!("survived depth={depth} kind={name} prefix_len={}", prefix.len());
            }
        }
    }
    r
}

//! C16 — get_mutable_most_recent returns the newest item seen (sync and async), for every
//! arrival order. The harness plays the actor side of the channel (verif::scripted_dht).
use crate::report::Report;
use crate::rng::{mix, Rng};
use crate::simnet::poll_once;
use crate::Args;
use dht::verif::scripted_dht;
use dht::{MutableItem, SigningKey};
use serde_json::{json, Value};
use std::task::Poll;

fn pool(signer: &SigningKey, salt: Option<&[u8]>) -> Vec<Vec<MutableItem>> {
    let mk = |seq: i64, v: &[u8]| MutableItem::new(signer, v, seq, salt);
    vec![
        // ties with different values at several seqs
        vec![mk(1, b"a"), mk(1, b"b"), mk(2, b"a"), mk(2, b"b"), mk(3, b"a"), mk(3, b"b")],
        // gaps, negatives, extremes
        vec![mk(-1, b"x"), mk(0, b"x"), mk(1, b"x"), mk(i64::MAX, b"x"), mk(i64::MIN, b"x"), mk(7, b"x")],
        // one seq, six values (prefixes, empty, high bytes)
        vec![mk(5, b""), mk(5, b"a"), mk(5, b"b"), mk(5, b"ab"), mk(5, b"\xff"), mk(5, b"a\0")],
        // descending run with duplicates of the same item and a tie at the top
        vec![mk(3, b"m"), mk(3, b"m"), mk(2, b"z"), mk(1, b"zz"), mk(3, b"n"), mk(0, b"")],
    ]
}

fn oracle(items: &[&MutableItem]) -> Option<(i64, Vec<u8>)> {
    let max = items.iter().map(|i| i.seq()).max()?;
    let v = items.iter().filter(|i| i.seq() == max).map(|i| i.value().to_vec()).max()?;
    Some((max, v))
}

fn show(items: &[&MutableItem]) -> Value {
    json!(items.iter().map(|i| json!({"seq": i.seq().to_string(), "v": crate::bencode::hex(i.value())})).collect::<Vec<_>>())
}

struct SyncWorker {
    tx: flume::Sender<()>,
    rx: flume::Receiver<Result<Option<MutableItem>, String>>,
}

fn judge(r: &mut Report, flavour: &str, stream: &[&MutableItem], got: Result<Option<MutableItem>, String>, alphabet: usize) {
    r.eval();
    let want = oracle(stream);
    let case = || json!({"class":"stream","flavour":flavour,"alphabet":alphabet,"stream": show(stream)});
    let distinct_seqs = { let mut s: Vec<i64> = stream.iter().map(|i| i.seq()).collect(); s.sort(); s.dedup(); s.len() };
    let tie = stream.iter().enumerate().any(|(i, a)| stream[..i].iter().any(|b| b.seq() == a.seq() && b.value() != a.value()));
    match got {
        Err(e) => r.violation(&format!("{flavour}/panic"), &format!("get_mutable_most_recent panicked: {e}"), case(), json!({})),
        Ok(got) => match (got, want) {
            (None, None) => {}
            (None, Some(_)) => r.violation(&format!("{flavour}/none-for-non-empty-stream"), "returned None although items were delivered", case(), json!({})),
            (Some(_), None) => r.violation(&format!("{flavour}/some-for-empty-stream"), "returned an item although nothing was delivered", case(), json!({})),
            (Some(g), Some((seq, v))) => {
                if g.seq() != seq {
                    let pos = if stream.first().map(|f| f.seq()) == Some(g.seq()) { "first-item-wins" } else { "other" };
                    r.violation(&format!("{flavour}/not-max-seq/{pos}"), "returned an item whose seq is not the maximum delivered", case(), json!({"returned_seq": g.seq().to_string(), "max_seq": seq.to_string()}));
                } else if g.value() != &v[..] {
                    r.violation(&format!("{flavour}/tie-not-greatest-value"), "among items of the maximal seq the greatest value was not returned", case(), json!({"returned": crate::bencode::hex(g.value()), "greatest": crate::bencode::hex(&v)}));
                }
            }
        },
    }
    if distinct_seqs >= 2 || tie {
        r.nontrivial_extra += 1;
        r.count(&format!("{flavour}_nontrivial_streams"));
    }
    r.count(&format!("{flavour}_streams"));
}

/// End to end: a real client node looks the key up among scripted replicas that hold genuine items of
/// different seq / conflicting values at one seq, answer after chosen delays (arrival order), answer with a
/// reply of another shape (peers-shaped, value-only, nodes-only, an error) or stay silent (which keeps the
/// lookup open until the request times out). A first caller and callers that join the running lookup later
/// (they are handed the responses so far, then the live ones) all call get_mutable_most_recent. Every genuine
/// item is delivered well inside the request timeout, so each caller must get the newest of all of them.
pub fn lookup_scenario(r: &mut Report, seed: u64) {
    use crate::bencode::B;
    use crate::krpc::*;
    use crate::simnet::*;
    use std::net::{Ipv4Addr, SocketAddrV4};
    r.eval();
    let mut rng = Rng::new(seed);
    let w = World::with_cfg(seed, NetCfg { lat_min: MS, lat_max: 15 * MS, random_ties: true }, TraceLevel::Off);
    let signer = SigningKey::from_bytes(&rng.array::<32>());
    let salt: Option<Vec<u8>> = if rng.bool() { Some(rng.blob(1, 12)) } else { None };
    let key = signer.verifying_key().to_bytes();
    let target = crate::sha1::mutable_target(&key, salt.as_deref());
    let n = 2 + rng.usize(9);
    let ends: Vec<([u8; 20], SocketAddrV4)> = (0..n).map(|i| (rng.array(), SocketAddrV4::new(Ipv4Addr::new(53, 0, 0, 1 + i as u8), 6881))).collect();
    let socks: Vec<SockId> = ends.iter().map(|e| w.raw(e.1)).collect();
    // what each replica holds: Some(item) or a reply of another shape (1..=4) or silence (5)
    let base_seq = *rng.pick(&[0i64, 1, 7, -3, i64::MAX - 2, 1000]);
    let values: [&[u8]; 5] = [b"a", b"b", b"ab", b"", b"zz-top"];
    let mut held: Vec<Option<MutableItem>> = vec![];
    let mut shape: Vec<u8> = vec![];
    for _ in 0..n {
        match rng.usize(10) {
            0 => { held.push(None); shape.push(1 + rng.usize(4) as u8) }
            1 => { held.push(None); shape.push(5) }
            _ => {
                let seq = base_seq.saturating_add(*rng.pick(&[0i64, 0, 0, 1, 1, 2, -1]));
                held.push(Some(MutableItem::new(&signer, values[rng.usize(values.len())], seq, salt.as_deref())));
                shape.push(0)
            }
        }
    }
    let delays: Vec<u64> = (0..n).map(|_| *rng.pick(&[0u64, 0, 20 * MS, 60 * MS, 120 * MS, 200 * MS, 300 * MS])).collect();
    // some replicas list a contact nobody can be sent to next to their item (port 0, the broadcast address): the
    // item travels in the same datagram and was delivered all the same
    let odd_contact: Vec<u8> = (0..n).map(|_| if rng.chance(1, 4) { 1 + rng.usize(2) as u8 } else { 0 }).collect();
    if odd_contact.iter().any(|o| *o != 0) {
        r.count("lookup_worlds_with_an_unsendable_contact_next_to_an_item");
    }
    let put_seen = std::rc::Rc::new(std::cell::Cell::new(false));
    let case = json!({"class":"lookup","seed":seed.to_string(),"replicas":n,"held": held.iter().zip(&shape).zip(&delays).map(|((h, s), d)| match h { Some(i) => json!({"seq": i.seq().to_string(), "v": crate::bencode::hex(i.value()), "delay_ms": d / MS}), None => json!({"other_shape": s, "delay_ms": d / MS}) }).collect::<Vec<_>>()});
    {
        let (ends2, socks2, held2, shape2, delays2) = (ends.clone(), socks.clone(), held.clone(), shape.clone(), delays.clone());
        let odd2 = odd_contact.clone();
        let put_seen2 = put_seen.clone();
        w.set_responder(Some(Box::new(move |w, sock, d| {
            let Some(i) = socks2.iter().position(|s| *s == sock) else { return false };
            let Some(q) = Krpc::parse(&d.bytes) else { return true };
            if q.y != b'q' {
                return true;
            }
            let mut list = ends2.clone();
            if odd2[i] != 0 {
                let mut id = target;
                id[19] ^= 0x10 + i as u8;
                let addr = if odd2[i] == 1 { SocketAddrV4::new(Ipv4Addr::new(53, 0, 7, 1 + i as u8), 0) } else { SocketAddrV4::new(Ipv4Addr::BROADCAST, 6881) };
                list.insert(i % (list.len() + 1), (id, addr));
            }
            if q.is_query("put") {
                // nobody acknowledges a write in these worlds: a put of the application stays in its store phase
                put_seen2.set(true);
                return true;
            }
            let mut rd = vec![("id", B::bytes(&ends2[i].0)), ("nodes", B::Bytes(nodes_bytes(&list)))];
            if q.is_query("get") && q.target() != Some(target) {
                rd.push(("token", B::bytes(b"tokn")));
            }
            let mut bytes = None;
            if q.is_query("get") && q.target() == Some(target) {
                rd.push(("token", B::bytes(b"tokn")));
                match (&held2[i], shape2[i]) {
                    (Some(item), _) => {
                        rd.push(("v", B::bytes(item.value())));
                        rd.push(("k", B::bytes(item.key())));
                        rd.push(("sig", B::bytes(item.signature())));
                        rd.push(("seq", B::Int(item.seq() as i128)));
                    }
                    (None, 1) => rd.push(("values", B::List(vec![B::Bytes(addr_bytes(&SocketAddrV4::new(Ipv4Addr::new(9, 9, 9, 9), 9))) ]))),
                    (None, 2) => rd.push(("v", B::bytes(b"just a value"))),
                    (None, 3) => {}
                    (None, 4) => bytes = Some(error(&q.t, 203, "no").encode()),
                    _ => return true,
                }
            }
            let bytes = bytes.unwrap_or_else(|| response(&q.t, B::dict(rd), Some(&d.from), Some(&VERSION_RS6)).encode());
            w.raw_send_delayed(sock, &bytes, d.from, delays2[i]);
            true
        })));
    }
    let boots: Vec<SocketAddrV4> = ends.iter().take(1 + rng.usize(n)).map(|e| e.1).collect();
    let x = match w.spawn(NodeSpec::client(Ipv4Addr::new(53, 0, 9, 9), &boots)) {
        Ok(x) => x,
        Err(_) => { r.inconclusive("lookup scenario: node did not start"); return }
    };
    w.block_on(x.adht.bootstrapped(), 60 * SEC);
    let genuine: Vec<&MutableItem> = held.iter().flatten().collect();
    let want = oracle(&genuine);
    // in a quarter of the worlds the application has a put (of something else) in its store phase when the lookup
    // starts: its store requests are out and unanswered, the lookup's requests are the next ones the node sends
    let _pending_put = if rng.chance(1, 4) {
        let a = x.adht.clone();
        let v = rng.blob(5, 40);
        let t = Task::new(w.now(), async move { a.put_immutable(&v).await.is_ok() });
        let seen = put_seen.clone();
        w.run_until(10 * SEC, |_| seen.get());
        if put_seen.get() {
            r.count("lookup_worlds_with_a_put_in_its_store_phase");
        }
        Some(t)
    } else {
        None
    };
    // callers: the first one, then joiners after 30..450 ms (sync flavour on helper threads for a third of the worlds)
    let sync = rng.chance(1, 3);
    let mut starts = vec![0u64];
    for _ in 0..rng.usize(3) {
        starts.push((30 + rng.below(420)) * MS);
    }
    starts.sort();
    let t0 = w.now();
    let mut results: Vec<Option<Option<MutableItem>>> = vec![];
    if sync {
        let mut handles = vec![];
        for st in &starts {
            w.run_to(t0 + st);
            let d = x.dht.clone();
            let sl = salt.clone();
            handles.push(std::thread::spawn(move || d.get_mutable_most_recent(&key, sl.as_deref())));
            // let the call reach the actor (real time; the callers that joined earlier may have returned already)
            if !super::net::wait_until_call_registered(&w, &x, || handles.iter().filter(|h| !h.is_finished()).count(), || handles.last().map(|h| h.is_finished()).unwrap_or(true)) {
                r.inconclusive("a helper thread's blocking call did not reach the actor within 20 real seconds");
            }
        }
        w.run_until(120 * SEC, |_| handles.iter().all(|h| h.is_finished()));
        for h in handles {
            results.push(if h.is_finished() { h.join().ok() } else { None });
        }
    } else {
        use std::future::Future;
        use std::pin::Pin;
        let abs: Vec<u64> = starts.iter().map(|s| t0 + s).collect();
        let a = x.adht.clone();
        let sl = salt.clone();
        results = super::net::staggered(&w, &abs, |_| { let a = a.clone(); let sl = sl.clone(); Box::pin(async move { a.get_mutable_most_recent(&key, sl.as_deref()).await }) as Pin<Box<dyn Future<Output = Option<MutableItem>>>> }, 120 * SEC);
    }
    let flavour = if sync { "sync" } else { "async" };
    for (ci, res) in results.into_iter().enumerate() {
        let who = if ci == 0 { "first-caller" } else { "joined-caller" };
        r.count(&format!("lookup/{flavour}/{who}"));
        let detail = json!({"caller": ci, "start_ms": starts[ci] / MS, "flavour": flavour});
        match (res, &want) {
            (None, _) => r.violation(&format!("lookup/{flavour}/did-not-complete"), "get_mutable_most_recent did not return", case.clone(), detail),
            (Some(None), None) => {}
            (Some(None), Some(_)) => r.violation(&format!("lookup/{flavour}/{who}/none-although-items-were-delivered"), "None although the lookup received genuine items", case.clone(), detail),
            (Some(Some(_)), None) => r.violation(&format!("lookup/{flavour}/{who}/some-although-nothing-genuine"), "an item although no replica holds one", case.clone(), detail),
            (Some(Some(g)), Some((seq, v))) => {
                if g.seq() != *seq {
                    r.violation(&format!("lookup/{flavour}/{who}/not-max-seq"), "returned an item whose seq is not the maximum over the genuine items the lookup received", case.clone(), json!({"returned_seq": g.seq().to_string(), "max_seq": seq.to_string(), "caller": detail}));
                } else if g.value() != &v[..] {
                    r.violation(&format!("lookup/{flavour}/{who}/tie-not-greatest-value"), "among the genuine items of the maximal seq the greatest value was not returned", case.clone(), json!({"returned": crate::bencode::hex(g.value()), "greatest": crate::bencode::hex(v), "caller": detail}));
                }
            }
        }
    }
    let distinct: std::collections::HashSet<(i64, Vec<u8>)> = genuine.iter().map(|i| (i.seq(), i.value().to_vec())).collect();
    if distinct.len() >= 2 {
        r.nontrivial(mix(seed, w.order_hash()));
        r.count("lookup_worlds_with_two_or_more_distinct_genuine_items");
    }
    if shape.iter().any(|s| (1..=4).contains(s)) {
        r.count("lookup_worlds_with_a_reply_of_another_shape");
    }
    if shape.iter().any(|s| *s == 5) {
        r.count("lookup_worlds_with_a_silent_replica");
    }
    if starts.len() > 1 {
        r.count("lookup_worlds_with_joined_callers");
    }
    if w.stuck() {
        r.inconclusive("scheduler watchdog fired");
    }
    drop(x);
    w.shutdown();
    for (thread, loc, msg) in crate::take_panics() {
        r.violation(&format!("panic/{loc}"), &format!("thread {thread} panicked: {msg}"), case.clone(), json!({}));
    }
}

/// Slow networks: every datagram takes 250..400 ms, so round trips are above the initial 500 ms request
/// timeout; after warm-up lookups the node's adaptive request timeout (read through the snapshot hook) is
/// above every round trip. Then a series of get_mutable_most_recent lookups runs against replicas of
/// one key; in each, one replica (a different one every time) holds a newer seq than all others, and every
/// answer refers the lookup to one more contact nobody sits at (so requests keep being added while the
/// first answers are still on their way, and expired ones pile up in the in-flight vector between lookups).
/// An answer that arrives within the node's own timeout while the lookup runs was delivered: the result
/// must carry the newest seq.
pub fn slow_lookup_scenario(r: &mut Report, seed: u64) {
    use crate::bencode::B;
    use crate::krpc::*;
    use crate::simnet::*;
    use std::cell::RefCell;
    use std::net::{Ipv4Addr, SocketAddrV4};
    use std::rc::Rc;
    r.eval();
    let mut rng = Rng::new(seed);
    let (lat_min, lat_max) = (250 * MS, (300 + rng.below(100)) * MS);
    let w = World::with_cfg(seed, NetCfg { lat_min, lat_max, random_ties: true }, TraceLevel::Off);
    let signer = SigningKey::from_bytes(&rng.array::<32>());
    let salt: Option<Vec<u8>> = if rng.bool() { Some(rng.blob(1, 12)) } else { None };
    let key = signer.verifying_key().to_bytes();
    let target = crate::sha1::mutable_target(&key, salt.as_deref());
    let n = *rng.pick(&[2usize, 3, 4, 5, 6, 7, 8, 11, 12, 15, 16]);
    let case = json!({"class":"slow-lookup","seed":seed.to_string(),"replicas":n,"one_way_latency_ms":[lat_min / MS, lat_max / MS]});
    let ends: Vec<([u8; 20], SocketAddrV4)> = (0..n).map(|i| (rng.array(), SocketAddrV4::new(Ipv4Addr::new(54, 0, 0, 1 + i as u8), 6881))).collect();
    let socks: Vec<SockId> = ends.iter().map(|e| w.raw(e.1)).collect();
    // (round, index of the replica with the newest item); seq = 10 * round (+ 1 for the newest)
    let round: Rc<RefCell<(i64, usize)>> = Rc::new(RefCell::new((0, 0)));
    let served: Rc<RefCell<Vec<i64>>> = Rc::new(RefCell::new(vec![]));
    let dead_per_answer = rng.usize(3);
    {
        let (ends2, socks2, round2, served2, signer2, salt2) = (ends.clone(), socks.clone(), round.clone(), served.clone(), signer.clone(), salt.clone());
        let mut fresh = 0u32;
        w.set_responder(Some(Box::new(move |w, sock, d| {
            let Some(i) = socks2.iter().position(|s| *s == sock) else { return false };
            let Some(q) = Krpc::parse(&d.bytes) else { return true };
            if q.y != b'q' {
                return true;
            }
            let mut list = ends2.clone();
            if let Some(t) = q.target() {
                for _ in 0..dead_per_answer {
                    fresh += 1;
                    let mut id = t;
                    id[16..20].copy_from_slice(&fresh.to_be_bytes());
                    list.push((id, SocketAddrV4::new(Ipv4Addr::new(55, (fresh >> 16) as u8, (fresh >> 8) as u8, fresh as u8), 6881)));
                }
            }
            let mut rd = vec![("id", B::bytes(&ends2[i].0)), ("nodes", B::Bytes(nodes_bytes(&list)))];
            if q.is_query("get") && q.target() == Some(target) {
                let (k, newest) = *round2.borrow();
                let seq = 10 * k + if i == newest { 1 } else { 0 };
                let item = MutableItem::new(&signer2, format!("v{seq}").as_bytes(), seq, salt2.as_deref());
                rd.push(("token", B::bytes(b"tokn")));
                rd.push(("v", B::bytes(item.value())));
                rd.push(("k", B::bytes(item.key())));
                rd.push(("sig", B::bytes(item.signature())));
                rd.push(("seq", B::Int(seq as i128)));
                served2.borrow_mut().push(seq);
            } else if !q.is_query("find_node") && !q.is_query("ping") {
                rd.push(("token", B::bytes(b"tokn")));
            }
            w.raw_send(sock, &response(&q.t, B::dict(rd), Some(&d.from), Some(&VERSION_RS6)).encode(), d.from);
            true
        })));
    }
    let boots: Vec<SocketAddrV4> = ends.iter().map(|e| e.1).collect();
    let x_server = rng.bool();
    let x = match w.spawn(if x_server { NodeSpec::server(Ipv4Addr::new(54, 0, 9, 9), &boots) } else { NodeSpec::client(Ipv4Addr::new(54, 0, 9, 9), &boots) }) {
        Ok(x) => x,
        Err(_) => { r.inconclusive("slow lookup scenario: node did not start"); return }
    };
    w.block_on(x.adht.bootstrapped(), 120 * SEC);
    for _ in 0..6 {
        let a = x.adht.clone();
        let t = dht::Id::from(rng.array::<20>());
        w.block_on(async move { drop(a.get_closest_nodes(t).await) }, 120 * SEC);
        w.run_for(SEC);
    }
    let timeout = super::net::snapshot(&w, &x).map(|s| s.request_timeout.as_nanos() as u64).unwrap_or(0);
    r.count("slow_lookup_scenarios");
    if timeout <= 2 * lat_max + 20 * MS {
        r.count("slow_lookup/premise-unmet-timeout-below-round-trip");
        drop(x);
        return;
    }
    let sync = rng.chance(1, 3);
    let mut failed: Vec<Value> = vec![];
    let lookups = 40;
    let log = super::net::log_exchanges(&w, x.addr);
    for k in 1..=lookups as i64 {
        *round.borrow_mut() = (k, rng.usize(n));
        served.borrow_mut().clear();
        // (the node's timeout moves with every answer it takes - a run of similar round trips shrinks the deviation
        // term -, so it is read at every iteration of the node's loop; an answer counts as delivered if, by that
        // timeline, its request was never older than the timeout in force until the answer was received)
        let mark = log.lock().unwrap_or_else(|e| e.into_inner()).len();
        let (res, mut line): (Option<Option<MutableItem>>, Vec<(u64, u64)>) = if sync {
            let d = x.dht.clone();
            let sl = salt.clone();
            let h = std::thread::spawn(move || d.get_mutable_most_recent(&key, sl.as_deref()));
            if !super::net::wait_until_call_registered(&w, &x, || 1, || h.is_finished()) {
                r.inconclusive("a helper thread's blocking call did not reach the actor within 20 real seconds");
            }
            let (_, line) = super::net::run_until_sampling_timeout(&w, &x, 300 * SEC, |_| h.is_finished());
            (if h.is_finished() { h.join().ok() } else { None }, line)
        } else {
            let a = x.adht.clone();
            let sl = salt.clone();
            let mut task = Task::new(w.now(), async move { a.get_mutable_most_recent(&key, sl.as_deref()).await });
            let (_, line) = super::net::run_until_sampling_timeout(&w, &x, 300 * SEC, |w| task.poll(w.now()));
            (task.result.take(), line)
        };
        r.count("slow_lookup/lookups");
        let newest_addr = ends[round.borrow().1].1;
        let newest_exchange = log.lock().unwrap_or_else(|e| e.into_inner())[mark..].iter().rev().find(|e| e.to == newest_addr && e.name == "get" && e.target == Some(target)).cloned();
        // (the call may have returned before that answer arrives: the timeline has to cover that moment)
        if let Some(super::net::Exchange { answered: Some(t_a), .. }) = &newest_exchange {
            super::net::extend_sampling_until(&w, &x, *t_a, &mut line);
        }
        let delivered = match &newest_exchange {
            Some(super::net::Exchange { sent, answered: Some(t_a), .. }) => super::net::alive_until_answered(&line, *sent, *t_a),
            _ => false,
        };
        if delivered {
            r.count("slow_lookup/lookups_with_the_newest_item_delivered_by_the_nodes_own_clock");
            let got = res.as_ref().and_then(|o| o.as_ref().map(|i| i.seq()));
            if res.is_none() || got != Some(10 * k + 1) {
                let e = newest_exchange.expect("exchange");
                failed.push(json!({"lookup": k, "returned_seq": got.map(|s| s.to_string()), "newest_seq": (10 * k + 1).to_string(), "completed": res.is_some(), "round_trip_of_the_newest_item_ms": (e.answered.unwrap_or(0) - e.sent) / MS, "smallest_request_timeout_meanwhile_ms": line.iter().filter(|(t, _)| *t >= e.sent && *t <= e.answered.unwrap_or(0)).map(|(_, to)| to / MS).min()}));
            }
        }
        w.run_for(rng.below(1500) * MS);
    }
    r.nontrivial(mix(seed, n as u64));
    if !failed.is_empty() {
        r.violation(
            &format!("lookup/{}/slow-network/not-max-seq", if sync { "sync" } else { "async" }),
            "the replica holding the newest item answered within the node's own (adapted) request timeout - read at every iteration of the node's loop - while the lookup ran, yet get_mutable_most_recent did not return that item's seq",
            case.clone(),
            json!({"failed": failed, "request_timeout_after_warm_up_ms": timeout / MS, "server_mode": x_server, "dead_referrals_per_answer": dead_per_answer}),
        );
    }
    if w.stuck() {
        r.inconclusive("scheduler watchdog fired");
    }
    drop(x);
    w.shutdown();
    for (thread, loc, msg) in crate::take_panics() {
        r.violation(&format!("panic/{loc}"), &format!("thread {thread} panicked: {msg}"), case.clone(), json!({}));
    }
}

pub fn run(a: &Args) -> Report {
    let mut r = Report::new("C16");
    if let Some(path) = &a.replay {
        let v: Value = serde_json::from_str(&std::fs::read_to_string(path).unwrap_or_default()).unwrap_or_default();
        if v["case"]["class"] == "lookup" {
            let seed = v["case"]["seed"].as_str().and_then(|s| s.parse().ok()).unwrap_or(1);
            super::guarded(&mut r, v["case"].clone(), |r| lookup_scenario(r, seed));
            return r;
        }
        if v["case"]["class"] == "slow-lookup" {
            let seed = v["case"]["seed"].as_str().and_then(|s| s.parse().ok()).unwrap_or(1);
            super::guarded(&mut r, v["case"].clone(), |r| slow_lookup_scenario(r, seed));
            return r;
        }
    }
    let signer = SigningKey::from_bytes(&[7u8; 32]);
    let key = signer.verifying_key().to_bytes();
    let salts: [Option<&[u8]>; 2] = [None, Some(b"salt")];
    let max_len = if a.quick() { 5 } else { 7 };
    let (dht, script) = scripted_dht();
    let adht = dht.clone().as_async();

    // persistent helper thread for the sync flavour
    let (req_tx, req_rx) = flume::unbounded::<()>();
    let (res_tx, res_rx) = flume::unbounded();
    let dht2 = dht.clone();
    let salt_sel = std::sync::Arc::new(std::sync::atomic::AtomicUsize::new(0));
    let salt_sel2 = salt_sel.clone();
    let worker = std::thread::spawn(move || {
        while req_rx.recv().is_ok() {
            let salt: Option<&[u8]> = if salt_sel2.load(std::sync::atomic::Ordering::SeqCst) == 0 { None } else { Some(b"salt") };
            let res = std::panic::catch_unwind(std::panic::AssertUnwindSafe(|| dht2.get_mutable_most_recent(&key, salt))).map_err(|_| "panic".to_string());
            if res_tx.send(res).is_err() {
                break;
            }
        }
    });
    let sw = SyncWorker { tx: req_tx, rx: res_rx };

    let mut run_stream = |r: &mut Report, stream: &[&MutableItem], si: usize, alphabet: usize| {
        let owned: Vec<MutableItem> = stream.iter().map(|i| (*i).clone()).collect();
        // async flavour
        let res = std::panic::catch_unwind(std::panic::AssertUnwindSafe(|| {
            let mut fut = Box::pin(adht.get_mutable_most_recent(&key, salts[si]));
            let first = poll_once(fut.as_mut());
            if first.is_ready() {
                return Err("future completed before the actor answered".to_string());
            }
            if !script.serve_get_mutable(&owned, false) {
                return Err("no get_mutable call reached the actor channel".to_string());
            }
            match poll_once(fut.as_mut()) {
                Poll::Ready(v) => Ok(v),
                Poll::Pending => Err("future still pending after the stream ended".to_string()),
            }
        }));
        match res {
            Err(_) => judge(r, "async", stream, Err("panic".into()), alphabet),
            Ok(Err(e)) => r.inconclusive(&format!("async harness: {e}")),
            Ok(Ok(v)) => judge(r, "async", stream, Ok(v), alphabet),
        }
        // sync flavour through the helper thread
        salt_sel.store(si, std::sync::atomic::Ordering::SeqCst);
        if sw.tx.send(()).is_err() || !script.serve_get_mutable(&owned, true) {
            r.inconclusive("sync harness: helper thread gone");
            return;
        }
        match sw.rx.recv_timeout(std::time::Duration::from_secs(20)) {
            Ok(v) => judge(r, "sync", stream, v, alphabet),
            Err(_) => r.inconclusive("sync harness: no result within 20 s real time"),
        }
    };

    // exhaustive: every sequence (all permutations of all multisets) of length 0..=max_len per alphabet
    for (si, salt) in salts.iter().enumerate() {
        let pools = pool(&signer, *salt);
        for (ai, alpha) in pools.iter().enumerate() {
            if a.quick() && si == 1 && ai >= 2 {
                continue;
            }
            let len_cap = if si == 1 { max_len.min(5) } else { max_len };
            for len in 0..=len_cap {
                let total = 6usize.pow(len as u32);
                for code in 0..total {
                    if (code as u64) % a.nshards.max(1) != a.shard {
                        continue;
                    }
                    let mut c = code;
                    let mut stream: Vec<&MutableItem> = Vec::with_capacity(len);
                    for _ in 0..len {
                        stream.push(&alpha[c % 6]);
                        c /= 6;
                    }
                    run_stream(&mut r, &stream, si, ai);
                    if r.want_sample() && code % 7001 == 4321 % total.max(1) && len >= 3 {
                        r.sample(json!({"alphabet": ai, "salt": salt.is_some(), "stream": show(&stream), "expected": oracle(&stream).map(|(s, v)| json!({"seq": s.to_string(), "v": crate::bencode::hex(&v)}))}));
                    }
                }
            }
        }
    }
    // random longer streams over all four alphabets mixed
    let pools = pool(&signer, None);
    let all: Vec<&MutableItem> = pools.iter().flatten().collect();
    let mut rng = Rng::new(mix(a.seed, 0xc16 + a.shard));
    let n_random = (if a.quick() { 32_000 } else { 100_000 }) / a.nshards.max(1);
    for _ in 0..n_random {
        let len = 7 + rng.usize(194);
        let stream: Vec<&MutableItem> = (0..len).map(|_| *rng.pick(&all)).collect();
        run_stream(&mut r, &stream, 0, 9);
        r.count("random_long_streams");
    }
    // replica-shaped streams: many identical copies of one item (what 20 storing nodes answer), with a
    // better item (higher seq, or the same seq with a greater value) before, inside or after the run
    let n_runs = (if a.quick() { 12_800 } else { 40_000 }) / a.nshards.max(1);
    for _ in 0..n_runs {
        let base = *rng.pick(&all);
        let copies = *rng.pick(&[18usize, 19, 20, 21, 25, 40, 60]);
        let mut stream: Vec<&MutableItem> = vec![base; copies];
        let extras = 1 + rng.usize(3);
        for _ in 0..extras {
            let x = *rng.pick(&all);
            let pos = match rng.usize(3) {
                0 => stream.len(),
                1 => 0,
                _ => rng.usize(stream.len() + 1),
            };
            stream.insert(pos, x);
        }
        run_stream(&mut r, &stream, 0, 9);
        r.count("replica_run_streams");
        if oracle(&stream).map(|(s, v)| s != base.seq() || v != base.value()).unwrap_or(false) && stream.last().map(|l| !std::ptr::eq(*l, base)).unwrap_or(false) {
            r.count("replica_runs_beaten_by_a_later_item");
        }
    }
    drop(sw);
    let _ = worker.join();
    // end to end, in SimNet (after the scripted part: the environment is process-global)
    let n_worlds = (if a.quick() { 1_600 } else { 32_000 }) / a.nshards.max(1);
    for _ in 0..n_worlds {
        let seed = rng.u64();
        super::guarded(&mut r, json!({"class":"lookup","seed":seed.to_string()}), |r| lookup_scenario(r, seed));
        r.count("lookup_worlds");
    }
    for _ in 0..(if a.quick() { 160 } else { 3_200 }) / a.nshards.max(1) {
        let seed = rng.u64();
        super::guarded(&mut r, json!({"class":"slow-lookup","seed":seed.to_string()}), |r| slow_lookup_scenario(r, seed));
    }
    r.notes.insert("exhaustive_bound".into(), json!(format!("all sequences of length 0..={max_len} over each 6-item alphabet (= every permutation of every multiset of up to {max_len} items)")));
    r
}

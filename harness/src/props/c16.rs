//! C16 — get_mutable_most_recent returns the newest item seen (sync and async), for every
//! arrival order. The harness plays the actor side of the channel (verif::scripted_dht).
use crate::report::Report;
use crate::rng::{mix, Rng};
use crate::simnet::poll_once;
use crate::Args;
use dht::verif::scripted_dht;
use dht::{MutableItem, SigningKey};
use serde_json::{json, Value};
use std::task::Poll;

fn pool(signer: &SigningKey, salt: Option<&[u8]>) -> Vec<Vec<MutableItem>> {
    let mk = |seq: i64, v: &[u8]| MutableItem::new(signer, v, seq, salt);
    vec![
        // ties with different values at several seqs
        vec![mk(1, b"a"), mk(1, b"b"), mk(2, b"a"), mk(2, b"b"), mk(3, b"a"), mk(3, b"b")],
        // gaps, negatives, extremes
        vec![mk(-1, b"x"), mk(0, b"x"), mk(1, b"x"), mk(i64::MAX, b"x"), mk(i64::MIN, b"x"), mk(7, b"x")],
        // one seq, six values (prefixes, empty, high bytes)
        vec![mk(5, b""), mk(5, b"a"), mk(5, b"b"), mk(5, b"ab"), mk(5, b"\xff"), mk(5, b"a\0")],
        // descending run with duplicates of the same item and a tie at the top
        vec![mk(3, b"m"), mk(3, b"m"), mk(2, b"z"), mk(1, b"zz"), mk(3, b"n"), mk(0, b"")],
    ]
}

fn oracle(items: &[&MutableItem]) -> Option<(i64, Vec<u8>)> {
    let max = items.iter().map(|i| i.seq()).max()?;
    let v = items.iter().filter(|i| i.seq() == max).map(|i| i.value().to_vec()).max()?;
    Some((max, v))
}

fn show(items: &[&MutableItem]) -> Value {
    json!(items.iter().map(|i| json!({"seq": i.seq().to_string(), "v": crate::bencode::hex(i.value())})).collect::<Vec<_>>())
}

struct SyncWorker {
    tx: flume::Sender<()>,
    rx: flume::Receiver<Result<Option<MutableItem>, String>>,
}

fn judge(r: &mut Report, flavour: &str, stream: &[&MutableItem], got: Result<Option<MutableItem>, String>, alphabet: usize) {
    r.eval();
    let want = oracle(stream);
    let case = || json!({"class":"stream","flavour":flavour,"alphabet":alphabet,"stream": show(stream)});
    let distinct_seqs = { let mut s: Vec<i64> = stream.iter().map(|i| i.seq()).collect(); s.sort(); s.dedup(); s.len() };
    let tie = stream.iter().enumerate().any(|(i, a)| stream[..i].iter().any(|b| b.seq() == a.seq() && b.value() != a.value()));
    match got {
        Err(e) => r.violation(&format!("{flavour}/panic"), &format!("get_mutable_most_recent panicked: {e}"), case(), json!({})),
        Ok(got) => match (got, want) {
            (None, None) => {}
            (None, Some(_)) => r.violation(&format!("{flavour}/none-for-non-empty-stream"), "returned None although items were delivered", case(), json!({})),
            (Some(_), None) => r.violation(&format!("{flavour}/some-for-empty-stream"), "returned an item although nothing was delivered", case(), json!({})),
            (Some(g), Some((seq, v))) => {
                if g.seq() != seq {
                    let pos = if stream.first().map(|f| f.seq()) == Some(g.seq()) { "first-item-wins" } else { "other" };
                    r.violation(&format!("{flavour}/not-max-seq/{pos}"), "returned an item whose seq is not the maximum delivered", case(), json!({"returned_seq": g.seq().to_string(), "max_seq": seq.to_string()}));
                } else if g.value() != &v[..] {
                    r.violation(&format!("{flavour}/tie-not-greatest-value"), "among items of the maximal seq the greatest value was not returned", case(), json!({"returned": crate::bencode::hex(g.value()), "greatest": crate::bencode::hex(&v)}));
                }
            }
        },
    }
    if distinct_seqs >= 2 || tie {
        r.nontrivial_extra += 1;
        r.count(&format!("{flavour}_nontrivial_streams"));
    }
    r.count(&format!("{flavour}_streams"));
}

pub fn run(a: &Args) -> Report {
    let mut r = Report::new("C16");
    let signer = SigningKey::from_bytes(&[7u8; 32]);
    let key = signer.verifying_key().to_bytes();
    let salts: [Option<&[u8]>; 2] = [None, Some(b"salt")];
    let max_len = if a.quick() { 5 } else { 7 };
    let (dht, script) = scripted_dht();
    let adht = dht.clone().as_async();

    // persistent helper thread for the sync flavour
    let (req_tx, req_rx) = flume::unbounded::<()>();
    let (res_tx, res_rx) = flume::unbounded();
    let dht2 = dht.clone();
    let salt_sel = std::sync::Arc::new(std::sync::atomic::AtomicUsize::new(0));
    let salt_sel2 = salt_sel.clone();
    let worker = std::thread::spawn(move || {
        while req_rx.recv().is_ok() {
            let salt: Option<&[u8]> = if salt_sel2.load(std::sync::atomic::Ordering::SeqCst) == 0 { None } else { Some(b"salt") };
            let res = std::panic::catch_unwind(std::panic::AssertUnwindSafe(|| dht2.get_mutable_most_recent(&key, salt))).map_err(|_| "panic".to_string());
            if res_tx.send(res).is_err() {
                break;
            }
        }
    });
    let sw = SyncWorker { tx: req_tx, rx: res_rx };

    let mut run_stream = |r: &mut Report, stream: &[&MutableItem], si: usize, alphabet: usize| {
        let owned: Vec<MutableItem> = stream.iter().map(|i| (*i).clone()).collect();
        // async flavour
        let res = std::panic::catch_unwind(std::panic::AssertUnwindSafe(|| {
            let mut fut = Box::pin(adht.get_mutable_most_recent(&key, salts[si]));
            let first = poll_once(fut.as_mut());
            if first.is_ready() {
                return Err("future completed before the actor answered".to_string());
            }
            if !script.serve_get_mutable(&owned, false) {
                return Err("no get_mutable call reached the actor channel".to_string());
            }
            match poll_once(fut.as_mut()) {
                Poll::Ready(v) => Ok(v),
                Poll::Pending => Err("future still pending after the stream ended".to_string()),
            }
        }));
        match res {
            Err(_) => judge(r, "async", stream, Err("panic".into()), alphabet),
            Ok(Err(e)) => r.inconclusive(&format!("async harness: {e}")),
            Ok(Ok(v)) => judge(r, "async", stream, Ok(v), alphabet),
        }
        // sync flavour through the helper thread
        salt_sel.store(si, std::sync::atomic::Ordering::SeqCst);
        if sw.tx.send(()).is_err() || !script.serve_get_mutable(&owned, true) {
            r.inconclusive("sync harness: helper thread gone");
            return;
        }
        match sw.rx.recv_timeout(std::time::Duration::from_secs(20)) {
            Ok(v) => judge(r, "sync", stream, v, alphabet),
            Err(_) => r.inconclusive("sync harness: no result within 20 s real time"),
        }
    };

    // exhaustive: every sequence (all permutations of all multisets) of length 0..=max_len per alphabet
    for (si, salt) in salts.iter().enumerate() {
        let pools = pool(&signer, *salt);
        for (ai, alpha) in pools.iter().enumerate() {
            if a.quick() && si == 1 && ai >= 2 {
                continue;
            }
            let len_cap = if si == 1 { max_len.min(5) } else { max_len };
            for len in 0..=len_cap {
                let total = 6usize.pow(len as u32);
                for code in 0..total {
                    if (code as u64) % a.nshards.max(1) != a.shard {
                        continue;
                    }
                    let mut c = code;
                    let mut stream: Vec<&MutableItem> = Vec::with_capacity(len);
                    for _ in 0..len {
                        stream.push(&alpha[c % 6]);
                        c /= 6;
                    }
                    run_stream(&mut r, &stream, si, ai);
                    if r.want_sample() && code % 7001 == 4321 % total.max(1) && len >= 3 {
                        r.sample(json!({"alphabet": ai, "salt": salt.is_some(), "stream": show(&stream), "expected": oracle(&stream).map(|(s, v)| json!({"seq": s.to_string(), "v": crate::bencode::hex(&v)}))}));
                    }
                }
            }
        }
    }
    // random longer streams over all four alphabets mixed
    let pools = pool(&signer, None);
    let all: Vec<&MutableItem> = pools.iter().flatten().collect();
    let mut rng = Rng::new(mix(a.seed, 0xc16 + a.shard));
    let n_random = (if a.quick() { 32_000 } else { 100_000 }) / a.nshards.max(1);
    for _ in 0..n_random {
        let len = 7 + rng.usize(194);
        let stream: Vec<&MutableItem> = (0..len).map(|_| *rng.pick(&all)).collect();
        run_stream(&mut r, &stream, 0, 9);
        r.count("random_long_streams");
    }
    // replica-shaped streams: many identical copies of one item (what 20 storing nodes answer), with a
    // better item (higher seq, or the same seq with a greater value) before, inside or after the run
    let n_runs = (if a.quick() { 12_800 } else { 40_000 }) / a.nshards.max(1);
    for _ in 0..n_runs {
        let base = *rng.pick(&all);
        let copies = *rng.pick(&[18usize, 19, 20, 21, 25, 40, 60]);
        let mut stream: Vec<&MutableItem> = vec![base; copies];
        let extras = 1 + rng.usize(3);
        for _ in 0..extras {
            let x = *rng.pick(&all);
            let pos = match rng.usize(3) {
                0 => stream.len(),
                1 => 0,
                _ => rng.usize(stream.len() + 1),
            };
            stream.insert(pos, x);
        }
        run_stream(&mut r, &stream, 0, 9);
        r.count("replica_run_streams");
        if oracle(&stream).map(|(s, v)| s != base.seq() || v != base.value()).unwrap_or(false) && stream.last().map(|l| !std::ptr::eq(*l, base)).unwrap_or(false) {
            r.count("replica_runs_beaten_by_a_later_item");
        }
    }
    drop(sw);
    let _ = worker.join();
    r.notes.insert("exhaustive_bound".into(), json!(format!("all sequences of length 0..={max_len} over each 6-item alphabet (= every permutation of every multiset of up to {max_len} items)")));
    r
}

//! Independent bencode value, strict/lenient parser and canonical encoder (oracle side).
use std::collections::BTreeMap;

#[derive(Clone, Debug, PartialEq, Eq)]
pub enum B {
    Int(i128),
    Bytes(Vec<u8>),
    List(Vec<B>),
    /// Keys in the order they appeared on the wire (canonical = sorted, unique).
    Dict(Vec<(Vec<u8>, B)>),
}

impl B {
    pub fn bytes(b: &[u8]) -> B {
        B::Bytes(b.to_vec())
    }
    pub fn str(s: &str) -> B {
        B::Bytes(s.as_bytes().to_vec())
    }
    pub fn dict(entries: Vec<(&str, B)>) -> B {
        let mut m: BTreeMap<Vec<u8>, B> = BTreeMap::new();
        for (k, v) in entries {
            m.insert(k.as_bytes().to_vec(), v);
        }
        B::Dict(m.into_iter().collect())
    }
    pub fn get(&self, key: &str) -> Option<&B> {
        match self {
            B::Dict(d) => d.iter().find(|(k, _)| k == key.as_bytes()).map(|(_, v)| v),
            _ => None,
        }
    }
    pub fn as_bytes(&self) -> Option<&[u8]> {
        match self {
            B::Bytes(b) => Some(b),
            _ => None,
        }
    }
    pub fn as_int(&self) -> Option<i128> {
        match self {
            B::Int(i) => Some(*i),
            _ => None,
        }
    }
    pub fn as_list(&self) -> Option<&[B]> {
        match self {
            B::List(l) => Some(l),
            _ => None,
        }
    }
    pub fn set(&mut self, key: &str, val: B) {
        if let B::Dict(d) = self {
            if let Some(e) = d.iter_mut().find(|(k, _)| k == key.as_bytes()) {
                e.1 = val;
            } else {
                d.push((key.as_bytes().to_vec(), val));
                d.sort_by(|a, b| a.0.cmp(&b.0));
            }
        }
    }
    pub fn remove(&mut self, key: &str) -> Option<B> {
        if let B::Dict(d) = self {
            if let Some(p) = d.iter().position(|(k, _)| k == key.as_bytes()) {
                return Some(d.remove(p).1);
            }
        }
        None
    }
    /// Encode exactly as held (dict order preserved; lets the harness emit non-canonical input).
    pub fn encode(&self) -> Vec<u8> {
        let mut out = Vec::new();
        self.enc(&mut out);
        out
    }
    fn enc(&self, out: &mut Vec<u8>) {
        match self {
            B::Int(i) => {
                out.push(b'i');
                out.extend_from_slice(i.to_string().as_bytes());
                out.push(b'e');
            }
            B::Bytes(b) => {
                out.extend_from_slice(b.len().to_string().as_bytes());
                out.push(b':');
                out.extend_from_slice(b);
            }
            B::List(l) => {
                out.push(b'l');
                for x in l {
                    x.enc(out);
                }
                out.push(b'e');
            }
            B::Dict(d) => {
                out.push(b'd');
                for (k, v) in d {
                    out.extend_from_slice(k.len().to_string().as_bytes());
                    out.push(b':');
                    out.extend_from_slice(k);
                    v.enc(out);
                }
                out.push(b'e');
            }
        }
    }
    /// Canonical form: dict keys sorted and unique at every level.
    pub fn is_canonical(&self) -> bool {
        match self {
            B::Int(_) | B::Bytes(_) => true,
            B::List(l) => l.iter().all(|x| x.is_canonical()),
            B::Dict(d) => d.windows(2).all(|w| w[0].0 < w[1].0) && d.iter().all(|(_, v)| v.is_canonical()),
        }
    }
    pub fn to_json(&self) -> serde_json::Value {
        use serde_json::Value as V;
        fn bs(b: &[u8]) -> V {
            if !b.is_empty() && b.len() <= 40 && b.iter().all(|c| (0x20..0x7f).contains(c)) {
                V::String(String::from_utf8_lossy(b).into_owned())
            } else {
                V::String(format!("0x{}", hex(b)))
            }
        }
        match self {
            B::Int(i) => V::String(i.to_string()),
            B::Bytes(b) => bs(b),
            B::List(l) => V::Array(l.iter().map(|x| x.to_json()).collect()),
            B::Dict(d) => V::Object(d.iter().map(|(k, v)| (String::from_utf8_lossy(k).into_owned(), v.to_json())).collect()),
        }
    }
}

pub fn hex(b: &[u8]) -> String {
    let mut s = String::with_capacity(b.len() * 2);
    for x in b {
        s.push_str(&format!("{x:02x}"));
    }
    s
}
pub fn unhex(s: &str) -> Vec<u8> {
    (0..s.len() / 2).map(|i| u8::from_str_radix(&s[2 * i..2 * i + 2], 16).unwrap_or(0)).collect()
}

#[derive(Debug, Clone, PartialEq, Eq)]
pub struct ParseInfo {
    /// integers were minimal (no leading zeros, no -0), lengths had no leading zeros
    pub minimal_ints: bool,
    /// every dict had sorted unique keys
    pub sorted_keys: bool,
    /// bytes consumed
    pub consumed: usize,
}

/// Parse one bencode value from the start of `data`. Lenient about canonical form (reports it),
/// strict about structure. Returns None on malformed input.
pub fn parse(data: &[u8]) -> Option<(B, ParseInfo)> {
    let mut p = P { d: data, i: 0, minimal: true, sorted: true, depth: 0 };
    let v = p.value()?;
    Some((v, ParseInfo { minimal_ints: p.minimal, sorted_keys: p.sorted, consumed: p.i }))
}

/// Parse a complete, canonical bencode document.
pub fn parse_strict(data: &[u8]) -> Option<B> {
    let (v, info) = parse(data)?;
    if info.consumed == data.len() && info.minimal_ints && info.sorted_keys {
        Some(v)
    } else {
        None
    }
}

struct P<'a> {
    d: &'a [u8],
    i: usize,
    minimal: bool,
    sorted: bool,
    depth: usize,
}

impl P<'_> {
    fn value(&mut self) -> Option<B> {
        if self.depth > 64 {
            return None;
        }
        match *self.d.get(self.i)? {
            b'i' => {
                self.i += 1;
                let start = self.i;
                while *self.d.get(self.i)? != b'e' {
                    self.i += 1;
                }
                let s = std::str::from_utf8(&self.d[start..self.i]).ok()?;
                self.i += 1;
                if s.is_empty() || s.len() > 38 {
                    return None;
                }
                let (neg, digits) = match s.strip_prefix('-') {
                    Some(r) => (true, r),
                    None => (false, s),
                };
                if digits.is_empty() || !digits.bytes().all(|c| c.is_ascii_digit()) {
                    return None;
                }
                if (digits.len() > 1 && digits.starts_with('0')) || (neg && digits == "0") {
                    self.minimal = false;
                }
                let v: i128 = digits.parse().ok()?;
                Some(B::Int(if neg { -v } else { v }))
            }
            b'0'..=b'9' => Some(B::Bytes(self.bytestr()?)),
            b'l' => {
                self.i += 1;
                self.depth += 1;
                let mut l = Vec::new();
                while *self.d.get(self.i)? != b'e' {
                    l.push(self.value()?);
                }
                self.i += 1;
                self.depth -= 1;
                Some(B::List(l))
            }
            b'd' => {
                self.i += 1;
                self.depth += 1;
                let mut d: Vec<(Vec<u8>, B)> = Vec::new();
                while *self.d.get(self.i)? != b'e' {
                    if !self.d.get(self.i)?.is_ascii_digit() {
                        return None;
                    }
                    let k = self.bytestr()?;
                    let v = self.value()?;
                    if let Some(last) = d.last() {
                        if last.0 >= k {
                            self.sorted = false;
                        }
                    }
                    d.push((k, v));
                }
                self.i += 1;
                self.depth -= 1;
                Some(B::Dict(d))
            }
            _ => None,
        }
    }
    fn bytestr(&mut self) -> Option<Vec<u8>> {
        let start = self.i;
        while self.d.get(self.i)?.is_ascii_digit() {
            self.i += 1;
        }
        if *self.d.get(self.i)? != b':' {
            return None;
        }
        let s = std::str::from_utf8(&self.d[start..self.i]).ok()?;
        if s.len() > 1 && s.starts_with('0') {
            self.minimal = false;
        }
        if s.len() > 9 {
            return None;
        }
        let n: usize = s.parse().ok()?;
        self.i += 1;
        let end = self.i.checked_add(n)?;
        if end > self.d.len() {
            return None;
        }
        let v = self.d[self.i..end].to_vec();
        self.i = end;
        Some(v)
    }
}

//! Hostile datagram corpus: the structured neighbourhood of valid KRPC messages
//! (per-field type/length confusion, missing/duplicate/unsorted keys, truncations, integer edge
//! cases, list-element lengths) plus mutational and grammar-based random datagrams.
use crate::bencode::B;
use crate::props::c10::{gen_message, ref_encode};
use crate::rng::Rng;

/// Valid messages of every kind as bencode trees (kind index 0..18 as in c10::gen_message).
pub fn templates(rng: &mut Rng, per_kind: usize) -> Vec<B> {
    let mut v = Vec::new();
    for kind in 0..19 {
        for _ in 0..per_kind {
            let m = gen_message(rng, kind);
            let mut b = ref_encode(&m, if rng.bool() { 4 } else { 2 });
            // put requests: the crate expects `target`; also produce the BEP44 form without it
            v.push(b.clone());
            if rng.chance(1, 4) {
                if let Some(mut a) = b.remove("a") {
                    a.remove("target");
                    b.set("a", a);
                    v.push(b);
                }
            }
        }
    }
    v
}

fn confusions(orig: &B, rng: &mut Rng) -> Vec<Option<B>> {
    // None = remove the field
    let mut out: Vec<Option<B>> = vec![None, Some(B::Int(0)), Some(B::Int(-1)), Some(B::Int(i64::MAX as i128)), Some(B::Bytes(vec![])), Some(B::List(vec![])), Some(B::Dict(vec![])), Some(B::List(vec![B::Int(1), B::Bytes(b"x".to_vec())]))];
    let n = match orig {
        B::Bytes(b) => b.len(),
        _ => 20,
    };
    for len in [0usize, n.saturating_sub(1), n + 1, n * 2, 1500, 1, 6, 7, 18, 19, 20, 21, 25, 26, 27, 32, 64, 103, 104, 105, 208] {
        out.push(Some(B::Bytes(rng.bytes(len))));
    }
    if let B::Int(i) = orig {
        for d in [1i128, -1, i64::MAX as i128, i64::MIN as i128, u64::MAX as i128, (u64::MAX as i128) + 1, -(u64::MAX as i128), 1i128 << 100] {
            out.push(Some(B::Int(i.wrapping_add(d))));
            out.push(Some(B::Int(d)));
        }
    }
    if let B::List(l) = orig {
        for len in [0usize, 5, 6, 7, 103, 104, 105, 208, 312] {
            let mut l2 = l.clone();
            l2.push(B::Bytes(rng.bytes(len)));
            out.push(Some(B::List(l2)));
            out.push(Some(B::List(vec![B::Bytes(rng.bytes(len))])));
        }
        out.push(Some(B::List(vec![B::Int(5)])));
        out.push(Some(B::List(vec![B::List(vec![])])));
        out.push(Some(B::List(vec![B::Bytes(vec![]), B::Bytes(vec![])])));
    }
    out
}

/// All single-field mutations of a template (top level and inside `a` / `r`), plus key-order,
/// duplicate-key and subset-of-optional-fields variants.
pub fn structured(t: &B, rng: &mut Rng, out: &mut Vec<Vec<u8>>) {
    let top: Vec<Vec<u8>> = match t {
        B::Dict(d) => d.iter().map(|(k, _)| k.clone()).collect(),
        _ => return,
    };
    out.push(t.encode());
    for k in &top {
        let ks = String::from_utf8_lossy(k).into_owned();
        let orig = t.get(&ks).cloned().unwrap_or(B::Int(0));
        for c in confusions(&orig, rng) {
            let mut m = t.clone();
            match c {
                None => {
                    m.remove(&ks);
                }
                Some(v) => m.set(&ks, v),
            }
            out.push(m.encode());
        }
        if ks == "a" || ks == "r" {
            if let B::Dict(inner) = &orig {
                let inner_keys: Vec<String> = inner.iter().map(|(k, _)| String::from_utf8_lossy(k).into_owned()).collect();
                for ik in &inner_keys {
                    let io = orig.get(ik).cloned().unwrap_or(B::Int(0));
                    for c in confusions(&io, rng) {
                        let mut inn = orig.clone();
                        match c {
                            None => {
                                inn.remove(ik);
                            }
                            Some(v) => inn.set(ik, v),
                        }
                        let mut m = t.clone();
                        m.set(&ks, inn);
                        out.push(m.encode());
                    }
                }
                // every subset of the non-id fields (optional-field subsets, missing-field combos)
                let others: Vec<&String> = inner_keys.iter().filter(|k| *k != "id").collect();
                if others.len() <= 8 {
                    for mask in 0..(1u32 << others.len()) {
                        let mut inn = orig.clone();
                        for (i, k) in others.iter().enumerate() {
                            if mask >> i & 1 == 0 {
                                inn.remove(k);
                            }
                        }
                        let mut m = t.clone();
                        m.set(&ks, inn);
                        out.push(m.encode());
                    }
                }
                // extra unknown keys, duplicate key, unsorted keys inside
                let mut inn = orig.clone();
                inn.set("zz-extra", B::Bytes(rng.bytes(9)));
                inn.set("0extra", B::List(vec![B::Int(1)]));
                let mut m = t.clone();
                m.set(&ks, inn);
                out.push(m.encode());
                if let B::Dict(d) = &orig {
                    let mut dup = d.clone();
                    if let Some(first) = dup.first().cloned() {
                        dup.push(first);
                    }
                    let mut rev = d.clone();
                    rev.reverse();
                    for variant in [dup, rev] {
                        let mut m = t.clone();
                        m.set(&ks, B::Dict(variant));
                        out.push(m.encode());
                    }
                }
            }
        }
    }
    // top-level: unsorted, duplicate `t`, both `a` and `r`, wrong `y`
    if let B::Dict(d) = t {
        let mut rev = d.clone();
        rev.reverse();
        out.push(B::Dict(rev).encode());
        let mut dup = d.clone();
        if let Some(e) = dup.iter().find(|e| e.0 == b"t").cloned() {
            dup.push(e);
        }
        out.push(B::Dict(dup).encode());
        for y in ["q", "r", "e", "x", ""] {
            let mut m = t.clone();
            m.set("y", B::str(y));
            out.push(m.encode());
        }
        for q in ["ping", "find_node", "get_peers", "get_signed_peers", "announce_peer", "announce_signed_peer", "get", "put", "vote", ""] {
            let mut m = t.clone();
            m.set("q", B::str(q));
            out.push(m.encode());
        }
        for tlen in [0usize, 1, 2, 3, 4, 5, 8] {
            let mut m = t.clone();
            m.set("t", B::Bytes(rng.bytes(tlen)));
            out.push(m.encode());
        }
        for e in [B::List(vec![]), B::List(vec![B::Int(201)]), B::List(vec![B::str("x"), B::Int(1)]), B::List(vec![B::Int(1i128 << 40), B::str("big")]), B::List(vec![B::Int(201), B::Bytes(vec![0xff, 0xfe])]), B::List(vec![B::Int(201), B::str("a"), B::str("b")])] {
            let mut m = t.clone();
            m.set("y", B::str("e"));
            m.set("e", e);
            out.push(m.encode());
        }
    }
}

/// Truncations at every offset and raw integer spellings (-0, leading zeros, huge).
pub fn raw_variants(bytes: &[u8], out: &mut Vec<Vec<u8>>) {
    for cut in 0..bytes.len() {
        out.push(bytes[..cut].to_vec());
    }
    // respell the first few integers
    let mut i = 0;
    let mut done = 0;
    while i + 2 < bytes.len() && done < 4 {
        if bytes[i] == b'i' && (bytes[i + 1].is_ascii_digit() || bytes[i + 1] == b'-') {
            if let Some(e) = bytes[i..].iter().position(|c| *c == b'e') {
                for sp in ["i-0e", "i00e", "i01e", "i-01e", "ie", "i-e", "i9223372036854775808e", "i-9223372036854775809e", "i18446744073709551616e", "i123456789012345678901234567890e", "i1.5e", "i+1e", "i 1e"] {
                    let mut v = bytes[..i].to_vec();
                    v.extend_from_slice(sp.as_bytes());
                    v.extend_from_slice(&bytes[i + e + 1..]);
                    out.push(v);
                }
                done += 1;
                i += e;
            }
        }
        i += 1;
    }
    // length prefixes
    if let Some(p) = bytes.iter().position(|c| *c == b':') {
        for sp in ["99999999999:", "00:", "-1:", "4294967296:", "18446744073709551616:"] {
            let mut v = bytes[..p.saturating_sub(1)].to_vec();
            v.extend_from_slice(sp.as_bytes());
            v.extend_from_slice(&bytes[p + 1..]);
            out.push(v);
        }
    }
}

pub fn mutate(base: &[u8], other: &[u8], rng: &mut Rng) -> Vec<u8> {
    let mut v = base.to_vec();
    for _ in 0..1 + rng.usize(4) {
        if v.is_empty() {
            v.push(b'd');
        }
        match rng.usize(8) {
            0 => {
                let i = rng.usize(v.len());
                v[i] ^= 1 << rng.usize(8);
            }
            1 => {
                let i = rng.usize(v.len());
                v[i] = *rng.pick(b"dleir0123456789:-\0\xff");
            }
            2 => {
                let i = rng.usize(v.len() + 1);
                v.insert(i, *rng.pick(b"dlei0:e9"));
            }
            3 => {
                let i = rng.usize(v.len());
                v.remove(i);
            }
            4 => {
                // splice
                if !other.is_empty() {
                    let i = rng.usize(v.len());
                    let j = rng.usize(other.len());
                    v.truncate(i);
                    v.extend_from_slice(&other[j..]);
                }
            }
            5 => {
                let i = rng.usize(v.len());
                let n = rng.usize(30);
                let fill = rng.bytes(n);
                v.splice(i..i, fill);
            }
            6 => {
                let i = rng.usize(v.len());
                let j = (i + rng.usize(20)).min(v.len());
                v.drain(i..j);
            }
            _ => {
                let i = rng.usize(v.len());
                let j = (i + rng.usize(40)).min(v.len());
                let dup: Vec<u8> = v[i..j].to_vec();
                v.splice(i..i, dup);
            }
        }
    }
    v.truncate(2048);
    v
}

/// Grammar-based random bencode with KRPC-ish keys.
pub fn grammar(rng: &mut Rng, depth: usize) -> B {
    let keys = ["t", "y", "q", "a", "r", "e", "v", "ip", "ro", "id", "target", "info_hash", "token", "nodes", "values", "peers", "k", "sig", "seq", "cas", "salt", "port", "implied_port", "v"];
    match if depth > 3 { rng.usize(2) } else { rng.usize(5) } {
        0 => B::Int(*rng.pick(&[0i128, 1, -1, 201, 301, 6881, i64::MAX as i128, i64::MIN as i128, u64::MAX as i128])),
        1 => B::Bytes(match rng.usize(6) {
            0 => rng.bytes(20),
            1 => rng.bytes(4),
            2 => b"q".to_vec(),
            3 => b"get".to_vec(),
            4 => { let n = rng.usize(120); rng.bytes(n) }
            _ => { let n = *rng.pick(&[6usize, 26, 32, 64, 104, 52]); rng.bytes(n) }
        }),
        2 => B::List((0..rng.usize(4)).map(|_| grammar(rng, depth + 1)).collect()),
        _ => {
            let mut d = B::Dict(vec![]);
            for _ in 0..1 + rng.usize(7) {
                let k: &str = keys[rng.usize(keys.len())];
                d.set(k, grammar(rng, depth + 1));
            }
            d
        }
    }
}

//! Per-process result file: what the monitors observed, violations with their witnesses.
use serde_json::{json, Map, Value};
use std::collections::{BTreeMap, HashSet};

#[derive(Debug, Clone)]
pub struct Violation {
    /// monitor rule id + identifying part of the witness (matched against known_findings.json)
    pub signature: String,
    pub what: String,
    /// enough to re-execute: {"class":..., "params":..., "seed":...}
    pub case: Value,
    pub detail: Value,
}

pub struct Report {
    pub prop: String,
    pub evaluations: u64,
    pub nontrivial: HashSet<u64>,
    pub counters: BTreeMap<String, u64>,
    pub samples: Vec<Value>,
    pub violations: Vec<Violation>,
    pub inconclusive: Vec<String>,
    pub notes: Map<String, Value>,
    /// distinct non-trivial cases counted by construction (duplicate-free enumerations)
    pub nontrivial_extra: u64,
    max_samples: usize,
    pub seen_sigs: BTreeMap<String, u64>,
}

impl Report {
    pub fn new(prop: &str) -> Self {
        Report {
            prop: prop.to_string(),
            evaluations: 0,
            nontrivial: HashSet::new(),
            counters: BTreeMap::new(),
            samples: Vec::new(),
            violations: Vec::new(),
            inconclusive: Vec::new(),
            notes: Map::new(),
            nontrivial_extra: 0,
            max_samples: 6,
            seen_sigs: BTreeMap::new(),
        }
    }
    pub fn eval(&mut self) {
        self.evaluations += 1;
    }
    pub fn nontrivial(&mut self, key: u64) {
        self.nontrivial.insert(key);
    }
    pub fn count(&mut self, name: &str) {
        *self.counters.entry(name.to_string()).or_insert(0) += 1;
    }
    pub fn add(&mut self, name: &str, n: u64) {
        *self.counters.entry(name.to_string()).or_insert(0) += n;
    }
    pub fn get(&self, name: &str) -> u64 {
        self.counters.get(name).copied().unwrap_or(0)
    }
    pub fn sample(&mut self, v: Value) {
        if self.samples.len() < self.max_samples {
            self.samples.push(v);
        }
    }
    pub fn want_sample(&self) -> bool {
        self.samples.len() < self.max_samples
    }
    /// Record a violation; identical signatures are counted but only the first 3 witnesses kept.
    pub fn violation(&mut self, signature: &str, what: &str, case: Value, detail: Value) {
        let n = self.seen_sigs.entry(signature.to_string()).or_insert(0);
        *n += 1;
        if *n <= 3 {
            self.violations.push(Violation { signature: signature.to_string(), what: what.to_string(), case, detail });
        }
    }
    pub fn inconclusive(&mut self, why: &str) {
        if self.inconclusive.len() < 20 {
            self.inconclusive.push(why.to_string());
        }
    }
    pub fn merge(&mut self, o: Report) {
        self.evaluations += o.evaluations;
        self.nontrivial.extend(o.nontrivial);
        self.nontrivial_extra += o.nontrivial_extra;
        for (k, v) in o.counters {
            *self.counters.entry(k).or_insert(0) += v;
        }
        for s in o.samples {
            self.sample(s);
        }
        for v in o.violations {
            if self.violations.iter().filter(|x| x.signature == v.signature).count() < 3 {
                self.violations.push(v);
            }
        }
        for (k, v) in o.seen_sigs {
            *self.seen_sigs.entry(k).or_insert(0) += v;
        }
        self.inconclusive.extend(o.inconclusive);
        for (k, v) in o.notes {
            self.notes.entry(k).or_insert(v);
        }
    }
    pub fn to_json(&self) -> Value {
        let mut hashes: Vec<u64> = self.nontrivial.iter().copied().collect();
        hashes.sort_unstable();
        json!({
            "property": self.prop,
            "evaluations": self.evaluations,
            "nontrivial_count": hashes.len() as u64 + self.nontrivial_extra,
            "nontrivial_by_construction": self.nontrivial_extra,
            "nontrivial_hashes": if hashes.len() <= 400_000 { json!(hashes.iter().map(|h| format!("{h:016x}")).collect::<Vec<_>>()) } else { Value::Null },
            "counters": self.counters,
            "samples": self.samples,
            "violations": self.violations.iter().map(|v| json!({"signature": v.signature, "what": v.what, "case": v.case, "detail": v.detail})).collect::<Vec<_>>(),
            "violation_counts": self.seen_sigs,
            "inconclusive": self.inconclusive,
            "notes": self.notes,
        })
    }
    pub fn write(&self, path: &str) {
        let s = serde_json::to_string(&self.to_json()).expect("json");
        std::fs::write(path, s).expect("write report");
    }
}

//! SimNet: in-memory UDP network with a virtual clock and a baton scheduler.
//!
//! The unmodified `actor::run` loops run on their real OS threads; a node thread only runs
//! between two `recv_from` calls, one at a time, when the scheduler hands it the baton. The
//! scheduler owns time (jumps to the next datagram delivery or poll timeout), message fate
//! (latency, drop, duplicate, rewrite, NAT) and node fate (crash, restart).
use std::collections::{BTreeMap, HashMap, HashSet, VecDeque};
use std::future::Future;
use std::io;
use std::net::{Ipv4Addr, SocketAddr, SocketAddrV4};
use std::pin::Pin;
use std::sync::{Arc, Condvar, Mutex, MutexGuard};
use std::task::{Context, Poll, RawWaker, RawWakerVTable, Waker};
use std::time::Duration;

use dht::async_dht::AsyncDht;
use dht::{Dht, ServerSettings};

use crate::rng::Rng;

pub type SockId = u64;

pub const MS: u64 = 1_000_000;
pub const SEC: u64 = 1_000_000_000;
pub const MIN: u64 = 60 * SEC;

#[derive(Clone, Debug)]
pub struct Dgram {
    pub seq: u64,
    pub from: SocketAddrV4,
    pub to: SocketAddrV4,
    pub bytes: Arc<Vec<u8>>,
}

#[derive(Clone, Debug)]
pub enum Ev {
    Send { t: u64, seq: u64, from: SocketAddrV4, to: SocketAddrV4, bytes: Arc<Vec<u8>>, raw: bool },
    Deliver { t: u64, seq: u64, to: SocketAddrV4, from: SocketAddrV4, bytes: Arc<Vec<u8>> },
    Drop { t: u64, seq: u64, why: &'static str },
    Bind { t: u64, sock: SockId, addr: SocketAddrV4 },
    Close { t: u64, sock: SockId, addr: SocketAddrV4, panicked: bool },
}

#[derive(Clone, Copy, Debug, PartialEq, Eq)]
pub enum TraceLevel {
    Off,
    Full,
}

#[derive(Clone, Copy, Debug, PartialEq, Eq)]
enum St {
    Running,
    Parked { deadline: u64 },
    Granted,
    Closed { panicked: bool },
}

#[derive(Clone, Copy, Debug, PartialEq, Eq)]
enum Kind {
    Node,
    Raw,
}

struct Nat {
    allowed: HashSet<SocketAddrV4>,
    /// a static port forward: everything sent to the public address reaches the node, its own datagrams included
    open: bool,
}

struct Sock {
    addr: SocketAddrV4,
    kind: Kind,
    st: St,
    cv: Arc<Condvar>,
    q: BTreeMap<(u64, u64), Dgram>,
    crashed: bool,
    nat: Option<Nat>,
    mailbox: VecDeque<(u64, Dgram)>,
}

#[derive(Clone, Debug)]
pub struct BindPlan {
    /// the node thread may proceed past bind only once the harness has queued its Check message
    pub released: bool,
    pub ip: Ipv4Addr,
    /// Some(public address) = the node sits behind an address-restricted NAT that maps it there.
    pub nat_public: Option<SocketAddrV4>,
    /// the mapping is a static port forward (nothing is filtered, hairpinning works)
    pub nat_open: bool,
}

/// What the fault hook sees for every datagram handed to the network.
pub struct SendInfo<'a> {
    pub now: u64,
    pub seq: u64,
    pub from: SocketAddrV4,
    pub to: SocketAddrV4,
    pub bytes: &'a [u8],
    pub raw: bool,
    /// latency the default plan drew for this datagram
    pub latency: u64,
}

/// Copies to deliver: (bytes, delay). Empty = drop. None = default (one copy, drawn latency).
pub type FaultHook = Box<dyn FnMut(&SendInfo) -> Option<Vec<(Vec<u8>, u64)>> + Send>;

pub struct NetCfg {
    pub lat_min: u64,
    pub lat_max: u64,
    /// random tie-breaking among sockets that wake at the same instant
    pub random_ties: bool,
}

impl Default for NetCfg {
    fn default() -> Self {
        NetCfg { lat_min: MS, lat_max: 200 * MS, random_ties: true }
    }
}

struct Inner {
    now: u64,
    unix_base_us: u64,
    unix_skew_us: i64,
    next_sock: u64,
    next_seq: u64,
    next_port: u16,
    socks: BTreeMap<SockId, Sock>,
    by_addr: HashMap<SocketAddrV4, SockId>,
    bind_plan: VecDeque<BindPlan>,
    rng: Rng,
    cfg: NetCfg,
    fault: Option<FaultHook>,
    trace: Vec<Ev>,
    trace_level: TraceLevel,
    steps: u64,
    stuck: bool,
    order_hash: u64,
    sends: u64,
    delivers: u64,
    send_errors: u64,
    /// deliver datagrams addressed to 0.0.0.0 or 127.0.0.0/8 to the sender's own host, as Linux does
    local_delivery: bool,
}

pub struct Shared {
    m: Mutex<Inner>,
    sched_cv: Condvar,
}

impl Shared {
    fn lock(&self) -> MutexGuard<'_, Inner> {
        self.m.lock().unwrap_or_else(|e| e.into_inner())
    }
}

fn v4(a: SocketAddr) -> SocketAddrV4 {
    match a {
        SocketAddr::V4(a) => a,
        SocketAddr::V6(_) => SocketAddrV4::new(Ipv4Addr::UNSPECIFIED, 0),
    }
}

impl dht::verif::Env for Shared {
    fn now(&self) -> Duration {
        Duration::from_nanos(self.lock().now)
    }
    fn unix_micros(&self) -> u64 {
        let g = self.lock();
        (g.unix_base_us as i64 + (g.now / 1000) as i64 + g.unix_skew_us) as u64
    }
    fn bind(&self, requested: SocketAddr) -> io::Result<(u64, SocketAddr)> {
        let mut g = self.lock();
        let plan = loop {
            match g.bind_plan.front().cloned() {
                Some(p) if p.released => break p,
                Some(_) => {
                    g = self.sched_cv.wait(g).unwrap_or_else(|e| e.into_inner());
                }
                None => return Err(io::Error::new(io::ErrorKind::AddrNotAvailable, "simnet: unplanned bind")),
            }
        };
        let mut port = requested.port();
        if port == 0 {
            loop {
                g.next_port = if g.next_port >= 60999 { 32768 } else { g.next_port + 1 };
                port = g.next_port;
                if !g.by_addr.contains_key(&SocketAddrV4::new(plan.ip, port)) {
                    break;
                }
            }
        }
        let addr = SocketAddrV4::new(plan.ip, port);
        let public = plan.nat_public.unwrap_or(addr);
        if g.by_addr.contains_key(&public) || g.by_addr.contains_key(&addr) {
            // like the OS: the caller may retry with another port (the plan stays queued)
            return Err(io::Error::new(io::ErrorKind::AddrInUse, "simnet: address in use"));
        }
        g.bind_plan.pop_front();
        let id = g.next_sock;
        g.next_sock += 1;
        let t = g.now;
        g.socks.insert(
            id,
            Sock {
                addr: public,
                kind: Kind::Node,
                st: St::Running,
                cv: Arc::new(Condvar::new()),
                q: BTreeMap::new(),
                crashed: false,
                nat: plan.nat_public.map(|_| Nat { allowed: HashSet::new(), open: plan.nat_open }),
                mailbox: VecDeque::new(),
            },
        );
        g.by_addr.insert(public, id);
        if g.trace_level == TraceLevel::Full {
            g.trace.push(Ev::Bind { t, sock: id, addr: public });
        }
        // like std: a socket bound to 0.0.0.0 reports 0.0.0.0
        Ok((id, SocketAddr::V4(SocketAddrV4::new(*v4(requested).ip(), port))))
    }
    fn close(&self, sock: u64, panicking: bool) {
        let mut g = self.lock();
        let t = g.now;
        if let Some(s) = g.socks.get_mut(&sock) {
            s.st = St::Closed { panicked: panicking };
            s.q.clear();
            let addr = s.addr;
            if g.by_addr.get(&addr) == Some(&sock) {
                g.by_addr.remove(&addr);
            }
            if g.trace_level == TraceLevel::Full {
                g.trace.push(Ev::Close { t, sock, addr, panicked: panicking });
            }
        }
        self.sched_cv.notify_all();
    }
    fn send_to(&self, sock: u64, buf: &[u8], to: SocketAddr) -> io::Result<usize> {
        // what Linux does for a UDP socket: port 0 is EINVAL, the broadcast address without SO_BROADCAST
        // is EACCES (a hostile referral can name either)
        let to4 = v4(to);
        if to4.port() == 0 {
            self.lock().send_errors += 1;
            return Err(io::Error::new(io::ErrorKind::InvalidInput, "simnet: EINVAL (port 0)"));
        }
        if to4.ip().is_broadcast() {
            self.lock().send_errors += 1;
            return Err(io::Error::new(io::ErrorKind::PermissionDenied, "simnet: EACCES (broadcast)"));
        }
        let mut g = self.lock();
        g.send(sock, buf, to4, false, 0);
        Ok(buf.len())
    }
    fn recv_from(&self, sock: u64, buf: &mut [u8], timeout: Option<Duration>) -> io::Result<(usize, SocketAddr)> {
        let mut g = self.lock();
        let now = g.now;
        let cv = {
            let s = match g.socks.get_mut(&sock) {
                Some(s) => s,
                None => return Err(io::Error::new(io::ErrorKind::NotConnected, "simnet: closed")),
            };
            let deadline = match timeout {
                Some(d) => now.saturating_add(d.as_nanos() as u64),
                None => u64::MAX,
            };
            s.st = St::Parked { deadline };
            s.cv.clone()
        };
        self.sched_cv.notify_all();
        loop {
            g = cv.wait(g).unwrap_or_else(|e| e.into_inner());
            if g.socks.get(&sock).map(|s| s.st) == Some(St::Granted) {
                break;
            }
        }
        let now = g.now;
        let level = g.trace_level;
        let s = g.socks.get_mut(&sock).expect("sock");
        s.st = St::Running;
        let first = s.q.keys().next().copied();
        if let Some(key) = first {
            if key.0 <= now {
                let d = s.q.remove(&key).expect("dgram");
                let n = d.bytes.len().min(buf.len());
                buf[..n].copy_from_slice(&d.bytes[..n]);
                let to = s.addr;
                g.delivers += 1;
                g.order_hash = crate::rng::mix(g.order_hash, d.seq ^ ((sock) << 40));
                if level == TraceLevel::Full {
                    g.trace.push(Ev::Deliver { t: now, seq: d.seq, to, from: d.from, bytes: d.bytes.clone() });
                }
                return Ok((n, SocketAddr::V4(d.from)));
            }
        }
        Err(io::Error::new(io::ErrorKind::WouldBlock, "simnet: timeout"))
    }
}

impl Inner {
    /// Hand a datagram to the network. `extra_delay` is added to the drawn latency.
    fn send(&mut self, sock: SockId, buf: &[u8], to: SocketAddrV4, raw: bool, extra_delay: u64) {
        let now = self.now;
        let (from, crashed, natted) = match self.socks.get_mut(&sock) {
            Some(s) => {
                if let Some(nat) = s.nat.as_mut() {
                    nat.allowed.insert(to);
                }
                (s.addr, s.crashed || matches!(s.st, St::Closed { .. }), s.nat.is_some())
            }
            None => return,
        };
        let seq = self.next_seq;
        self.next_seq += 1;
        self.sends += 1;
        let bytes = Arc::new(buf.to_vec());
        let full = self.trace_level == TraceLevel::Full;
        if full {
            self.trace.push(Ev::Send { t: now, seq, from, to, bytes: bytes.clone(), raw });
        }
        if crashed {
            if full {
                self.trace.push(Ev::Drop { t: now, seq, why: "sender-crashed" });
            }
            return;
        }
        let latency = self.rng.range(self.cfg.lat_min, self.cfg.lat_max) + extra_delay;
        let mut copies: Vec<(Arc<Vec<u8>>, u64)> = vec![(bytes.clone(), latency)];
        if let Some(mut hook) = self.fault.take() {
            let info = SendInfo { now, seq, from, to, bytes: buf, raw, latency };
            if let Some(v) = hook(&info) {
                copies = v.into_iter().map(|(b, d)| (Arc::new(b), d)).collect();
            }
            self.fault = Some(hook);
        }
        if copies.is_empty() {
            if full {
                self.trace.push(Ev::Drop { t: now, seq, why: "fault-plan" });
            }
            return;
        }
        // "This host": what Linux does with a datagram for 0.0.0.0 or 127.0.0.0/8 - it goes to the socket
        // bound to that port on the sender's own host, and arrives with the loopback address as its source.
        let (lookup, from) = if self.local_delivery && (to.ip().is_unspecified() || to.ip().is_loopback()) && !from.ip().is_loopback() && !natted {
            (SocketAddrV4::new(*from.ip(), to.port()), SocketAddrV4::new(Ipv4Addr::LOCALHOST, from.port()))
        } else {
            (to, from)
        };
        for (b, delay) in copies {
            let dest = match self.by_addr.get(&lookup).copied() {
                Some(d) => d,
                None => {
                    if full {
                        self.trace.push(Ev::Drop { t: now, seq, why: "no-socket" });
                    }
                    continue;
                }
            };
            let ds = self.socks.get_mut(&dest).expect("dest");
            if ds.crashed {
                if full {
                    self.trace.push(Ev::Drop { t: now, seq, why: "dest-crashed" });
                }
                continue;
            }
            if let Some(nat) = ds.nat.as_ref() {
                // address-restricted cone NAT without hairpinning
                if !nat.open && (from == ds.addr || !nat.allowed.contains(&from)) {
                    if full {
                        self.trace.push(Ev::Drop { t: now, seq, why: "nat-filtered" });
                    }
                    continue;
                }
            }
            let k = self.next_seq;
            self.next_seq += 1;
            ds.q.insert((now + delay, k), Dgram { seq, from, to, bytes: b });
        }
    }
}

#[derive(Debug, Clone, Copy, PartialEq, Eq)]
pub enum Step {
    Node(SockId),
    Raw(SockId),
    Idle,
    Stuck,
}

/// A running node and its handles.
pub struct Node {
    pub dht: Dht,
    pub adht: AsyncDht,
    pub sock: SockId,
    /// address other nodes see (public side of a NAT if any)
    pub addr: SocketAddrV4,
}

#[derive(Clone)]
pub struct NodeSpec {
    pub ip: Ipv4Addr,
    pub port: Option<u16>,
    pub server: bool,
    pub bootstrap: Vec<SocketAddrV4>,
    /// bootstrap entries given as raw strings (host names, malformed entries), listed before `bootstrap`
    pub bootstrap_names: Vec<String>,
    pub public_ip: Option<Ipv4Addr>,
    pub settings: Option<ServerSettings>,
    pub nat_public: Option<SocketAddrV4>,
    pub nat_open: bool,
}

impl NodeSpec {
    pub fn server(ip: Ipv4Addr, bootstrap: &[SocketAddrV4]) -> Self {
        NodeSpec { ip, port: None, server: true, bootstrap: bootstrap.to_vec(), bootstrap_names: vec![], public_ip: None, settings: None, nat_public: None, nat_open: false }
    }
    pub fn client(ip: Ipv4Addr, bootstrap: &[SocketAddrV4]) -> Self {
        NodeSpec { server: false, ..NodeSpec::server(ip, bootstrap) }
    }
}

/// Called for every datagram delivered to a raw endpoint; returns true if it consumed it
/// (otherwise the datagram is queued in the endpoint's mailbox). May call `raw_send*`.
pub type Responder = Box<dyn FnMut(&World, SockId, &Dgram) -> bool>;

/// Called (with the number of 200 ms real-time waits so far) while the scheduler waits for a node thread
/// that was handed the baton and has neither parked in its socket read nor closed its socket. A node thread
/// only computes between two socket reads, so a wait of seconds means it is blocked on something else -
/// e.g. a full channel towards an API caller. The hook runs on the scheduler thread with the world lock
/// held: it must not call into the world; it may poll API futures / streams.
pub type BlockedHook = Box<dyn FnMut(u32)>;

pub struct World {
    pub sh: Arc<Shared>,
    responder: std::cell::RefCell<Option<Responder>>,
    blocked_hook: std::cell::RefCell<Option<BlockedHook>>,
}

static WORLD_ACTIVE: Mutex<bool> = Mutex::new(false);

impl World {
    pub fn new(seed: u64) -> World {
        Self::with_cfg(seed, NetCfg::default(), TraceLevel::Full)
    }

    pub fn with_cfg(seed: u64, cfg: NetCfg, trace_level: TraceLevel) -> World {
        {
            let mut a = WORLD_ACTIVE.lock().unwrap_or_else(|e| e.into_inner());
            assert!(!*a, "one world per process at a time");
            *a = true;
        }
        crate::rng::seed_global(seed);
        let sh = Arc::new(Shared {
            m: Mutex::new(Inner {
                now: 1_000 * SEC,
                unix_base_us: 1_790_000_000_000_000,
                unix_skew_us: 0,
                next_sock: 1,
                next_seq: 1,
                next_port: 40000,
                socks: BTreeMap::new(),
                by_addr: HashMap::new(),
                bind_plan: VecDeque::new(),
                rng: Rng::new(seed ^ 0x51d7_348f),
                cfg,
                fault: None,
                trace: Vec::new(),
                trace_level,
                steps: 0,
                stuck: false,
                order_hash: 0,
                sends: 0,
                delivers: 0,
                send_errors: 0,
                local_delivery: false,
            }),
            sched_cv: Condvar::new(),
        });
        dht::verif::set_env(Some(sh.clone()));
        World { sh, responder: std::cell::RefCell::new(None), blocked_hook: std::cell::RefCell::new(None) }
    }

    pub fn now(&self) -> u64 {
        self.sh.lock().now
    }
    pub fn unix_micros(&self) -> u64 {
        dht::verif::Env::unix_micros(&*self.sh)
    }
    /// Shift the wall clock seen by the nodes (micro seconds).
    pub fn set_unix_skew(&self, skew_us: i64) {
        self.sh.lock().unix_skew_us = skew_us;
    }
    pub fn steps(&self) -> u64 {
        self.sh.lock().steps
    }
    /// send_to calls of nodes that failed (port 0 / broadcast destination)
    pub fn send_errors(&self) -> u64 {
        self.sh.lock().send_errors
    }
    pub fn stuck(&self) -> bool {
        self.sh.lock().stuck
    }
    pub fn order_hash(&self) -> u64 {
        self.sh.lock().order_hash
    }
    pub fn counts(&self) -> (u64, u64) {
        let g = self.sh.lock();
        (g.sends, g.delivers)
    }
    pub fn set_blocked_hook(&self, f: Option<BlockedHook>) {
        *self.blocked_hook.borrow_mut() = f;
    }
    pub fn set_responder(&self, f: Option<Responder>) {
        *self.responder.borrow_mut() = f;
    }
    pub fn set_fault(&self, hook: Option<FaultHook>) {
        self.sh.lock().fault = hook;
    }
    /// Datagrams for 0.0.0.0 / 127.x.y.z reach the socket with that port on the sender's host (source 127.0.0.1).
    pub fn set_local_delivery(&self, on: bool) {
        self.sh.lock().local_delivery = on;
    }
    pub fn set_latency(&self, min: u64, max: u64) {
        let mut g = self.sh.lock();
        g.cfg.lat_min = min;
        g.cfg.lat_max = max;
    }
    pub fn set_trace(&self, level: TraceLevel) {
        self.sh.lock().trace_level = level;
    }
    pub fn trace_len(&self) -> usize {
        self.sh.lock().trace.len()
    }
    /// Copy of the trace from index `from`.
    pub fn trace_from(&self, from: usize) -> Vec<Ev> {
        self.sh.lock().trace[from..].to_vec()
    }
    pub fn clear_trace(&self) {
        self.sh.lock().trace.clear();
    }
    pub fn rng_u64(&self) -> u64 {
        self.sh.lock().rng.u64()
    }

    /// Wait (real time) until every node thread is parked or gone.
    pub fn settle(&self) -> bool {
        let mut g = self.sh.lock();
        if g.stuck {
            return false;
        }
        let mut waited = 0;
        loop {
            let busy = g.socks.values().any(|s| s.kind == Kind::Node && matches!(s.st, St::Running | St::Granted));
            if !busy {
                return true;
            }
            let (ng, to) = self.sh.sched_cv.wait_timeout(g, Duration::from_millis(200)).unwrap_or_else(|e| e.into_inner());
            g = ng;
            if to.timed_out() {
                waited += 1;
                if waited > 150 {
                    g.stuck = true;
                    return false;
                }
            }
        }
    }

    pub fn spawn(&self, spec: NodeSpec) -> io::Result<Node> {
        self.settle();
        let before: HashSet<SockId> = self.sh.lock().socks.keys().copied().collect();
        self.sh.lock().bind_plan.push_back(BindPlan { released: false, ip: spec.ip, nat_public: spec.nat_public, nat_open: spec.nat_open });
        let mut b = Dht::builder();
        let boots: Vec<String> = spec.bootstrap_names.iter().cloned().chain(spec.bootstrap.iter().map(|a| a.to_string())).collect();
        b.bootstrap(&boots);
        if spec.server {
            b.server_mode();
        }
        if let Some(p) = spec.port {
            b.port(p);
        }
        if let Some(ip) = spec.public_ip {
            b.public_ip(ip);
        }
        if let Some(s) = spec.settings.clone() {
            b.server_settings(s);
        }
        // The first poll spawns the actor thread and queues its Check message; the thread is held
        // inside bind() until then, so it always finds the message on its first loop iteration.
        let mut fut = Box::pin(b.build_async());
        let mut res = poll_once(fut.as_mut());
        {
            let mut g = self.sh.lock();
            if let Some(p) = g.bind_plan.front_mut() {
                p.released = true;
            }
            self.sh.sched_cv.notify_all();
        }
        let mut spins = 0;
        while res.is_pending() {
            // wait (real time) for the new thread to park or die, then look again
            std::thread::sleep(Duration::from_micros(if spins < 50 { 20 } else { 1000 }));
            self.settle();
            res = poll_once(fut.as_mut());
            spins += 1;
            if spins > 30_000 {
                self.sh.lock().stuck = true;
                self.sh.lock().bind_plan.clear();
                return Err(io::Error::new(io::ErrorKind::TimedOut, "simnet: node did not come up"));
            }
        }
        self.settle();
        let mut g = self.sh.lock();
        // a failed bind leaves its plan queued
        g.bind_plan.clear();
        let adht = match res {
            Poll::Ready(r) => r?,
            Poll::Pending => unreachable!(),
        };
        let (sock, addr) = g
            .socks
            .iter()
            .find(|(id, _)| !before.contains(id))
            .map(|(id, s)| (*id, s.addr))
            .expect("new socket registered");
        drop(g);
        Ok(Node { dht: adht.as_sync().clone(), adht, sock, addr })
    }

    /// Harness-owned endpoint.
    pub fn raw(&self, addr: SocketAddrV4) -> SockId {
        let mut g = self.sh.lock();
        assert!(!g.by_addr.contains_key(&addr), "raw addr in use {addr}");
        let id = g.next_sock;
        g.next_sock += 1;
        g.socks.insert(
            id,
            Sock {
                addr,
                kind: Kind::Raw,
                st: St::Parked { deadline: u64::MAX },
                cv: Arc::new(Condvar::new()),
                q: BTreeMap::new(),
                crashed: false,
                nat: None,
                mailbox: VecDeque::new(),
            },
        );
        g.by_addr.insert(addr, id);
        id
    }
    pub fn close_raw(&self, sock: SockId) {
        let mut g = self.sh.lock();
        if let Some(s) = g.socks.remove(&sock) {
            if g.by_addr.get(&s.addr) == Some(&sock) {
                g.by_addr.remove(&s.addr);
            }
        }
    }
    pub fn raw_send(&self, sock: SockId, bytes: &[u8], to: SocketAddrV4) {
        self.sh.lock().send(sock, bytes, to, true, 0);
    }
    pub fn raw_send_delayed(&self, sock: SockId, bytes: &[u8], to: SocketAddrV4, extra: u64) {
        self.sh.lock().send(sock, bytes, to, true, extra);
    }
    /// Send with an exact one-way delay (bypasses the latency draw and the fault hook).
    pub fn raw_send_exact(&self, sock: SockId, bytes: &[u8], to: SocketAddrV4, delay: u64) {
        let mut g = self.sh.lock();
        let hook = g.fault.take();
        let (lo, hi) = (g.cfg.lat_min, g.cfg.lat_max);
        g.cfg.lat_min = delay;
        g.cfg.lat_max = delay;
        g.send(sock, bytes, to, true, 0);
        g.cfg.lat_min = lo;
        g.cfg.lat_max = hi;
        g.fault = hook;
    }
    /// Put a datagram with an arbitrary (spoofed) source address on the wire, delivered after
    /// exactly `delay`. Bypasses the fault hook; NAT filtering at the destination still applies.
    pub fn inject(&self, from: SocketAddrV4, bytes: &[u8], to: SocketAddrV4, delay: u64) {
        let mut g = self.sh.lock();
        let now = g.now;
        let seq = g.next_seq;
        g.next_seq += 1;
        g.sends += 1;
        let b = Arc::new(bytes.to_vec());
        if g.trace_level == TraceLevel::Full {
            g.trace.push(Ev::Send { t: now, seq, from, to, bytes: b.clone(), raw: true });
        }
        let Some(dest) = g.by_addr.get(&to).copied() else { return };
        let k = g.next_seq;
        g.next_seq += 1;
        if let Some(ds) = g.socks.get_mut(&dest) {
            if ds.crashed {
                return;
            }
            if let Some(nat) = ds.nat.as_ref() {
                if !nat.open && (from == ds.addr || !nat.allowed.contains(&from)) {
                    return;
                }
            }
            ds.q.insert((now + delay, k), Dgram { seq, from, to, bytes: b });
        }
    }
    pub fn raw_recv(&self, sock: SockId) -> Option<(u64, Dgram)> {
        self.sh.lock().socks.get_mut(&sock).and_then(|s| s.mailbox.pop_front())
    }
    pub fn raw_pending(&self, sock: SockId) -> usize {
        self.sh.lock().socks.get(&sock).map(|s| s.mailbox.len()).unwrap_or(0)
    }

    pub fn sock_addr(&self, sock: SockId) -> Option<SocketAddrV4> {
        self.sh.lock().socks.get(&sock).map(|s| s.addr)
    }
    /// None = still open; Some(panicked) = closed.
    pub fn closed(&self, sock: SockId) -> Option<bool> {
        match self.sh.lock().socks.get(&sock).map(|s| s.st) {
            Some(St::Closed { panicked }) => Some(panicked),
            _ => None,
        }
    }
    pub fn any_panicked(&self) -> Vec<SocketAddrV4> {
        self.sh.lock().socks.values().filter(|s| s.st == St::Closed { panicked: true }).map(|s| s.addr).collect()
    }

    /// One scheduling step: advance the clock to the next event and run it.
    pub fn step(&self) -> Step {
        self.step_until(u64::MAX)
    }

    /// Like `step`, but never advances the clock beyond `limit` (returns Idle and sets now=limit).
    pub fn step_until(&self, limit: u64) -> Step {
        if !self.settle() {
            return Step::Stuck;
        }
        let mut g = self.sh.lock();
        let now = g.now;
        let mut best: Option<u64> = None;
        let mut ties: Vec<SockId> = Vec::new();
        for (id, s) in g.socks.iter() {
            let wake = match (s.kind, s.st) {
                (Kind::Node, St::Parked { deadline }) => {
                    let first = s.q.keys().next().map(|k| k.0.max(now)).unwrap_or(u64::MAX);
                    let d = if s.crashed { now } else { deadline };
                    first.min(d)
                }
                (Kind::Raw, _) => s.q.keys().next().map(|k| k.0.max(now)).unwrap_or(u64::MAX),
                _ => u64::MAX,
            };
            if wake == u64::MAX {
                continue;
            }
            match best {
                Some(b) if wake > b => {}
                Some(b) if wake == b => ties.push(*id),
                _ => {
                    best = Some(wake);
                    ties.clear();
                    ties.push(*id);
                }
            }
        }
        let wake = match best {
            Some(w) if w <= limit => w,
            _ => {
                if limit != u64::MAX && limit > g.now {
                    g.now = limit;
                }
                return Step::Idle;
            }
        };
        let pick = if ties.len() > 1 && g.cfg.random_ties {
            let i = g.rng.usize(ties.len());
            ties[i]
        } else {
            ties[0]
        };
        g.now = wake.max(now);
        g.steps += 1;
        let now = g.now;
        let level = g.trace_level;
        let s = g.socks.get_mut(&pick).expect("picked");
        match s.kind {
            Kind::Raw => {
                let key = s.q.keys().next().copied().expect("raw dgram");
                let d = s.q.remove(&key).expect("raw dgram");
                let to = s.addr;
                g.delivers += 1;
                if level == TraceLevel::Full {
                    g.trace.push(Ev::Deliver { t: now, seq: d.seq, to, from: d.from, bytes: d.bytes.clone() });
                }
                drop(g);
                let mut handled = false;
                if let Ok(mut slot) = self.responder.try_borrow_mut() {
                    if let Some(f) = slot.as_mut() {
                        handled = f(self, pick, &d);
                    }
                }
                if !handled {
                    if let Some(s) = self.sh.lock().socks.get_mut(&pick) {
                        s.mailbox.push_back((now, d));
                    }
                }
                Step::Raw(pick)
            }
            Kind::Node => {
                s.st = St::Granted;
                let cv = s.cv.clone();
                cv.notify_all();
                let mut waited = 0;
                loop {
                    let st = g.socks.get(&pick).map(|s| s.st);
                    match st {
                        Some(St::Parked { .. }) | Some(St::Closed { .. }) | None => break,
                        _ => {}
                    }
                    let (ng, to) = self.sh.sched_cv.wait_timeout(g, Duration::from_millis(200)).unwrap_or_else(|e| e.into_inner());
                    g = ng;
                    if to.timed_out() {
                        cv.notify_all();
                        waited += 1;
                        if waited % 15 == 0 {
                            if let Ok(mut slot) = self.blocked_hook.try_borrow_mut() {
                                if let Some(f) = slot.as_mut() {
                                    f(waited);
                                }
                            }
                        }
                        if waited > 150 {
                            g.stuck = true;
                            return Step::Stuck;
                        }
                    }
                }
                Step::Node(pick)
            }
        }
    }

    /// Run until virtual time `t` (absolute).
    pub fn run_to(&self, t: u64) -> bool {
        loop {
            match self.step_until(t) {
                Step::Idle => return true,
                Step::Stuck => return false,
                _ => {}
            }
        }
    }
    pub fn run_for(&self, d: u64) -> bool {
        let t = self.now() + d;
        self.run_to(t)
    }

    /// Step until `pred` holds (checked after every step) or `max` virtual time passed.
    pub fn run_until<F: FnMut(&World) -> bool>(&self, max: u64, mut pred: F) -> bool {
        let end = self.now().saturating_add(max);
        loop {
            if pred(self) {
                return true;
            }
            match self.step_until(end) {
                Step::Idle => {
                    return pred(self);
                }
                Step::Stuck => return false,
                _ => {}
            }
        }
    }

    /// Drive a future of the async API to completion; None if `max` virtual time passes first.
    pub fn block_on<T>(&self, fut: impl Future<Output = T>, max: u64) -> Option<T> {
        let mut fut = Box::pin(fut);
        let end = self.now().saturating_add(max);
        loop {
            if let Poll::Ready(v) = poll_once(fut.as_mut()) {
                return Some(v);
            }
            match self.step_until(end) {
                Step::Idle | Step::Stuck => {
                    if let Poll::Ready(v) = poll_once(fut.as_mut()) {
                        return Some(v);
                    }
                    return None;
                }
                _ => {}
            }
        }
    }

    /// Crash a node: its address goes dead at once; the thread exits at its next iteration.
    pub fn crash(&self, node: Node) {
        let sock = node.sock;
        {
            let mut g = self.sh.lock();
            if let Some(s) = g.socks.get_mut(&sock) {
                s.crashed = true;
                s.q.clear();
                let addr = s.addr;
                if g.by_addr.get(&addr) == Some(&sock) {
                    g.by_addr.remove(&addr);
                }
            }
        }
        drop(node);
        self.reap(sock);
    }

    /// Mark a socket crashed without owning the Node (handles must be dropped by the caller).
    pub fn crash_sock(&self, sock: SockId) {
        let mut g = self.sh.lock();
        if let Some(s) = g.socks.get_mut(&sock) {
            s.crashed = true;
            s.q.clear();
            let addr = s.addr;
            if g.by_addr.get(&addr) == Some(&sock) {
                g.by_addr.remove(&addr);
            }
        }
    }

    /// Let a crashed node's thread run (without advancing time) until its socket is closed.
    pub fn reap(&self, sock: SockId) {
        for _ in 0..64 {
            if !self.settle() {
                return;
            }
            let mut g = self.sh.lock();
            let st = g.socks.get(&sock).map(|s| s.st);
            match st {
                Some(St::Parked { .. }) => {
                    let s = g.socks.get_mut(&sock).expect("sock");
                    s.st = St::Granted;
                    s.cv.notify_all();
                }
                _ => return,
            }
        }
    }

    /// Tear the world down: all node handles must have been dropped by the caller.
    pub fn shutdown(self) {
        // the work happens in Drop, so that a panicking scenario also releases the process-global env
    }

    fn teardown(&self) {
        if let Ok(mut r) = self.responder.try_borrow_mut() {
            *r = None;
        }
        let socks: Vec<SockId> = {
            let mut g = self.sh.lock();
            g.fault = None;
            let ids: Vec<SockId> = g.socks.iter().filter(|(_, s)| s.kind == Kind::Node && !matches!(s.st, St::Closed { .. })).map(|(id, _)| *id).collect();
            for id in &ids {
                if let Some(s) = g.socks.get_mut(id) {
                    s.crashed = true;
                    s.q.clear();
                }
            }
            ids
        };
        for s in socks {
            self.reap(s);
        }
        dht::verif::set_env(None);
        *WORLD_ACTIVE.lock().unwrap_or_else(|e| e.into_inner()) = false;
    }
}

impl Drop for World {
    fn drop(&mut self) {
        self.teardown();
    }
}

// === minimal executor ===

fn noop_raw() -> RawWaker {
    fn clone(_: *const ()) -> RawWaker {
        noop_raw()
    }
    fn noop(_: *const ()) {}
    static VT: RawWakerVTable = RawWakerVTable::new(clone, noop, noop, noop);
    RawWaker::new(std::ptr::null(), &VT)
}

pub fn poll_once<F: Future + ?Sized>(fut: Pin<&mut F>) -> Poll<F::Output> {
    let waker = unsafe { Waker::from_raw(noop_raw()) };
    let mut cx = Context::from_waker(&waker);
    fut.poll(&mut cx)
}

/// A spawned API call whose completion is observed by polling after every step.
pub struct Task<T> {
    fut: Option<Pin<Box<dyn Future<Output = T>>>>,
    pub result: Option<T>,
    pub started: u64,
    pub finished: Option<u64>,
}

impl<T> Task<T> {
    pub fn new(now: u64, fut: impl Future<Output = T> + 'static) -> Self {
        let mut t = Task { fut: Some(Box::pin(fut)), result: None, started: now, finished: None };
        t.poll(now);
        t
    }
    pub fn poll(&mut self, now: u64) -> bool {
        if let Some(f) = self.fut.as_mut() {
            if let Poll::Ready(v) = poll_once(f.as_mut()) {
                self.result = Some(v);
                self.finished = Some(now);
                self.fut = None;
            }
        }
        self.result.is_some()
    }
    pub fn done(&self) -> bool {
        self.result.is_some()
    }
}

pub fn pin_to_cpu(cpu: usize) {
    if cfg!(miri) {
        return;
    }
    unsafe {
        let mut set: libc::cpu_set_t = std::mem::zeroed();
        libc::CPU_ZERO(&mut set);
        libc::CPU_SET(cpu % 16, &mut set);
        libc::sched_setaffinity(0, std::mem::size_of::<libc::cpu_set_t>(), &set);
    }
}

//! KRPC messages built and parsed with the harness's own bencode (independent of the crate's codec).
use crate::bencode::{parse, B};
use std::net::{Ipv4Addr, SocketAddrV4};

pub const VERSION_RS6: [u8; 4] = [82, 83, 0, 6];

#[derive(Debug, Clone)]
pub struct Krpc {
    pub t: Vec<u8>,
    /// b'q', b'r' or b'e'
    pub y: u8,
    pub q: Option<String>,
    pub a: Option<B>,
    pub r: Option<B>,
    pub e: Option<(i128, Vec<u8>)>,
    pub ro: bool,
    pub v: Option<Vec<u8>>,
    pub ip: Option<Vec<u8>>,
    pub canonical: bool,
    pub whole: B,
}

impl Krpc {
    pub fn parse(bytes: &[u8]) -> Option<Krpc> {
        let (whole, info) = parse(bytes)?;
        if info.consumed != bytes.len() {
            return None;
        }
        let t = whole.get("t")?.as_bytes()?.to_vec();
        let y = *whole.get("y")?.as_bytes()?.first()?;
        let q = whole.get("q").and_then(|q| q.as_bytes()).map(|q| String::from_utf8_lossy(q).into_owned());
        let e = whole.get("e").and_then(|e| e.as_list()).and_then(|l| {
            if y == b'e' && l.len() >= 2 {
                Some((l[0].as_int()?, l[1].as_bytes()?.to_vec()))
            } else {
                None
            }
        });
        Some(Krpc {
            t,
            y,
            q,
            a: whole.get("a").cloned(),
            r: whole.get("r").cloned(),
            e,
            ro: whole.get("ro").and_then(|x| x.as_int()).map(|x| x != 0).unwrap_or(false),
            v: whole.get("v").and_then(|x| x.as_bytes()).map(|x| x.to_vec()),
            ip: whole.get("ip").and_then(|x| x.as_bytes()).map(|x| x.to_vec()),
            canonical: info.minimal_ints && info.sorted_keys,
            whole,
        })
    }
    pub fn tid_u32(&self) -> Option<u32> {
        match self.t.len() {
            2 => Some(u16::from_be_bytes([self.t[0], self.t[1]]) as u32),
            4 => Some(u32::from_be_bytes([self.t[0], self.t[1], self.t[2], self.t[3]])),
            _ => None,
        }
    }
    pub fn arg(&self, k: &str) -> Option<&B> {
        self.a.as_ref().and_then(|a| a.get(k))
    }
    pub fn res(&self, k: &str) -> Option<&B> {
        self.r.as_ref().and_then(|a| a.get(k))
    }
    pub fn arg_bytes(&self, k: &str) -> Option<&[u8]> {
        self.arg(k).and_then(|b| b.as_bytes())
    }
    pub fn res_bytes(&self, k: &str) -> Option<&[u8]> {
        self.res(k).and_then(|b| b.as_bytes())
    }
    pub fn is_query(&self, name: &str) -> bool {
        self.y == b'q' && self.q.as_deref() == Some(name)
    }
    pub fn error_code(&self) -> Option<i128> {
        self.e.as_ref().map(|e| e.0)
    }
    /// target / info_hash of a query
    pub fn target(&self) -> Option<[u8; 20]> {
        let b = self.arg_bytes("target").or_else(|| self.arg_bytes("info_hash"))?;
        b.try_into().ok()
    }
    pub fn id(&self) -> Option<[u8; 20]> {
        let b = if self.y == b'q' { self.arg_bytes("id")? } else { self.res_bytes("id")? };
        b.try_into().ok()
    }
    pub fn nodes(&self) -> Vec<([u8; 20], SocketAddrV4)> {
        self.res_bytes("nodes").map(parse_nodes).unwrap_or_default()
    }
}

pub fn parse_nodes(b: &[u8]) -> Vec<([u8; 20], SocketAddrV4)> {
    b.chunks_exact(26)
        .map(|c| {
            let id: [u8; 20] = c[..20].try_into().expect("20");
            (id, parse_addr(&c[20..26]))
        })
        .collect()
}
pub fn parse_addr(c: &[u8]) -> SocketAddrV4 {
    SocketAddrV4::new(Ipv4Addr::new(c[0], c[1], c[2], c[3]), u16::from_be_bytes([c[4], c[5]]))
}
pub fn addr_bytes(a: &SocketAddrV4) -> Vec<u8> {
    let mut v = a.ip().octets().to_vec();
    v.extend_from_slice(&a.port().to_be_bytes());
    v
}
pub fn nodes_bytes(nodes: &[([u8; 20], SocketAddrV4)]) -> Vec<u8> {
    let mut v = Vec::with_capacity(nodes.len() * 26);
    for (id, a) in nodes {
        v.extend_from_slice(id);
        v.extend_from_slice(&addr_bytes(a));
    }
    v
}

pub fn tid(t: u32) -> B {
    B::Bytes(t.to_be_bytes().to_vec())
}

/// Envelope for a query.
pub fn query(t: &[u8], q: &str, a: B, ro: Option<i128>, v: Option<&[u8]>) -> B {
    let mut e = vec![("t", B::bytes(t)), ("y", B::str("q")), ("q", B::str(q)), ("a", a)];
    if let Some(ro) = ro {
        e.push(("ro", B::Int(ro)));
    }
    if let Some(v) = v {
        e.push(("v", B::bytes(v)));
    }
    B::dict(e)
}
pub fn response(t: &[u8], r: B, ip: Option<&SocketAddrV4>, v: Option<&[u8]>) -> B {
    let mut e = vec![("t", B::bytes(t)), ("y", B::str("r")), ("r", r)];
    if let Some(ip) = ip {
        e.push(("ip", B::Bytes(addr_bytes(ip))));
    }
    if let Some(v) = v {
        e.push(("v", B::bytes(v)));
    }
    B::dict(e)
}
pub fn error(t: &[u8], code: i128, msg: &str) -> B {
    B::dict(vec![("t", B::bytes(t)), ("y", B::str("e")), ("e", B::List(vec![B::Int(code), B::str(msg)]))])
}

pub fn q_ping(t: &[u8], id: &[u8; 20]) -> Vec<u8> {
    query(t, "ping", B::dict(vec![("id", B::bytes(id))]), None, None).encode()
}
pub fn q_find_node(t: &[u8], id: &[u8; 20], target: &[u8; 20], ro: bool, v: Option<&[u8]>) -> Vec<u8> {
    query(t, "find_node", B::dict(vec![("id", B::bytes(id)), ("target", B::bytes(target))]), if ro { Some(1) } else { None }, v).encode()
}
pub fn q_get_peers(t: &[u8], id: &[u8; 20], info_hash: &[u8; 20], signed: bool) -> Vec<u8> {
    query(t, if signed { "get_signed_peers" } else { "get_peers" }, B::dict(vec![("id", B::bytes(id)), ("info_hash", B::bytes(info_hash))]), None, None).encode()
}
pub fn q_get(t: &[u8], id: &[u8; 20], target: &[u8; 20], seq: Option<i64>) -> Vec<u8> {
    let mut a = vec![("id", B::bytes(id)), ("target", B::bytes(target))];
    if let Some(s) = seq {
        a.push(("seq", B::Int(s as i128)));
    }
    query(t, "get", B::dict(a), None, None).encode()
}
pub fn q_announce_peer(t: &[u8], id: &[u8; 20], info_hash: &[u8; 20], port: u16, implied: Option<i128>, token: &[u8]) -> Vec<u8> {
    let mut a = vec![("id", B::bytes(id)), ("info_hash", B::bytes(info_hash)), ("port", B::Int(port as i128)), ("token", B::bytes(token))];
    if let Some(i) = implied {
        a.push(("implied_port", B::Int(i)));
    }
    query(t, "announce_peer", B::dict(a), None, None).encode()
}
pub fn q_announce_signed_peer(t: &[u8], id: &[u8; 20], info_hash: &[u8; 20], k: &[u8], sig: &[u8], ts: u64, token: &[u8]) -> Vec<u8> {
    let a = vec![
        ("id", B::bytes(id)),
        ("info_hash", B::bytes(info_hash)),
        ("k", B::bytes(k)),
        ("sig", B::bytes(sig)),
        ("t", B::Int(ts as i64 as i128)),
        ("token", B::bytes(token)),
    ];
    query(t, "announce_signed_peer", B::dict(a), None, None).encode()
}
pub fn q_put_immutable(t: &[u8], id: &[u8; 20], token: &[u8], target: &[u8; 20], v: &[u8]) -> Vec<u8> {
    let a = vec![("id", B::bytes(id)), ("target", B::bytes(target)), ("token", B::bytes(token)), ("v", B::bytes(v))];
    query(t, "put", B::dict(a), None, None).encode()
}
#[allow(clippy::too_many_arguments)]
pub fn q_put_mutable(
    t: &[u8],
    id: &[u8; 20],
    token: &[u8],
    target: &[u8; 20],
    v: &[u8],
    k: &[u8],
    sig: &[u8],
    seq: i64,
    salt: Option<&[u8]>,
    cas: Option<i64>,
) -> Vec<u8> {
    let mut a = vec![
        ("id", B::bytes(id)),
        ("target", B::bytes(target)),
        ("token", B::bytes(token)),
        ("v", B::bytes(v)),
        ("k", B::bytes(k)),
        ("sig", B::bytes(sig)),
        ("seq", B::Int(seq as i128)),
    ];
    if let Some(s) = salt {
        a.push(("salt", B::bytes(s)));
    }
    if let Some(c) = cas {
        a.push(("cas", B::Int(c as i128)));
    }
    query(t, "put", B::dict(a), None, None).encode()
}

/// The signable buffer of a signed announcement: info_hash || t (big endian).
pub fn announce_signable(info_hash: &[u8; 20], ts: u64) -> Vec<u8> {
    let mut v = info_hash.to_vec();
    v.extend_from_slice(&ts.to_be_bytes());
    v
}

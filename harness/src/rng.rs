//! Seeded PRNG (xoshiro256**) + the process-global generator behind `getrandom`
//! (`--cfg getrandom_backend="custom"`), so node ids, token secrets and BEP42 `r` are reproducible.
use std::sync::Mutex;

#[derive(Clone, Debug)]
pub struct Rng([u64; 4]);

fn splitmix(x: &mut u64) -> u64 {
    *x = x.wrapping_add(0x9E3779B97F4A7C15);
    let mut z = *x;
    z = (z ^ (z >> 30)).wrapping_mul(0xBF58476D1CE4E5B9);
    z = (z ^ (z >> 27)).wrapping_mul(0x94D049BB133111EB);
    z ^ (z >> 31)
}

impl Rng {
    pub fn new(seed: u64) -> Self {
        let mut s = seed;
        Rng([splitmix(&mut s), splitmix(&mut s), splitmix(&mut s), splitmix(&mut s)])
    }
    pub fn fork(&mut self, tag: u64) -> Rng {
        Rng::new(self.u64() ^ tag.wrapping_mul(0xD6E8FEB86659FD93))
    }
    pub fn u64(&mut self) -> u64 {
        let s = &mut self.0;
        let r = s[1].wrapping_mul(5).rotate_left(7).wrapping_mul(9);
        let t = s[1] << 17;
        s[2] ^= s[0];
        s[3] ^= s[1];
        s[1] ^= s[2];
        s[0] ^= s[3];
        s[2] ^= t;
        s[3] = s[3].rotate_left(45);
        r
    }
    pub fn u32(&mut self) -> u32 {
        (self.u64() >> 32) as u32
    }
    /// uniform in 0..n (n > 0)
    pub fn below(&mut self, n: u64) -> u64 {
        debug_assert!(n > 0);
        ((self.u64() as u128 * n as u128) >> 64) as u64
    }
    pub fn range(&mut self, lo: u64, hi_incl: u64) -> u64 {
        lo + self.below(hi_incl - lo + 1)
    }
    pub fn usize(&mut self, n: usize) -> usize {
        self.below(n as u64) as usize
    }
    pub fn bool(&mut self) -> bool {
        self.u64() & 1 == 1
    }
    pub fn chance(&mut self, num: u64, den: u64) -> bool {
        self.below(den) < num
    }
    pub fn fill(&mut self, buf: &mut [u8]) {
        for chunk in buf.chunks_mut(8) {
            let v = self.u64().to_le_bytes();
            chunk.copy_from_slice(&v[..chunk.len()]);
        }
    }
    pub fn bytes(&mut self, n: usize) -> Vec<u8> {
        let mut v = vec![0u8; n];
        self.fill(&mut v);
        v
    }
    /// random bytes of a random length in lo..=hi
    pub fn blob(&mut self, lo: usize, hi: usize) -> Vec<u8> {
        let n = lo + self.usize(hi - lo + 1);
        self.bytes(n)
    }
    pub fn array<const N: usize>(&mut self) -> [u8; N] {
        let mut v = [0u8; N];
        self.fill(&mut v);
        v
    }
    pub fn pick<'a, T>(&mut self, xs: &'a [T]) -> &'a T {
        &xs[self.usize(xs.len())]
    }
    pub fn shuffle<T>(&mut self, xs: &mut [T]) {
        for i in (1..xs.len()).rev() {
            let j = self.usize(i + 1);
            xs.swap(i, j);
        }
    }
}

static GLOBAL: Mutex<Option<Rng>> = Mutex::new(None);

/// Re-seed the generator behind `getrandom` (Id::random, token secrets, ...).
pub fn seed_global(seed: u64) {
    *GLOBAL.lock().unwrap_or_else(|e| e.into_inner()) = Some(Rng::new(seed ^ 0x6c62272e07bb0142));
}

pub fn global_fill(buf: &mut [u8]) {
    let mut g = GLOBAL.lock().unwrap_or_else(|e| e.into_inner());
    g.get_or_insert_with(|| Rng::new(0)).fill(buf);
}

#[no_mangle]
unsafe extern "Rust" fn __getrandom_v03_custom(dest: *mut u8, len: usize) -> Result<(), getrandom::Error> {
    let buf = unsafe { std::slice::from_raw_parts_mut(dest, len) };
    global_fill(buf);
    Ok(())
}

pub fn fnv(data: &[u8]) -> u64 {
    let mut h = 0xcbf29ce484222325u64;
    for b in data {
        h ^= *b as u64;
        h = h.wrapping_mul(0x100000001b3);
    }
    h
}
pub fn mix(a: u64, b: u64) -> u64 {
    let mut x = a ^ b.wrapping_mul(0x9E3779B97F4A7C15);
    splitmix(&mut x)
}
